module verif/tools

go 1.23
