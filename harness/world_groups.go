package verifharness

import (
	"bufio"
	"fmt"
	"sort"
	"strings"
	"sync"
	"time"

	"verif/sim/simnet"
)

// World "groups" (C13): keyed membership, live members only, clean lifecycle of
// tcp, http and tcpmux load-balancing groups, including join racing the last leave.

func init() { RegisterWorld("groups", worldGroups) }

func worldGroups(w *World) {
	token := "grp-token"
	tcpMux := w.KnobBool("tcp_mux", 50)
	kind := []string{"tcp", "http", "tcpmux"}[w.Knob("group_kind", 0, 2)]
	if w.In.Property == "C07" && kind == "tcp" {
		kind = []string{"http", "tcpmux"}[w.In.Seed%2] // password protection exists for these two only
	}
	port0 := kind == "tcp" && w.KnobBool("server_chosen_port", 30)
	scfg := map[string]any{
		"bindAddr": "10.0.0.1", "bindPort": 7000, "vhostHTTPPort": 8080, "tcpmuxHTTPConnectPort": 7005,
		"auth":            map[string]any{"token": token},
		"transport":       map[string]any{"tcpMux": tcpMux, "heartbeatTimeout": -1},
		"allowPorts":      []map[string]any{{"start": 20000, "end": 20003}},
		"userConnTimeout": 3,
	}
	env := w.newLcEnv(scfg, token, PeerOpts{Server: "10.0.0.1:7000", Mux: tcpMux, Token: token})
	env.httpPort, env.muxPort = 8080, 7005
	env.start()
	r := w.R
	viol := func(oracle, sig, f string, a ...any) { w.Violate("C13", oracle, sig, f, a...) }
	var history []string
	hist := func(f string, a ...any) {
		s := fmt.Sprintf(f, a...)
		history = append(history, s)
		w.Net.Logf("op %s", s)
	}

	nclients := w.KnobPick("nclients", 2, 3, 4)
	var clients []*lcClient
	for i := 0; i < nclients; i++ {
		c := env.newClient("", 1)
		if rr, err := c.login(""); err != nil || mstr(rr, "error") != "" {
			w.Fail("login: %v %v", err, rr)
		}
		clients = append(clients, c)
	}
	const gname, gkey, domain = "G", "key-right", "grp.example.test"
	reqPort := 20001
	if port0 {
		reqPort = 0
	}
	realPort := 0
	members := map[string]*lcClient{} // proxy name -> client
	// password protection of group members (http, tcpmux): every member may come with its own credentials; the
	// group's endpoint carries those of the member that created it. Whatever the server makes of members whose
	// credentials differ (refuse the join, or admit it), a member configured with credentials must never be handed a
	// request that did not carry exactly these (C07).
	type cred struct{ u, p string }
	credChoices := []cred{{}, {"alice", "pw-a"}, {"alice", "pw-b"}, {"bob", "pw-a"}}
	withCreds := w.KnobBool("member_credentials", 40) || w.In.Property == "C07"
	withCreds = withCreds && kind != "tcp"
	mcreds := map[string]cred{}
	var groupCreds cred
	nextCreds := cred{} // credentials of the next join request built by mkReq
	authz := func(c cred) string {
		if c == (cred{}) {
			return ""
		}
		return basic(c.u, c.p)
	}
	mkReq := func(name, key string, variant int) M {
		f := M{"proxy_name": name, "group": gname, "group_key": key}
		if nextCreds != (cred{}) && kind != "tcp" {
			f["http_user"], f["http_pwd"] = nextCreds.u, nextCreds.p
		}
		switch kind {
		case "tcp":
			f["proxy_type"] = "tcp"
			f["remote_port"] = reqPort
			if variant == 1 {
				f["remote_port"] = 20002
			}
			if variant == 3 {
				f["remote_port"] = 0 // "any port" is not the group's port either
			}
		case "http":
			f["proxy_type"] = "http"
			f["custom_domains"] = []string{domain}
			if variant == 1 {
				f["custom_domains"] = []string{"other.example.test"}
			}
			if variant == 2 {
				// the group's own host first, then one more: the second cannot belong to the same group
				f["custom_domains"] = []string{domain, "other.example.test"}
			}
		default:
			f["proxy_type"] = "tcpmux"
			f["multiplexer"] = "httpconnect"
			f["custom_domains"] = []string{domain}
			if variant == 1 {
				f["custom_domains"] = []string{"other.example.test"}
			}
			if variant == 2 {
				f["custom_domains"] = []string{domain, "other.example.test"}
			}
		}
		return f
	}
	syncCtl := func(c *lcClient) {
		if c.IsClosed() {
			return
		}
		from := len(c.Inbox)
		c.Ping(true, token)
		c.WaitMsg(10*time.Second, func(m RecvMsg) bool { return m.Seq >= from && m.Type == tPong })
	}
	// probe returns who served ("" if refused/404) and whether the endpoint exists
	probeAs := func(pc cred) (served string, up bool, detail string) {
		switch kind {
		case "tcp":
			if realPort == 0 {
				return "", false, "no port"
			}
			res := env.probeTCP(fmt.Sprintf("10.0.0.1:%d", realPort), 8*time.Second)
			return res.ServedBy, !res.Refused, fmt.Sprint(res.Err)
		case "http":
			sb, st, err := env.probeHTTPAuth(domain, "/", authz(pc), 8*time.Second)
			return sb, st == 200, fmt.Sprintf("status %d err %v", st, err)
		default:
			ip := fmt.Sprintf("10.0.3.%d", 1+env.userIP%250)
			env.userIP++
			conn, err := simnet.DialFrom(ip, "10.0.0.1:7005", 10*time.Second)
			if err != nil {
				return "", false, err.Error()
			}
			defer conn.Close()
			ah := ""
			if a := authz(pc); a != "" {
				ah = "Proxy-Authorization: " + a + "\r\n"
			}
			fmt.Fprintf(conn, "CONNECT %s:443 HTTP/1.1\r\nHost: %s:443\r\n%s\r\n", domain, domain, ah)
			conn.SetReadDeadline(time.Now().Add(8 * time.Second))
			br := bufio.NewReader(conn)
			hdr, err := readUntil(br, "\r\n\r\n", 4096)
			if err != nil || !strings.HasPrefix(string(hdr), "HTTP/1.1 200") {
				return "", false, fmt.Sprintf("%q %v", hdr, err)
			}
			line, err := br.ReadString('\n')
			if err != nil {
				return "", true, err.Error()
			}
			return strings.TrimSpace(strings.TrimPrefix(line, "ID ")), true, ""
		}
	}
	// a sibling group with stable members right next to the one under test: same host, restricted to another
	// http user (http, tcpmux), or the neighbouring port (tcp). Whatever happens to the group under test, the
	// sibling has live members all the time and must keep serving.
	var sib *lcClient
	if w.KnobBool("sibling_group", 60) {
		sib = env.newClient("", 1)
		if rr, err := sib.login(""); err != nil || mstr(rr, "error") != "" {
			w.Fail("sibling login: %v %v", err, rr)
		}
		for _, n := range []string{"s0", "s1"} {
			f := M{"proxy_name": n, "group": "S", "group_key": "sib-key"}
			switch kind {
			case "tcp":
				f["proxy_type"], f["remote_port"] = "tcp", 20003
			case "http":
				f["proxy_type"], f["custom_domains"], f["route_by_http_user"] = "http", []string{domain}, "sib"
			default:
				f["proxy_type"], f["multiplexer"], f["custom_domains"], f["route_by_http_user"] = "tcpmux", "httpconnect", []string{domain}, "sib"
			}
			if rr, got := sib.register(f); !got || mstr(rr, "error") != "" {
				w.Fail("sibling group register: %v", rr)
			}
		}
	}
	checkSibling := func(when string) {
		if sib == nil {
			return
		}
		w.Check("C13.sibling-group-serves")
		served, detail := "", ""
		switch kind {
		case "tcp":
			res := env.probeTCP("10.0.0.1:20003", 8*time.Second)
			served, detail = res.ServedBy, fmt.Sprint(res.Err)
		case "http":
			sb, st, err := env.probeHTTPUser(domain, "/", "sib", 8*time.Second)
			served, detail = sb, fmt.Sprintf("status %d err %v", st, err)
		default:
			sb, err := env.probeCONNECT(domain, "sib", 8*time.Second)
			served, detail = sb, fmt.Sprint(err)
		}
		if served != sib.Name+"/s0" && served != sib.Name+"/s1" {
			viol("serve", "sibling-group-stranded", "%s: another group with two live members on the same host (other http user / next port) was not served: got %q (%s); history: %v", when, served, detail, history)
		}
	}
	// the users of the membership oracles present the credentials the group's endpoint was created with
	probe := func() (string, bool, string) { return probeAs(groupCreds) }
	// credProbe (C07): a request with drawn credentials; whoever serves it must have been configured with exactly these
	credProbe := func(when string) {
		if !withCreds || len(members) == 0 {
			return
		}
		w.Check("C07.group-member-reached-only-with-its-credentials")
		pc := credChoices[r.Intn(len(credChoices))]
		if r.Intn(2) == 0 {
			pc = groupCreds // what opens the group's endpoint
		}
		served, _, _ := probeAs(pc)
		if served == "" {
			return
		}
		for n, c := range members {
			if c.Name+"/"+n == served && mcreds[n] != (cred{}) && mcreds[n] != pc {
				w.Violate("C07", "auth", "group-member-reached-without-its-credentials", "%s: a %s request carrying credentials %q:%q was handed to group member %s, which is configured with %q:%q (the group was created with %q:%q); history: %v",
					when, kind, pc.u, pc.p, served, mcreds[n].u, mcreds[n].p, groupCreds.u, groupCreds.p, history)
			}
		}
	}
	memberIDs := func() []string {
		var ids []string
		for n, c := range members {
			ids = append(ids, c.Name+"/"+n)
		}
		sort.Strings(ids)
		return ids
	}
	checkProbe := func(when string) {
		defer checkSibling(when)
		w.Check("C13.live-member-serves")
		served, up, detail := probe()
		ids := memberIDs()
		if len(ids) == 0 {
			if served != "" || (up && kind != "http") {
				viol("endpoint", "endpoint-exists-without-members", "%s: group is empty but its endpoint answered (served=%q up=%v); history: %v", when, served, up, history)
			}
			return
		}
		if served == "" {
			viol("serve", "stranded-with-live-member", "%s: group has live members %v but a user connection was not served (%s); history: %v", when, ids, detail, history)
			return
		}
		ok := false
		for _, id := range ids {
			if id == served {
				ok = true
			}
		}
		if !ok {
			viol("serve", "served-by-non-member", "%s: served by %q, live members are %v; history: %v", when, served, ids, history)
		}
	}
	join := func(c *lcClient, name, key string, variant int) bool {
		f := mkReq(name, key, variant)
		hist("%s.join(%s,key=%s,variant=%d)", c.Name, name, key, variant)
		rr, got := c.register(f)
		hist("  -> %s", jsonStr(rr))
		if !got {
			viol("join", "no-reply", "no reply to join; history: %v", history)
			return false
		}
		return mstr(rr, "error") == "" && func() bool {
			if kind == "tcp" {
				if p := portOf(mstr(rr, "remote_addr")); len(members) == 0 {
					realPort = p
				} else if p != realPort {
					viol("join", "member-reported-different-port", "member joined and was told port %d, the group's port is %d; history: %v", p, realPort, history)
				}
			}
			return true
		}()
	}

	// recreate: once the last member has left, the endpoint can be created again immediately, by anybody,
	// under another group name and key (for tcp: asking for the very port the group had, also when the server chose it)
	recreate := func(when string) {
		if len(members) != 0 || (kind == "tcp" && realPort == 0) || r.Intn(2) == 0 {
			return
		}
		var c *lcClient
		for _, o := range clients {
			if !o.IsClosed() {
				c = o
			}
		}
		if c == nil {
			return
		}
		w.Check("C13.recreate-after-last-leave")
		f := mkReq("other", "another-key", 0)
		f["group"] = "G2"
		grouped := r.Intn(3) > 0
		if !grouped {
			delete(f, "group")
			delete(f, "group_key")
		}
		if kind == "tcp" {
			f["remote_port"] = realPort
		}
		hist("%s.recreate(%s)", c.Name, jsonStr(f))
		rr, got := c.register(f)
		hist("  -> %s", jsonStr(rr))
		if !got || mstr(rr, "error") != "" {
			viol("endpoint", "endpoint-not-creatable-after-last-leave", "%s: after the last member left, a new registration for the same endpoint (grouped=%v, port %d) was refused: %v; history: %v", when, grouped, realPort, rr, history)
			return
		}
		c.CloseProxy("other")
		syncCtl(c)
	}
	// prelude: the group's endpoint is held by an ordinary proxy when the first members try to create the group. They
	// are refused and must leave no trace: once the occupant is gone the group is created by whoever comes next and
	// serves from its live members only
	if !port0 && w.KnobBool("endpoint_occupied_at_first", 35) {
		w.Probe("groups.endpoint_occupied_at_first")
		occ := clients[0]
		f := mkReq("occupant", "", 0)
		delete(f, "group")
		delete(f, "group_key")
		delete(f, "http_user")
		delete(f, "http_pwd")
		hist("%s.register(occupant, no group)", occ.Name)
		if rr, got := occ.register(f); got && mstr(rr, "error") == "" {
			for j := 0; j < w.KnobPick("occupied.refusals", 1, 2, 3); j++ {
				c := clients[r.Intn(len(clients))]
				name := "m" + fmt.Sprint(r.Intn(5))
				nextCreds = cred{}
				if join(c, name, gkey, 0) {
					viol("join", "group-created-on-occupied-endpoint", "group created on an endpoint that an ordinary proxy owns; history: %v", history)
					return
				}
			}
			hist("%s.close(occupant)", occ.Name)
			occ.CloseProxy("occupant")
			syncCtl(occ)
		}
	}
	names := []string{"m0", "m1", "m2", "m3", "m4"}
	nops := w.KnobPick("nops", 6, 12, 24)
	focusRace := w.KnobBool("focus_race", 50)
	for i := 0; i < nops; i++ {
		c := clients[r.Intn(len(clients))]
		forced := -1
		if focusRace {
			// keep the group at exactly one member and race its leave against a join as often as possible
			switch {
			case len(members) == 0:
				forced = 0
			case len(members) == 1:
				forced = 19
			default:
				forced = 7
				for _, o := range members {
					c = o
				}
			}
		}
		if c.IsClosed() {
			viol("serve", "session-closed-unexpectedly", "session %s closed by the server; history: %v", c.Name, history)
			return
		}
		k := r.Intn(20)
		if forced >= 0 {
			k = forced
		}
		switch {
		case k < 7: // join
			var free []string
			for _, n := range names {
				if members[n] == nil {
					free = append(free, n)
				}
			}
			if len(free) == 0 {
				continue
			}
			name := free[r.Intn(len(free))]
			key, variant := gkey, 0
			switch r.Intn(6) + func() int {
				if focusRace {
					return 10
				}
				return 0
			}() {
			case 0:
				key = []string{"key-wrong", "", "key-righ", "key-right-x", "KEY-RIGHT"}[r.Intn(5)]
			case 1:
				variant = 1
				if kind == "tcp" && !port0 && len(members) > 0 && r.Intn(2) == 0 {
					variant = 3
					w.Probe("groups.join_fixed_port_group_with_port_0")
				}
			case 2:
				if kind != "tcp" && len(members) > 0 {
					variant = 2 // a join that fails half-way: the first host fits the group, the second does not
					w.Probe("groups.join_failing_on_second_host")
				}
			}
			before := memberIDs()
			jc := groupCreds
			if withCreds && (len(members) == 0 || r.Intn(2) == 0) {
				jc = credChoices[r.Intn(len(credChoices))]
			}
			if !withCreds {
				jc = cred{}
			}
			nextCreds = jc
			ok := join(c, name, key, variant)
			nextCreds = cred{}
			w.Check("C13.join-iff-key-and-params")
			mustOK := key == gkey && variant == 0
			if len(members) > 0 && jc != groupCreds {
				// credentials that differ from the group's: the statement of C13 does not say whether they are endpoint
				// parameters; either outcome is taken, what matters is who gets served afterwards
				w.Probe("groups.join_with_other_credentials")
				if ok && mustOK {
					members[name], mcreds[name] = c, jc
					for j := 0; j < 2*len(members); j++ {
						credProbe("after-join-with-other-credentials")
					}
				} else if ok {
					viol("join", "invalid-join-accepted", "join with key=%s variant=%d accepted into group with members %v; history: %v", key, variant, before, history)
					c.CloseProxy(name)
					syncCtl(c)
				}
				continue
			}
			if len(members) == 0 {
				// creating the group: any key/params are the group's own... but we only track the canonical group
				if !mustOK {
					if ok {
						// a differently-parameterised group was created; take it down again to keep the model simple
						c.CloseProxy(name)
						syncCtl(c)
					}
					continue
				}
			}
			if mustOK && !ok {
				viol("join", "valid-join-refused", "join with the right key and parameters was refused; members before %v; history: %v", before, history)
			}
			if !mustOK && ok {
				viol("join", "invalid-join-accepted", "join with key=%s variant=%d accepted into group with members %v; history: %v", key, variant, before, history)
				c.CloseProxy(name)
				syncCtl(c)
				continue
			}
			if ok {
				if len(members) == 0 {
					groupCreds = jc
				}
				members[name], mcreds[name] = c, jc
			} else if len(before) > 0 {
				// refused join leaves the group unchanged
				checkProbe("after-refused-join")
			}
		case k < 11: // leave
			var mine []string
			for n, o := range members {
				if o == c {
					mine = append(mine, n)
				}
			}
			if len(mine) == 0 {
				continue
			}
			sort.Strings(mine)
			n := mine[r.Intn(len(mine))]
			hist("%s.leave(%s)", c.Name, n)
			c.CloseProxy(n)
			syncCtl(c)
			delete(members, n)
			delete(mcreds, n)
			checkProbe("after-leave")
			credProbe("after-leave")
			recreate("after-leave")
		case k < 13: // session drop
			hist("%s.drop", c.Name)
			c.Drop()
			for n, o := range members {
				if o == c {
					delete(members, n)
				}
			}
			nc := c.fresh()
			if rr, err := nc.login(""); err != nil || mstr(rr, "error") != "" {
				viol("serve", "login-refused", "login after drop failed: %v %v", err, rr)
				return
			}
			for j := range clients {
				if clients[j] == c {
					clients[j] = nc
				}
			}
			time.Sleep(2 * time.Second)
			checkProbe("after-session-drop")
			recreate("after-session-drop")
		case k < 17:
			checkProbe("steady")
			credProbe("steady")
		case k < 18: // http rotation over stable members
			if kind != "http" || len(members) < 2 {
				continue
			}
			ids := memberIDs()
			mcount := len(ids)
			seen := map[string]bool{}
			w.Check("C13.http-rotation")
			for j := 0; j < 2*mcount; j++ {
				sb, _, _ := probe()
				seen[sb] = true
			}
			for _, id := range ids {
				if !seen[id] {
					viol("serve", "http-member-never-chosen", "%d sequential requests over %d stable members %v never reached %s (saw %v); history: %v", 2*mcount, mcount, ids, id, seen, history)
				}
			}
		default: // the last member leaves while another joins
			if len(members) != 1 {
				continue
			}
			var lastName string
			var last *lcClient
			for n, o := range members {
				lastName, last = n, o
			}
			var joiner *lcClient
			for _, o := range clients {
				if o != last && !o.IsClosed() {
					joiner = o
					break
				}
			}
			if joiner == nil || last.IsClosed() {
				continue
			}
			jname := ""
			for _, n := range names {
				if members[n] == nil && n != lastName {
					jname = n
					break
				}
			}
			hist("race: %s.leave(%s) || %s.join(%s)", last.Name, lastName, joiner.Name, jname)
			w.Probe("groups.race_last_leave_join")
			var wg sync.WaitGroup
			var rr M
			var got bool
			wg.Add(2)
			go func() { defer wg.Done(); last.CloseProxy(lastName); syncCtl(last) }()
			nextCreds = groupCreds
			raceReq := mkReq(jname, gkey, 0)
			nextCreds = cred{}
			go func() { defer wg.Done(); rr, got = joiner.register(raceReq) }()
			wg.Wait()
			hist("  -> %s", jsonStr(rr))
			delete(members, lastName)
			w.Check("C13.race-consistent")
			if got && mstr(rr, "error") == "" {
				if kind == "tcp" {
					realPort = portOf(mstr(rr, "remote_addr"))
				}
				members[jname], mcreds[jname] = joiner, groupCreds
				checkProbe("after-race-join-accepted")
			} else {
				checkProbe("after-race-join-refused")
				// the group can be created again immediately
				nextCreds = groupCreds
				okj := join(joiner, jname, gkey, 0)
				nextCreds = cred{}
				if okj {
					members[jname], mcreds[jname] = joiner, groupCreds
					checkProbe("after-recreate")
				} else {
					viol("lifecycle", "cannot-recreate-after-last-leave", "group could not be created again after its last member left; history: %v", history)
				}
			}
		}
	}
	w.SetSample(map[string]any{"kind": kind, "history": history})
	w.Nontrivial()
}
