package verifharness

import (
	"bytes"
	"io"
	"net"
	"strings"
	"sync"
	"time"

	"verif/sim/simnet"
)

// World "quic": frps and frpc talk QUIC (quic-go's own code over a simulated packet network).

func init() { RegisterWorld("quic", worldQuic) }

func worldQuic(w *World) {
	viol := func(oracle, sig, f string, a ...any) { w.Violate(w.In.Property, oracle, sig, f, a...) }
	token := marker(w, "tok")
	payloadMk := marker(w, "pay")
	enc := w.KnobBool("proxy_enc", 50)
	comp := w.KnobBool("proxy_comp", 30)
	scfg := map[string]any{"bindAddr": "10.0.0.1", "bindPort": 7000, "quicBindPort": 7001,
		"auth": map[string]any{"token": token}, "allowPorts": []map[string]any{{"start": 20000, "end": 20009}}}
	var mu sync.Mutex
	var wire bytes.Buffer
	simnet.UDPDeliverHook = func(to string, from *net.UDPAddr, data []byte) {
		mu.Lock()
		wire.Write(data)
		wire.WriteByte(0)
		mu.Unlock()
	}
	if _, err := w.StartFrps(w.Frps, scfg); err != nil {
		w.Fail("frps: %v", err)
	}
	ptr := map[string]any{"useEncryption": enc, "useCompression": comp}
	c1 := w.Net.NewNode("frpc1", "10.0.1.1")
	if _, err := w.StartFrpc(c1, map[string]any{"serverAddr": "10.0.0.1", "serverPort": 7001, "loginFailExit": false,
		"auth": map[string]any{"token": token}, "transport": map[string]any{"protocol": "quic", "poolCount": w.KnobPick("pool", 0, 1, 2)},
		"proxies": []map[string]any{{"name": "qt", "type": "tcp", "localIP": "127.0.0.1", "localPort": 9600, "remotePort": 20001, "transport": ptr}}}); err != nil {
		w.Fail("frpc: %v", err)
	}
	ln, _ := w.Net.Listen("tcp", "127.0.0.1:9600")
	w.Backend.Go(func() {
		for {
			c, err := ln.Accept()
			if err != nil {
				return
			}
			go func() { defer c.Close(); io.Copy(c, c) }()
		}
	})
	if !w.WaitUntil(60*time.Second, 100*time.Millisecond, func() bool { return w.FrpLogContains("[qt] start proxy success") }) {
		viol("startup", "proxy-not-up", "proxy over quic not up in 60 s")
		return
	}
	conn, err := simnet.DialFrom("10.0.3.70", "10.0.0.1:20001", 10*time.Second)
	if err != nil {
		viol("traffic", "refused", "%v", err)
		return
	}
	msg := []byte(strings.Repeat(payloadMk+"|", w.R.Range(1, 400)))
	go conn.Write(msg)
	conn.SetReadDeadline(time.Now().Add(30 * time.Second))
	buf := make([]byte, len(msg))
	if _, err := io.ReadFull(conn, buf); err != nil || !bytes.Equal(buf, msg) {
		viol("traffic", "echo-failed", "echo of %d bytes through a quic tunnel failed: %v", len(msg), err)
	}
	conn.Close()
	time.Sleep(2 * time.Second)
	mu.Lock()
	defer mu.Unlock()
	if bytes.Contains(wire.Bytes(), []byte(payloadMk)) || bytes.Contains(wire.Bytes(), []byte(token)) {
		viol("secrets", "clear-text-on-quic", "payload or token readable in the datagrams between client and server")
	}
	w.SetSample(map[string]any{"datagram_bytes": wire.Len(), "payload": len(msg)})
	w.Nontrivial()
}
