package verifharness

import (
	"encoding/json"
	"net"
	"sync"
	"time"

	"verif/sim/simnet"
)

// ScriptServer is a scripted frps: an independent implementation of the server
// side of the control protocol (plain TCP, no mux, no TLS), used for the
// client-side properties (C14 client half, C19).

type SrvSession struct {
	srv      *ScriptServer
	Conn     net.Conn
	rw       *ctlCipher
	RunID    string
	Login    M
	At       time.Duration
	mu       sync.Mutex
	Msgs     []RecvMsg // messages received from the client on the control connection
	Closed   bool
	ClosedAt time.Duration
}

type ScriptServer struct {
	w     *World
	Node  *simnet.Node
	Addr  string
	Token string
	ln    net.Listener

	mu            sync.Mutex
	cond          *sync.Cond
	Sessions      []*SrvSession
	LoginAttempts []time.Duration // every Login message received
	WorkConns     []net.Conn      // work connections offered by the client
	WorkMeta      []M

	// behaviour knobs (read under mu)
	RefuseLogin bool
	Pong        bool
	// NewProxy policy: returns the response fields, a delay before answering, and whether to answer at all
	OnNewProxy func(s *SrvSession, m M) (resp M, delay time.Duration, answer bool)
	// OnMsg is called for every control message in arrival order, before any reply is produced
	OnMsg func(s *SrvSession, m RecvMsg)
	seq   int
}

func (w *World) NewScriptServer(addr, token string) *ScriptServer {
	s := &ScriptServer{w: w, Addr: addr, Token: token, Pong: true}
	s.cond = sync.NewCond(&s.mu)
	s.Node = w.Frps
	return s
}

func (s *ScriptServer) Start() error {
	restore := s.Node.Enter()
	defer restore()
	ln, err := s.w.Net.Listen("tcp", s.Addr)
	if err != nil {
		return err
	}
	s.ln = ln
	s.Node.Go(func() {
		for {
			c, err := ln.Accept()
			if err != nil {
				return
			}
			go s.handle(c)
		}
	})
	return nil
}

// Stop closes the listener and every connection (server crash).
func (s *ScriptServer) Stop() {
	if s.ln != nil {
		s.ln.Close()
	}
	s.mu.Lock()
	ss := append([]*SrvSession{}, s.Sessions...)
	wc := append([]net.Conn{}, s.WorkConns...)
	s.mu.Unlock()
	for _, x := range ss {
		x.Conn.Close()
	}
	for _, c := range wc {
		c.Close()
	}
}

func (s *ScriptServer) handle(c net.Conn) {
	c.SetReadDeadline(time.Now().Add(10 * time.Second))
	typ, body, err := readFrame(c)
	c.SetReadDeadline(time.Time{})
	if err != nil {
		c.Close()
		return
	}
	m := M{}
	json.Unmarshal(body, &m)
	switch typ {
	case tLogin:
		checkWireFrame(s.w, "C17", typ, body, "frpc -> scripted server")
		s.mu.Lock()
		s.LoginAttempts = append(s.LoginAttempts, s.w.Net.Now())
		refuse := s.RefuseLogin
		s.seq++
		seq := s.seq
		s.cond.Broadcast()
		s.mu.Unlock()
		// the digest must be the released one
		ts, _ := m["timestamp"].(float64)
		if mstr(m, "privilege_key") != authKey(s.Token, int64(ts)) {
			s.w.Violate("C17", "interop", "client-login-digest-not-released-format", "frpc's login digest is not hex(md5(token+timestamp))")
		}
		if refuse {
			writeMsg(c, tLoginResp, M{"version": "0.62.0", "error": "scripted refusal"})
			c.Close()
			return
		}
		rid := mstr(m, "run_id")
		if rid == "" {
			rid = randHex(s.w, seq)
		}
		writeMsg(c, tLoginResp, M{"version": "0.62.0", "run_id": rid})
		ss := &SrvSession{srv: s, Conn: c, rw: newCtlCipher(c, s.Token), RunID: rid, Login: m, At: s.w.Net.Now()}
		s.mu.Lock()
		s.Sessions = append(s.Sessions, ss)
		s.cond.Broadcast()
		s.mu.Unlock()
		ss.loop()
	case tNewWorkConn:
		s.mu.Lock()
		s.WorkConns = append(s.WorkConns, c)
		s.WorkMeta = append(s.WorkMeta, m)
		s.cond.Broadcast()
		s.mu.Unlock()
	default:
		c.Close()
	}
}

func randHex(w *World, seq int) string {
	r := simnet.NewRand(w.In.Seed, "srvrunid")
	for i := 0; i < seq; i++ {
		r.U64()
	}
	const hexd = "0123456789abcdef"
	b := make([]byte, 16)
	v := r.U64()
	for i := range b {
		b[i] = hexd[(v>>(4*uint(i)))&15]
	}
	return string(b)
}

func (ss *SrvSession) loop() {
	s := ss.srv
	n := 0
	for {
		typ, body, err := readFrame(ss.rw)
		if err != nil {
			ss.mu.Lock()
			ss.Closed = true
			ss.ClosedAt = s.w.Net.Now()
			ss.mu.Unlock()
			s.mu.Lock()
			s.cond.Broadcast()
			s.mu.Unlock()
			return
		}
		checkWireFrame(s.w, "C17", typ, body, "frpc -> scripted server")
		ss.mu.Lock()
		ss.Msgs = append(ss.Msgs, RecvMsg{typ, body, s.w.Net.Now(), n})
		n++
		ss.mu.Unlock()
		s.mu.Lock()
		pong := s.Pong
		pol := s.OnNewProxy
		onm := s.OnMsg
		s.cond.Broadcast()
		s.mu.Unlock()
		if onm != nil {
			onm(ss, RecvMsg{typ, body, s.w.Net.Now(), n - 1})
		}
		m := M{}
		json.Unmarshal(body, &m)
		switch typ {
		case tPing:
			if pong {
				ss.Send(tPong, M{})
			}
		case tNewProxy:
			resp, delay, answer := M{"proxy_name": mstr(m, "proxy_name"), "remote_addr": ":0"}, time.Duration(0), true
			if pol != nil {
				resp, delay, answer = pol(ss, m)
			}
			if answer {
				if delay > 0 {
					go func() {
						time.Sleep(delay)
						ss.Send(tNewProxyResp, resp)
					}()
				} else {
					ss.Send(tNewProxyResp, resp)
				}
			}
		}
	}
}

func (ss *SrvSession) Send(typ byte, v any) error { return writeMsg(ss.rw, typ, v) }

func (ss *SrvSession) IsClosed() bool {
	ss.mu.Lock()
	defer ss.mu.Unlock()
	return ss.Closed
}

// Received returns a snapshot of the client's messages.
func (ss *SrvSession) Received() []RecvMsg {
	ss.mu.Lock()
	defer ss.mu.Unlock()
	return append([]RecvMsg{}, ss.Msgs...)
}

// WaitSession waits until at least n sessions have logged in.
func (s *ScriptServer) WaitSession(n int, timeout time.Duration) *SrvSession {
	tm := time.AfterFunc(timeout, func() {
		s.mu.Lock()
		s.cond.Broadcast()
		s.mu.Unlock()
	})
	defer tm.Stop()
	deadline := time.Now().Add(timeout)
	s.mu.Lock()
	defer s.mu.Unlock()
	for len(s.Sessions) < n && time.Now().Before(deadline) {
		s.cond.Wait()
	}
	if len(s.Sessions) < n {
		return nil
	}
	return s.Sessions[n-1]
}

func (s *ScriptServer) NumSessions() int {
	s.mu.Lock()
	defer s.mu.Unlock()
	return len(s.Sessions)
}

func (s *ScriptServer) Attempts() []time.Duration {
	s.mu.Lock()
	defer s.mu.Unlock()
	return append([]time.Duration{}, s.LoginAttempts...)
}

// TakeWorkConn returns an unused work connection offered by the client (nil if none within timeout).
func (s *ScriptServer) TakeWorkConn(timeout time.Duration) net.Conn {
	tm := time.AfterFunc(timeout, func() {
		s.mu.Lock()
		s.cond.Broadcast()
		s.mu.Unlock()
	})
	defer tm.Stop()
	deadline := time.Now().Add(timeout)
	s.mu.Lock()
	defer s.mu.Unlock()
	for len(s.WorkConns) == 0 && time.Now().Before(deadline) {
		s.cond.Wait()
	}
	if len(s.WorkConns) == 0 {
		return nil
	}
	c := s.WorkConns[0]
	s.WorkConns = s.WorkConns[1:]
	s.WorkMeta = s.WorkMeta[1:]
	return c
}
