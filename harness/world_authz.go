package verifharness

import (
	"crypto/ed25519"
	"crypto/tls"
	"encoding/json"
	"encoding/pem"
	"fmt"
	"net"
	"os"
	"strings"
	"time"

	"golang.org/x/crypto/ssh"

	"verif/sim/simnet"
)

// World "authz" (C04): no session, proxy or work connection without valid client
// credentials; refused attempts leave nothing behind and disturb nobody.

func init() { RegisterWorld("authz", worldAuthz) }

func worldAuthz(w *World) {
	token := "right-token-7f3a"
	tcpMux := w.KnobBool("tcp_mux", 50)
	useTLS := w.KnobBool("tls", 40)
	scopeHB := w.KnobBool("scope_heartbeats", 50)
	scopeWC := w.KnobBool("scope_newworkconns", 50)
	hbTimeout := w.KnobPick("hb_timeout", 4, 8)
	var scopes []string
	if scopeHB {
		scopes = append(scopes, "HeartBeats")
	}
	if scopeWC {
		scopes = append(scopes, "NewWorkConns")
	}
	scfg := map[string]any{
		"bindAddr": "10.0.0.1", "bindPort": 7000,
		"auth":            map[string]any{"token": token, "additionalScopes": scopes},
		"transport":       map[string]any{"tcpMux": tcpMux, "heartbeatTimeout": hbTimeout},
		"allowPorts":      []map[string]any{{"start": 20000, "end": 20009}},
		"userConnTimeout": 3,
	}
	sshGW := w.KnobPick("ssh_gateway", 0, 0, 1, 2) // 0 off, 1 with authorized keys, 2 without client auth (token required)
	sshChurn := w.KnobBool("ssh_churn", 15)        // an ssh step before every attack step
	var sshDir string
	var sshGood, sshBad ssh.Signer
	if sshGW != 0 {
		sshDir = w.ScratchDir("ssh")
		defer os.RemoveAll(sshDir)
		mk := func(name string) (ssh.Signer, ssh.PublicKey) {
			seed := make([]byte, ed25519.SeedSize)
			newSubRand(w, "sshkey:"+name).Fill(seed)
			k := ed25519.NewKeyFromSeed(seed)
			sg, _ := ssh.NewSignerFromKey(k)
			pk, _ := ssh.NewPublicKey(k.Public())
			return sg, pk
		}
		var goodPub ssh.PublicKey
		sshGood, goodPub = mk("good")
		sshBad, _ = mk("bad")
		hostSeed := make([]byte, ed25519.SeedSize)
		newSubRand(w, "sshkey:host").Fill(hostSeed)
		blk, err := ssh.MarshalPrivateKey(ed25519.NewKeyFromSeed(hostSeed), "")
		if err != nil {
			w.Fail("host key: %v", err)
		}
		os.WriteFile(sshDir+"/host_key", pem.EncodeToMemory(blk), 0o600)
		gw := map[string]any{"bindPort": 2200, "privateKeyFile": sshDir + "/host_key"}
		if sshGW == 1 {
			os.WriteFile(sshDir+"/authorized_keys", []byte(strings.TrimSpace(string(ssh.MarshalAuthorizedKey(goodPub)))+" alice\n"), 0o600)
			gw["authorizedKeysFile"] = sshDir + "/authorized_keys"
		}
		scfg["sshTunnelGateway"] = gw
	}
	if w.In.CertDir != "" {
		scfg["transport"].(map[string]any)["tls"] = map[string]any{"certFile": w.In.CertDir + "/server.crt", "keyFile": w.In.CertDir + "/server.key"}
	}
	opts := PeerOpts{Server: "10.0.0.1:7000", Mux: tcpMux, Token: token, TLS: useTLS, TLSConfig: &tls.Config{InsecureSkipVerify: true}}
	// the listener every scripted peer of this run enters through: the bind port as it is (tcp or tls), the
	// websocket path of the bind port, or the QUIC listener
	switch w.KnobPick("entry", 0, 0, 1, 2) {
	case 1:
		opts.WS = true
		opts.CustomByte = false
		w.Probe("authz.entry_websocket")
	case 2:
		scfg["quicBindPort"] = 7001
		opts.QUIC, opts.Server, opts.TLS, opts.Mux = true, "10.0.0.1:7001", false, false
		w.Probe("authz.entry_quic")
	}
	env := w.newLcEnv(scfg, token, opts)
	env.start()
	r := w.R
	viol := func(oracle, sig, f string, a ...any) { w.Violate("C04", oracle, sig, f, a...) }

	// on a fresh server, before anybody has sent a correctly signed heartbeat or work connection: a peer that logged
	// in properly and then leaves the key out altogether (no timestamp, no key) is owed the same refusals
	if (scopeHB || scopeWC) && w.KnobBool("keyless_on_fresh_server", 40) {
		w.Check("C04.keyless-on-fresh-server")
		first := env.newClient("first", 0)
		if rr, err := first.login(""); err == nil && mstr(rr, "error") == "" {
			if scopeWC {
				if conn, err := first.OfferWorkConn(first.RunID, false, ""); err == nil {
					st, err := AwaitStart(conn, 3*time.Second)
					if err == nil && mstr(st, "error") == "" {
						viol("workconn", "keyless-accepted-on-fresh-server", "NewWorkConns scope on: a work connection without timestamp and key, the first one this server ever saw, was started: %v", st)
					} else if ne, ok := err.(net.Error); ok && ne.Timeout() {
						viol("workconn", "keyless-parked-on-fresh-server", "NewWorkConns scope on: a work connection without timestamp and key, the first one this server ever saw, was neither refused nor closed")
					}
					conn.Close()
				}
			}
			if scopeHB {
				from := len(first.Inbox)
				first.Ping(false, "")
				if m, ok := first.WaitMsg(5*time.Second, func(m RecvMsg) bool { return m.Seq >= from && m.Type == tPong }); ok {
					pr := M{}
					json.Unmarshal(m.Body, &pr)
					if mstr(pr, "error") == "" {
						viol("heartbeat", "keyless-accepted-on-fresh-server", "HeartBeats scope on: a heartbeat without timestamp and key, the first one this server ever saw, got a Pong without error")
					}
				}
			}
			first.Drop()
		}
	}
	// honest client with live traffic and valid heartbeats
	honest := env.newClient("honest", 1)
	if rr, err := honest.login(""); err != nil || mstr(rr, "error") != "" {
		w.Fail("honest login: %v %v", err, rr)
	}
	if rr, got := honest.register(M{"proxy_name": "hp", "proxy_type": "tcp", "remote_port": 20000}); !got || mstr(rr, "error") != "" {
		w.Fail("honest register: %v", rr)
	}
	stopHB := make(chan struct{})
	honest.Node.Go(func() {
		for {
			select {
			case <-stopHB:
				return
			case <-time.After(time.Second):
				honest.Ping(true, token)
			}
		}
	})
	checkHonest := func(when string) {
		w.Check("C04.honest-undisturbed")
		if honest.IsClosed() {
			viol("bystander", "honest-session-closed-"+when, "%s: the honest session was closed", when)
			return
		}
		res := env.probeTCP("10.0.0.1:20000", 10*time.Second)
		if res.ServedBy != honest.Name+"/hp" {
			viol("bystander", "honest-tunnel-broken-"+when, "%s: honest tunnel no longer serves (%q %v)", when, res.ServedBy, res.Err)
		}
	}
	checkHonest("baseline")
	time.Sleep(2 * time.Second)
	baseG, baseC := frpGoroutines(), w.Net.OpenConns()

	badTokens := []string{"", "wrong-token", token + "x", "RIGHT-TOKEN-7F3A"}
	adv := 0
	var advs []*lcClient
	newAdv := func(tok string) *lcClient {
		adv++
		c := env.newClient(fmt.Sprintf("adv%d", adv), 0)
		c.Opts.Token = tok
		advs = append(advs, c)
		return c
	}
	// expectRefusedLogin: resp error or closed; never success
	refusedLogin := func(what string, fields M, c *lcClient) {
		w.Check("C04.login-refused")
		resp, err := c.LoginRaw(fields)
		if err == nil && resp != nil && mstr(resp, "error") == "" {
			viol("login", "accepted-"+what, "login with %s was accepted: %v (fields %v)", what, resp, fields)
			// does it really have a session? try to register
			if rr, got := c.register(M{"proxy_name": "evil", "proxy_type": "tcp", "remote_port": 20005}); got && mstr(rr, "error") == "" {
				viol("login", "proxy-registered-after-"+what, "and a proxy could be registered")
			}
			return
		}
		// nothing may be registrable on that connection afterwards
		if c.Ctl != nil {
			writeMsg(c.Ctl, tNewProxy, M{"proxy_name": "evil", "proxy_type": "tcp", "remote_port": 20005})
			time.Sleep(200 * time.Millisecond)
			if env.frpsTCPPorts()[20005] {
				viol("login", "proxy-registered-without-session", "a NewProxy sent after a refused login (%s) opened a port", what)
			}
			c.Ctl.Close()
		}
	}

	// sshTunnel behaves like `ssh -R :80:... v0@frps -p 2200 <cmd>`; returns the client (nil if the ssh handshake was refused).
	var sshClients []*ssh.Client
	sshTunnel := func(signer ssh.Signer, cmd string) *ssh.Client {
		conn, err := simnet.DialFrom("10.0.4.1", "10.0.0.1:2200", 5*time.Second)
		if err != nil {
			return nil
		}
		conn.SetDeadline(time.Now().Add(20 * time.Second))
		cc, chans, reqs, err := ssh.NewClientConn(conn, "10.0.0.1:2200", &ssh.ClientConfig{User: "v0",
			Auth: []ssh.AuthMethod{ssh.PublicKeys(signer)}, HostKeyCallback: ssh.InsecureIgnoreHostKey()})
		if err != nil {
			conn.Close()
			return nil
		}
		conn.SetDeadline(time.Time{})
		cl := ssh.NewClient(cc, chans, reqs)
		sshClients = append(sshClients, cl)
		if _, err := cl.Listen("tcp", "0.0.0.0:80"); err != nil {
			return cl
		}
		if sess, err := cl.NewSession(); err == nil {
			sess.Start(cmd)
		}
		return cl
	}
	sshUp := false
	sshStep := func() {
		if sshGW == 0 {
			return
		}
		switch k := r.Intn(4); {
		case sshGW == 1 && k == 0: // a key that is not in the authorized keys file
			w.Check("C04.ssh-unauthorized-key-refused")
			cl := sshTunnel(sshBad, "tcp --proxy_name sshevil --remote_port 20007")
			time.Sleep(3 * time.Second)
			if env.frpsTCPPorts()[20007] {
				viol("ssh", "unauthorized-ssh-key-got-proxy", "an ssh user whose key is not authorized got a proxy on port 20007 (handshake accepted: %v)", cl != nil)
			}
		case sshGW == 2 && k <= 1: // gateway without ssh authentication: the virtual client needs the token
			w.Check("C04.ssh-noauth-needs-token")
			cmd := "tcp --proxy_name sshevil --remote_port 20007"
			if k == 1 {
				cmd += " --token " + badTokens[1+r.Intn(len(badTokens)-1)]
			}
			sshTunnel(sshBad, cmd)
			time.Sleep(3 * time.Second)
			if env.frpsTCPPorts()[20007] {
				viol("ssh", "ssh-without-token-got-proxy", "gateway without ssh authentication: %q got a proxy on port 20007", cmd)
			}
		default: // a legitimate ssh user
			if sshUp {
				// further legitimate users come and go at arbitrary moments (their virtual clients are torn down inside frps)
				cmd := "tcp --proxy_name sshchurn --remote_port 20009"
				if sshGW == 2 {
					cmd += " --token " + token
				}
				if cl := sshTunnel(sshGood, cmd); cl != nil {
					time.Sleep(time.Duration(r.Intn(1500)) * time.Millisecond)
					cl.Close()
					w.Probe("authz.ssh_churn")
				}
				return
			}
			cmd := "tcp --proxy_name sshgood --remote_port 20008"
			if sshGW == 2 {
				cmd += " --token " + token
			}
			sshTunnel(sshGood, cmd)
			if w.WaitUntil(10*time.Second, 200*time.Millisecond, func() bool { return env.frpsTCPPorts()[20008] }) {
				sshUp = true
				w.Probe("authz.ssh_tunnel_up")
			}
		}
	}

	nattacks := w.KnobPick("nattacks", 5, 12, 30)
	for i := 0; i < nattacks; i++ {
		ts := time.Now().Unix() + int64(r.Range(-100000, 100000))
		if sshGW != 0 && (r.Intn(3) == 0 || sshChurn) {
			sshStep()
		}
		switch k := r.Intn(12); k {
		case 0: // wrong / missing key
			tok := badTokens[r.Intn(len(badTokens))]
			f := M{"version": "0.62.0", "user": "adv", "timestamp": ts, "privilege_key": authKey(tok, ts), "pool_count": r.Range(0, 3)}
			if r.Intn(3) == 0 {
				delete(f, "privilege_key")
			}
			if r.Intn(4) == 0 {
				f["privilege_key"] = authKey(token, ts+1) // right token, digest of another timestamp
			}
			if r.Intn(3) == 0 {
				// a refused login that names the honest session's run id must not disturb that session
				f["run_id"] = honest.RunID
				refusedLogin("bad-key-with-live-run-id", f, newAdv(tok))
				checkHonest("after-refused-login-with-its-run-id")
				continue
			}
			refusedLogin("bad-key", f, newAdv(tok))
		case 1: // the peer tries to exempt itself
			f := M{"version": "0.62.0", "user": "adv", "timestamp": ts, "privilege_key": authKey("wrong", ts),
				"client_spec": M{"always_auth_pass": true, "type": r.PickStr("", "ssh-tunnel")}}
			refusedLogin("always-auth-pass", f, newAdv("wrong"))
		case 2: // work connection for an unknown run id
			w.Check("C04.workconn-refused")
			c := newAdv(token)
			conn, err := c.OfferWorkConn(fmt.Sprintf("%016x", r.U64()), true, token)
			if err == nil {
				st, err := AwaitStart(conn, 5*time.Second)
				if err == nil && mstr(st, "error") == "" {
					viol("workconn", "unknown-runid-accepted", "work connection naming an unknown run id got StartWorkConn %v", st)
				}
				if err != nil {
					if ne, ok := err.(net.Error); ok && ne.Timeout() {
						viol("workconn", "unknown-runid-parked", "work connection naming an unknown run id was neither refused nor closed within 5 s")
					}
				}
				conn.Close()
			}
		case 3: // work connection for the honest session with a bad key
			if !scopeWC {
				// without the NewWorkConns scope the run id is the only credential of a work connection by design
				continue
			}
			c := newAdv("wrong")
			conn, err := c.OfferWorkConn(honest.RunID, r.Intn(2) == 0, "wrong")
			if err != nil {
				continue
			}
			if scopeWC {
				w.Check("C04.workconn-refused")
				st, err := AwaitStart(conn, 3*time.Second)
				if err == nil && mstr(st, "error") == "" {
					viol("workconn", "bad-key-accepted", "work connection with an invalid key was started: %v", st)
				} else if err != nil {
					if ne, ok := err.(net.Error); ok && ne.Timeout() {
						viol("workconn", "bad-key-parked", "NewWorkConns scope on: work connection with an invalid key was neither refused nor closed (pooled?)")
					}
				}
			}
			conn.Close()
		case 4: // unexpected first message types on a fresh connection
			w.Check("C04.first-message-refused")
			c := newAdv(token)
			conn, err := c.Connect()
			if err != nil {
				continue
			}
			typ := []byte{tNewProxy, tPing, tCloseProxy, tNatHoleVisitor, tNatHoleClient, tLoginResp, tReqWorkConn, tStartWorkConn, tPong, tUDPPacket}[r.Intn(10)]
			writeMsg(conn, typ, M{"proxy_name": "evil", "proxy_type": "tcp", "remote_port": 20006, "run_id": honest.RunID})
			conn.SetReadDeadline(time.Now().Add(15 * time.Second))
			t, body, err := readFrame(conn)
			if err == nil {
				viol("first-message", "reply-to-unauthenticated", "unauthenticated first message of type %q was answered with %q %s", typ, t, body)
			} else if ne, ok := err.(net.Error); ok && ne.Timeout() {
				viol("first-message", "connection-kept-open", "connection with unauthenticated first message of type %q still open after 15 s", typ)
			}
			conn.Close()
			if env.frpsTCPPorts()[20006] {
				viol("first-message", "proxy-registered-without-session", "NewProxy as first message opened a port")
			}
		case 5: // session fed only invalid heartbeats
			if !scopeHB {
				continue
			}
			w.Check("C04.invalid-heartbeats-do-not-keep-alive")
			w.Probe("authz.invalid_heartbeats")
			c := newAdv(token) // knows the token for login (e.g. an old digest), then sends bad keys
			if r.Intn(2) == 0 {
				// ... and declares itself exempt in its (valid) login: nothing a remote peer says exempts it
				c.LoginExtra = M{"client_spec": M{"always_auth_pass": true, "type": r.PickStr("", "ssh-tunnel")}}
				w.Probe("authz.valid_login_claims_exemption")
			}
			if rr, err := c.login(""); err != nil || mstr(rr, "error") != "" {
				continue
			}
			c.register(M{"proxy_name": fmt.Sprintf("hb%d", i), "proxy_type": "tcp", "remote_port": 20003})
			t0 := w.Net.Now()
			stop := make(chan struct{})
			offerToo := r.Intn(2) == 0
			var held []net.Conn
			defer func() {
				for _, h := range held {
					h.Close()
				}
			}()
			c.Node.Go(func() {
				for {
					select {
					case <-stop:
						return
					case <-time.After(500 * time.Millisecond):
						if c.IsClosed() {
							return
						}
						c.Ping(true, "wrong")
						// ... while work connections keep coming in for the session (they need no key unless that scope
						// is on too): delivering connections is no heartbeat
						if offerToo {
							if wc, err := c.OfferWorkConn(c.RunID, scopeWC, token); err == nil {
								held = append(held, wc)
							}
						}
					}
				}
			})
			closed := c.WaitClosed(time.Duration(hbTimeout)*time.Second + 45*time.Second)
			close(stop)
			el := w.Net.Now() - t0
			if !closed {
				viol("heartbeat", "kept-alive-by-invalid-heartbeats", "a session sending only invalid heartbeats is still alive %v after login (timeout %ds)", el, hbTimeout)
				c.Drop()
			} else if !tcpMux && el > time.Duration(hbTimeout)*time.Second+3*time.Second {
				viol("heartbeat", "torn-down-late", "session with invalid heartbeats torn down after %v (timeout %ds)", el, hbTimeout)
			}
			time.Sleep(time.Second)
			if env.frpsTCPPorts()[20003] {
				viol("heartbeat", "port-not-released", "port of the timed-out session is still bound")
			}
		case 7: // a session of its own, logged in with a valid key and a claim of exemption, then key-less work connections
			if !scopeWC {
				continue
			}
			w.Check("C04.workconn-refused")
			w.Probe("authz.valid_login_claims_exemption")
			c := newAdv(token)
			c.WorkMode = wmNever
			if r.Intn(4) > 0 {
				c.LoginExtra = M{"client_spec": M{"always_auth_pass": true, "type": r.PickStr("", "ssh-tunnel")}}
			}
			if rr, err := c.login(""); err != nil || mstr(rr, "error") != "" {
				continue
			}
			conn, err := c.OfferWorkConn(c.RunID, r.Intn(2) == 0, "wrong")
			if err == nil {
				st, err := AwaitStart(conn, 3*time.Second)
				if err == nil && mstr(st, "error") == "" {
					viol("workconn", "bad-key-accepted", "work connection with an invalid key for the peer's own session was started: %v", st)
				} else if err != nil {
					if ne, ok := err.(net.Error); ok && ne.Timeout() {
						viol("workconn", "bad-key-parked", "NewWorkConns scope on: a work connection with an invalid key, naming the session of the peer that sent it (login fields %v), was neither refused nor closed (pooled?)", c.LoginExtra)
					}
				}
				conn.Close()
			}
			c.Drop()
		case 6: // flood of refused attempts
			w.Probe("authz.flood")
			n := r.Range(20, 120)
			for j := 0; j < n; j++ {
				c := newAdv("wrong")
				switch r.Intn(3) {
				case 0:
					c.LoginRaw(M{"timestamp": ts, "privilege_key": "00", "user": "x"})
					if c.Ctl != nil {
						c.Ctl.Close()
					}
				case 1:
					if cn, err := c.OfferWorkConn("nope", false, ""); err == nil {
						cn.Close()
					}
				default:
					if cn, err := c.Connect(); err == nil {
						cn.Write([]byte{0x6f, 0xff, 0xff, 0xff, 0xff, 0xff, 0xff, 0xff, 0xff})
						cn.Close()
					}
				}
				c.Drop()
			}
		default:
			checkHonest("mid-attack")
		}
	}
	checkHonest("after-attacks")
	// no server state left behind once the attackers have gone (a transport connection an attacker
	// keeps open is the attacker's own footprint, not state left behind by a refused attempt)
	for _, c := range advs {
		c.Drop()
	}
	for _, cl := range sshClients {
		cl.Close()
	}
	time.Sleep(90 * time.Second)
	w.Check("C04.footprint")
	if g := frpGoroutines(); g > baseG+6 {
		viol("footprint", "goroutines-left-behind", "server goroutines %d before the attacks, %d after settling:\n%s", baseG, g, frpGoroutineSummary())
	}
	close(stopHB)
	w.SetSample(map[string]any{"scopes": scopes, "attacks": nattacks, "ssh_gateway": sshGW, "ssh_up": sshUp, "tls": useTLS, "mux": tcpMux, "base_conns": baseC})
	w.Nontrivial()
	_ = json.Marshal
}
