package verifharness

import (
	"bufio"
	"bytes"
	"encoding/base64"
	"fmt"
	"io"
	"net"
	"os"
	"strings"
	"sync"
	"time"

	"verif/sim/simnet"
)

// World "services" (C07, second half): password-protected built-in services - the http_proxy, socks5 and
// static_file client plugins (reached through real tcp proxies), the frps dashboard API and the frpc admin API.
// Every service gets its own user name and password. Requests with every credential variant are sent; whatever
// is served (a protected body, a tunnel to the target, a socks5 "authenticated" status) must have carried exactly
// that service's credentials, and refusals must be challenges / closes that reach no backend.

func init() { RegisterWorld("services", worldServices) }

type svcCred struct{ user, pass string }

func (c svcCred) basic() string {
	return "Basic " + base64.StdEncoding.EncodeToString([]byte(c.user+":"+c.pass))
}

type authVariant struct {
	name  string
	value string // header value ("" = header absent)
	exact bool
}

func authVariants(r *simnet.Rand, own svcCred, others []svcCred) []authVariant {
	b64 := func(s string) string { return "Basic " + base64.StdEncoding.EncodeToString([]byte(s)) }
	vs := []authVariant{
		{"none", "", false},
		{"exact", own.basic(), true},
		{"password-extended", b64(own.user + ":" + own.pass + "x"), false},
		{"password-prefix", b64(own.user + ":" + own.pass[:len(own.pass)-1]), false},
		{"password-empty", b64(own.user + ":"), false},
		{"user-empty", b64(":" + own.pass), false},
		{"user-extended", b64(own.user + "x:" + own.pass), false},
		{"user-prefix", b64(own.user[:len(own.user)-1] + ":" + own.pass), false},
		{"no-colon", b64(own.user + own.pass), false},
		{"swapped", b64(own.pass + ":" + own.user), false},
		{"trailing-colon-part", b64(own.user + ":" + own.pass + ":" + own.pass), false},
		{"malformed-base64", "Basic %%%not-base64%%%", false},
		{"scheme-only", "Basic", false},
		{"empty-value", "Basic ", false},
		{"case-changed-password", b64(own.user + ":" + swapCase(own.pass)), swapCase(own.pass) == own.pass},
		{"case-changed-user", b64(swapCase(own.user) + ":" + own.pass), swapCase(own.user) == own.user},
	}
	for i, o := range others {
		vs = append(vs, authVariant{fmt.Sprintf("other-service-%d", i), o.basic(), o == own})
	}
	// a random subset in random order, always with "exact" somewhere
	r.Shuffle(len(vs), func(i, j int) { vs[i], vs[j] = vs[j], vs[i] })
	n := r.Range(4, len(vs))
	out := vs[:n]
	has := false
	for _, v := range out {
		if v.name == "exact" {
			has = true
		}
	}
	if !has {
		out = append(out, authVariant{"exact", own.basic(), true})
	}
	return out
}

func swapCase(s string) string {
	b := []byte(s)
	for i, c := range b {
		switch {
		case c >= 'a' && c <= 'z':
			b[i] = c - 32
		case c >= 'A' && c <= 'Z':
			b[i] = c + 32
		}
	}
	return string(b)
}

func worldServices(w *World) {
	viol := func(oracle, sig, f string, a ...any) { w.Violate("C07", oracle, sig, f, a...) }
	r := w.R
	token := "svc-token"
	mkCred := func(i int) svcCred {
		cr := simnet.NewRand(w.In.Seed, fmt.Sprintf("cred%d", i))
		u := randToken(cr, cr.Range(2, 8))
		p := randToken(cr, cr.Range(2, 12))
		switch cr.Intn(4) {
		case 0:
			p += ":" + randToken(cr, 3) // a colon inside the password is legal
		case 1:
			p += " " + randToken(cr, 2)
		}
		return svcCred{strings.Trim(u, ".-_~") + "u", p}
	}
	const (
		sDash = iota
		sAdmin
		sStatic
		sHTTPProxy
		sSocks
		nSvc
	)
	names := []string{"frps dashboard", "frpc admin API", "static_file plugin", "http_proxy plugin", "socks5 plugin"}
	creds := make([]svcCred, nSvc)
	for i := range creds {
		creds[i] = mkCred(i)
	}
	others := func(i int) []svcCred {
		var o []svcCred
		for j, c := range creds {
			if j != i {
				o = append(o, c)
			}
		}
		return o
	}
	dir := w.ScratchDir("static")
	defer os.RemoveAll(dir)
	fileMarker := marker(w, "file")
	os.WriteFile(dir+"/secret.txt", []byte("content "+fileMarker+"\n"), 0o644)
	os.Mkdir(dir+"/sub", 0o755)
	os.WriteFile(dir+"/sub/inner.txt", []byte("inner "+fileMarker+"\n"), 0o644)

	tcpMux := w.KnobBool("tcp_mux", 50)
	scfg := map[string]any{"bindAddr": "10.0.0.1", "bindPort": 7000, "auth": map[string]any{"token": token},
		"transport":  map[string]any{"tcpMux": tcpMux},
		"webServer":  map[string]any{"addr": "10.0.0.1", "port": 7500, "user": creds[sDash].user, "password": creds[sDash].pass},
		"allowPorts": []map[string]any{{"start": 20000, "end": 20009}}}
	if _, err := w.StartFrps(w.Frps, scfg); err != nil {
		w.Fail("frps: %v", err)
	}
	ptr := map[string]any{"useEncryption": w.KnobBool("enc", 30), "useCompression": w.KnobBool("comp", 30)}
	c1 := w.Net.NewNode("frpc1", "10.0.1.1")
	fc, err := w.StartFrpc(c1, map[string]any{"serverAddr": "10.0.0.1", "serverPort": 7000, "loginFailExit": false,
		"auth":      map[string]any{"token": token},
		"transport": map[string]any{"tcpMux": tcpMux, "connectServerLocalIP": "10.0.1.1", "tls": map[string]any{"enable": w.KnobBool("tls", 40)}},
		"webServer": map[string]any{"addr": "10.0.1.1", "port": 7400, "user": creds[sAdmin].user, "password": creds[sAdmin].pass},
		"proxies": []map[string]any{
			{"name": "sf", "type": "tcp", "remotePort": 20003, "transport": ptr,
				"plugin": map[string]any{"type": "static_file", "localPath": dir, "stripPrefix": "files", "httpUser": creds[sStatic].user, "httpPassword": creds[sStatic].pass}},
			{"name": "hp", "type": "tcp", "remotePort": 20001, "transport": ptr,
				"plugin": map[string]any{"type": "http_proxy", "httpUser": creds[sHTTPProxy].user, "httpPassword": creds[sHTTPProxy].pass}},
			{"name": "s5", "type": "tcp", "remotePort": 20002, "transport": ptr,
				"plugin": map[string]any{"type": "socks5", "username": creds[sSocks].user, "password": creds[sSocks].pass}},
		}})
	if err != nil {
		w.Fail("frpc: %v", err)
	}
	_ = fc
	// the target the proxies may be asked to reach
	targetMarker := marker(w, "target")
	var tmu sync.Mutex
	targetConns := 0
	tln, _ := w.Net.Listen("tcp", "10.0.2.1:9500")
	w.Backend.Go(func() {
		for {
			c, err := tln.Accept()
			if err != nil {
				return
			}
			tmu.Lock()
			targetConns++
			tmu.Unlock()
			go func() {
				defer c.Close()
				c.SetDeadline(time.Now().Add(30 * time.Second))
				buf := make([]byte, 4096)
				n, _ := c.Read(buf)
				if bytes.HasPrefix(buf[:n], []byte("GET ")) {
					body := "target " + targetMarker
					fmt.Fprintf(c, "HTTP/1.1 200 OK\r\nContent-Length: %d\r\nConnection: close\r\n\r\n%s", len(body), body)
					return
				}
				fmt.Fprintf(c, "hello %s %s", targetMarker, buf[:n])
			}()
		}
	})
	tconns := func() int { tmu.Lock(); defer tmu.Unlock(); return targetConns }
	if !w.WaitUntil(60*time.Second, 100*time.Millisecond, func() bool {
		return w.FrpLogContains("[sf] start proxy success") && w.FrpLogContains("[hp] start proxy success") && w.FrpLogContains("[s5] start proxy success")
	}) {
		viol("startup", "proxy-not-up", "plugin proxies not up in 60 s")
		return
	}
	time.Sleep(500 * time.Millisecond)
	uip := 0
	dial := func(addr string) (net.Conn, error) {
		uip++
		return simnet.DialFrom(fmt.Sprintf("10.0.3.%d", 1+uip%200), addr, 10*time.Second)
	}
	// one http exchange: returns status, header block and body ("" status 0 on connection close without an answer)
	httpDo := func(addr, req string) (int, string, string) {
		conn, err := dial(addr)
		if err != nil {
			return -1, "", err.Error()
		}
		defer conn.Close()
		io.WriteString(conn, req)
		conn.SetReadDeadline(time.Now().Add(40 * time.Second))
		br := bufio.NewReader(conn)
		line, err := br.ReadString('\n')
		if err != nil {
			return 0, "", ""
		}
		st := 0
		fmt.Sscanf(line, "HTTP/1.1 %d", &st)
		if st == 0 {
			fmt.Sscanf(line, "HTTP/1.0 %d", &st)
		}
		var hdr strings.Builder
		for {
			l, err := br.ReadString('\n')
			if err != nil || l == "\r\n" {
				break
			}
			hdr.WriteString(l)
		}
		body, _ := io.ReadAll(br)
		return st, hdr.String(), string(body)
	}
	hdrCase := func() string { return []string{"Authorization", "authorization", "AUTHORIZATION"}[r.Intn(3)] }

	// ---- origin-style services: dashboard, admin API, static_file
	type origin struct {
		svc    int
		addr   string
		paths  []string // "METHOD path"
		secret []string // strings that only the protected handler produces
	}
	origins := []origin{
		{sDash, "10.0.0.1:7500", []string{"GET /api/serverinfo", "GET /api/proxy/tcp", "GET /api/proxy/tcp/hp", "GET /api/traffic/hp", "GET /", "DELETE /api/proxies?status=offline"}, []string{"bindPort", "proxies", `"name"`, "clientCounts"}},
		{sAdmin, "10.0.1.1:7400", []string{"GET /api/status", "GET /api/config", "GET /", "POST /api/stop", "PUT /api/config"}, []string{`"tcp"`, "remote_addr", "serverAddr"}},
		{sStatic, "10.0.0.1:20003", []string{"GET /files/secret.txt", "GET /files/sub/inner.txt", "GET /files/", "GET /files/sub/"}, []string{fileMarker, "secret.txt", "inner.txt"}},
	}
	for _, o := range origins {
		for _, v := range authVariants(r, creds[o.svc], others(o.svc)) {
			mp := strings.SplitN(o.paths[r.Intn(len(o.paths))], " ", 2)
			if v.exact && (mp[0] == "POST" || mp[0] == "PUT" || mp[0] == "DELETE") {
				mp = strings.SplitN(o.paths[0], " ", 2) // authorised requests only read
			}
			req := fmt.Sprintf("%s %s HTTP/1.1\r\nHost: x\r\nConnection: close\r\n", mp[0], mp[1])
			if v.value != "" || v.name != "none" {
				req += hdrCase() + ": " + v.value + "\r\n"
			}
			if mp[0] == "PUT" {
				req += "Content-Length: 2\r\n\r\n{}"
			} else {
				req += "\r\n"
			}
			w.Check("C07.service-credentials")
			st, hdr, body := httpDo(o.addr, req)
			desc := fmt.Sprintf("%s: %s %s with credentials variant %q", names[o.svc], mp[0], mp[1], v.name)
			if v.exact {
				// (the statement is one-directional: being served with the right credentials is reach, not an oracle)
				if st == 401 || st <= 0 {
					w.Probe("services.exact_not_served." + strings.Fields(names[o.svc])[0])
				} else {
					w.Probe("services.exact_served." + strings.Fields(names[o.svc])[0])
				}
				continue
			}
			leaked := ""
			for _, s := range o.secret {
				if strings.Contains(body, s) {
					leaked = s
				}
			}
			if leaked != "" || (st >= 200 && st < 400) {
				viol("service", "served-without-exact-credentials-"+strings.Fields(names[o.svc])[0], "%s was served: status %d, protected content %q in the answer", desc, st, leaked)
			} else if st != 401 {
				viol("service", "no-challenge-"+strings.Fields(names[o.svc])[0], "%s: answered with status %d instead of an authentication challenge", desc, st)
			} else if !strings.Contains(strings.ToLower(hdr), "www-authenticate:") {
				viol("service", "challenge-header-missing-"+strings.Fields(names[o.svc])[0], "%s: 401 without WWW-Authenticate", desc)
			}
		}
	}
	// the admin API must have survived the unauthorised stop/put requests
	if st, _, _ := httpDo("10.0.1.1:7400", "GET /api/status HTTP/1.1\r\nHost: x\r\nConnection: close\r\nAuthorization: "+creds[sAdmin].basic()+"\r\n\r\n"); st != 200 {
		viol("service", "admin-api-gone", "frpc admin API no longer answers an authorised status request (status %d) after unauthorised requests", st)
	}

	// ---- http_proxy plugin: CONNECT and absolute-form requests, credentials in Proxy-Authorization
	for _, v := range authVariants(r, creds[sHTTPProxy], others(sHTTPProxy)) {
		connect := r.Intn(2) == 0 || v.exact // authorised requests use CONNECT (its dial goes through the simulated network)
		before := tconns()
		ph := []string{"Proxy-Authorization", "proxy-authorization"}[r.Intn(2)]
		var req string
		if connect {
			req = "CONNECT 10.0.2.1:9500 HTTP/1.1\r\nHost: 10.0.2.1:9500\r\n"
		} else {
			req = "GET http://10.0.2.1:9500/secret HTTP/1.1\r\nHost: 10.0.2.1:9500\r\nConnection: close\r\n"
		}
		if v.name != "none" {
			req += ph + ": " + v.value + "\r\n"
		}
		req += "\r\n"
		w.Check("C07.http-proxy-credentials")
		desc := fmt.Sprintf("http_proxy plugin: %s with credentials variant %q", strings.Fields(req)[0], v.name)
		conn, err := dial("10.0.0.1:20001")
		if err != nil {
			viol("service", "plugin-port-refused", "%s: %v", desc, err)
			continue
		}
		io.WriteString(conn, req)
		conn.SetReadDeadline(time.Now().Add(40 * time.Second))
		br := bufio.NewReader(conn)
		hdr, _ := readUntil(br, "\r\n\r\n", 8192)
		st := 0
		fmt.Sscanf(string(hdr), "HTTP/1.1 %d", &st)
		if v.exact {
			if st != 200 {
				w.Probe("services.exact_not_served.http_proxy")
			} else {
				io.WriteString(conn, "ping")
				got, _ := io.ReadAll(br) // the target answers and closes
				if !strings.Contains(string(got), targetMarker) {
					// seen on the unchanged tree: when the first read of the plugin returns fewer than the 7 bytes of
					// "CONNECT" (segment boundary), the request takes the deprecated hijack path and the tunnel is
					// dropped right after the 200. Not a statement of C07 (nothing is served without credentials).
					w.Probe("services.exact_tunnel_dropped.http_proxy")
				} else {
					w.Probe("services.exact_served.http_proxy")
				}
			}
			conn.Close()
			continue
		}
		rest, _ := io.ReadAll(br)
		conn.Close()
		time.Sleep(300 * time.Millisecond)
		if tconns() != before || strings.Contains(string(rest), targetMarker) || st == 200 {
			viol("service", "served-without-exact-credentials-http_proxy", "%s reached the target (status %d, target connections %d -> %d)", desc, st, before, tconns())
		} else if st != 407 {
			viol("service", "no-challenge-http_proxy", "%s: answered %q instead of a proxy authentication challenge", desc, hdr)
		}
	}

	// ---- socks5 plugin: user/password sub-negotiation
	type sv struct {
		name       string
		user, pass string
		exact      bool
		noAuth     bool
	}
	own := creds[sSocks]
	svs := []sv{
		{"exact", own.user, own.pass, true, false},
		{"no-auth-method-only", "", "", false, true},
		{"password-extended", own.user, own.pass + "x", false, false},
		{"password-prefix", own.user, own.pass[:len(own.pass)-1], false, false},
		{"password-empty", own.user, "", false, false},
		{"user-empty", "", own.pass, false, false},
		{"user-extended", own.user + "x", own.pass, false, false},
		{"swapped", own.pass, own.user, false, false},
		{"other-service", creds[sHTTPProxy].user, creds[sHTTPProxy].pass, false, false},
	}
	r.Shuffle(len(svs), func(i, j int) { svs[i], svs[j] = svs[j], svs[i] })
	for _, v := range svs[:r.Range(3, len(svs))] {
		w.Check("C07.socks5-credentials")
		desc := fmt.Sprintf("socks5 plugin: credentials variant %q", v.name)
		conn, err := dial("10.0.0.1:20002")
		if err != nil {
			viol("service", "plugin-port-refused", "%s: %v", desc, err)
			continue
		}
		conn.SetDeadline(time.Now().Add(30 * time.Second))
		before := tconns()
		authed := false
		func() {
			defer conn.Close()
			if v.noAuth {
				conn.Write([]byte{5, 1, 0})
			} else {
				conn.Write([]byte{5, 2, 0, 2})
			}
			var rep [2]byte
			if _, err := io.ReadFull(conn, rep[:]); err != nil {
				return
			}
			if rep[1] == 0 {
				// "no authentication required" selected by a server that has credentials configured
				authed = true
			} else if rep[1] == 2 && !v.noAuth {
				msg := []byte{1, byte(len(v.user))}
				msg = append(msg, v.user...)
				msg = append(msg, byte(len(v.pass)))
				msg = append(msg, v.pass...)
				conn.Write(msg)
				var ar [2]byte
				if _, err := io.ReadFull(conn, ar[:]); err != nil {
					return
				}
				authed = ar[1] == 0
			}
			if !v.exact {
				// try to get through anyway: CONNECT 10.0.2.1:9500
				conn.Write([]byte{5, 1, 0, 1, 10, 0, 2, 1, 0x25, 0x1c})
				buf := make([]byte, 64)
				n, _ := conn.Read(buf)
				if n >= 2 && buf[0] == 5 && buf[1] == 0 {
					authed = true
				}
			}
		}()
		time.Sleep(200 * time.Millisecond)
		if v.exact {
			if authed {
				w.Probe("services.exact_served.socks5")
			} else {
				w.Probe("services.exact_not_served.socks5")
			}
		}
		if !v.exact && (authed || tconns() != before) {
			viol("service", "served-without-exact-credentials-socks5", "%s was accepted (target connections %d -> %d)", desc, before, tconns())
		}
	}
	w.SetSample(map[string]any{"mux": tcpMux})
	w.Nontrivial()
}
