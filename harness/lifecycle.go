package verifharness

import (
	"bufio"
	"encoding/base64"
	"encoding/json"
	"fmt"
	"io"
	"net"
	"reflect"
	"strings"
	"sync"
	"time"

	"verif/sim/simnet"
)

// Shared infrastructure of the scripted-client worlds (C04, C08..C13, C15..C17).

// lcEnv is one real frps plus a set of scripted clients.
type lcEnv struct {
	w         *World
	token     string
	scfg      map[string]any
	frps      *Frps
	opts      PeerOpts
	clients   []*lcClient
	nextIP    int
	userIP    int
	allow     map[int]bool
	httpPort  int
	muxPort   int
	httpsPort int
	uct       time.Duration // userConnTimeout
}

type httpSeen struct {
	Proxy string
	Head  string
}

type startRec struct {
	Proxy   string
	Src     string
	At      time.Duration
	Conn    net.Conn
	Session *lcClient
}

// lcClient is a scripted client that can service work-connection requests.
type lcClient struct {
	*Peer
	env           *lcEnv
	user          string
	pool          int
	WorkMode      int // 0 answer ReqWorkConn with a good conn; 1 never; 2 late; 3 offer then close (dead)
	LateBy        time.Duration
	ptypes        map[string]string // proxy name -> type
	smu           sync.Mutex
	Starts        []startRec
	Offered       []net.Conn // every work conn this client opened
	offClosed     map[net.Conn]bool
	syncSeq       int
	UDPEcho       bool     // answer datagram frames on udp work connections
	UDPBad        []string // datagram frames a released peer could not decode
	UDPGot        []string
	ReqSeen       []time.Duration
	natSids       int
	NatSidList    []string   // session ids handed to this client's xtcp proxies
	HTTPSeen      []httpSeen // requests the http responder of this client saw
	WorkKey       string     // if set: the token work connections are signed with (may be wrong on purpose)
	SilentUnknown bool       // work connections for proxies this client did not record are drained silently
	WorkFrames    []RecvMsg  // first frame received on each work connection
}

const (
	wmGood = iota
	wmNever
	wmLate
	wmDead
)

func (w *World) newLcEnv(scfg map[string]any, token string, opts PeerOpts) *lcEnv {
	e := &lcEnv{w: w, token: token, scfg: scfg, opts: opts, nextIP: 1, userIP: 1, allow: map[int]bool{}}
	return e
}

func (e *lcEnv) start() {
	f, err := e.w.StartFrps(e.w.Frps, e.scfg)
	if err != nil {
		e.w.Fail("start frps: %v", err)
	}
	e.frps = f
	e.uct = time.Duration(f.Cfg.UserConnTimeout) * time.Second
}

func (e *lcEnv) newClient(user string, pool int) *lcClient {
	ip := fmt.Sprintf("10.0.1.%d", e.nextIP)
	name := fmt.Sprintf("sc%d", e.nextIP)
	e.nextIP++
	p := e.w.NewPeer(name, ip, e.opts)
	c := &lcClient{Peer: p, env: e, user: user, pool: pool, ptypes: map[string]string{}, offClosed: map[net.Conn]bool{}}
	p.OnMsg = c.onMsg
	e.clients = append(e.clients, c)
	return c
}

// reconnect creates a fresh transport identity for the same logical client (same user), e.g. after a drop.
func (c *lcClient) fresh() *lcClient {
	n := c.env.newClient(c.user, c.pool)
	n.WorkMode, n.LateBy = c.WorkMode, c.LateBy
	for k, v := range c.ptypes {
		n.ptypes[k] = v
	}
	return n
}

func (c *lcClient) login(runID string) (M, error) {
	return c.Login(c.user, runID, c.pool)
}

func (c *lcClient) onMsg(m RecvMsg) {
	if m.Type != tReqWorkConn {
		return
	}
	c.smu.Lock()
	c.ReqSeen = append(c.ReqSeen, m.At)
	mode, late := c.WorkMode, c.LateBy
	c.smu.Unlock()
	switch mode {
	case wmNever:
		return
	case wmLate:
		c.Node.Go(func() {
			time.Sleep(late)
			c.serveWork(true)
		})
	case wmDead:
		c.Node.Go(func() { c.serveWork(false) })
	default:
		c.Node.Go(func() { c.serveWork(true) })
	}
}

// serveWork offers one work connection and services it when started.
func (c *lcClient) serveWork(alive bool) {
	key := c.Opts.Token
	if c.Opts.RawKeys {
		key = c.Opts.LoginKey
	}
	if c.WorkKey != "" {
		key = c.WorkKey
	}
	conn, err := c.OfferWorkConn(c.RunID, true, key)
	if err != nil {
		return
	}
	c.smu.Lock()
	c.Offered = append(c.Offered, conn)
	c.smu.Unlock()
	if !alive {
		c.smu.Lock()
		c.offClosed[conn] = true
		c.smu.Unlock()
		conn.Close()
		return
	}
	c.runWork(conn)
}

func (c *lcClient) runWork(conn net.Conn) {
	typ0, body0, err := readFrame(conn)
	if err == nil {
		c.smu.Lock()
		c.WorkFrames = append(c.WorkFrames, RecvMsg{Type: typ0, Body: body0, At: c.w.Net.Now()})
		c.smu.Unlock()
	}
	if err == nil && typ0 == tNatHoleSid {
		// an xtcp proxy's owner is handed a session id over a work connection
		sm := M{}
		json.Unmarshal(body0, &sm)
		c.smu.Lock()
		c.natSids++
		c.NatSidList = append(c.NatSidList, mstr(sm, "sid"))
		c.smu.Unlock()
		conn.Close()
		return
	}
	st := M{}
	if err == nil && typ0 != tStartWorkConn {
		err = fmt.Errorf("unexpected first frame %q on work connection", typ0)
	}
	if err == nil {
		err = json.Unmarshal(body0, &st)
	}
	if err != nil {
		c.smu.Lock()
		c.offClosed[conn] = true
		c.smu.Unlock()
		conn.Close()
		return
	}
	name := mstr(st, "proxy_name")
	rec := startRec{Proxy: name, At: c.w.Net.Now(), Conn: conn, Session: c}
	if sp, ok := st["src_port"].(float64); ok {
		rec.Src = net.JoinHostPort(mstr(st, "src_addr"), fmt.Sprint(int(sp)))
	}
	c.smu.Lock()
	c.Starts = append(c.Starts, rec)
	typ, known := c.ptypes[name]
	c.smu.Unlock()
	if !known && c.SilentUnknown {
		typ = "udp" // a proxy this client never recorded (raw barrage traffic): stay silent and drain
	}
	if e := mstr(st, "error"); e != "" {
		conn.Close()
		return
	}
	defer conn.Close()
	id := fmt.Sprintf("%s/%s", c.Name, name)
	switch typ {
	case "http":
		br := bufio.NewReader(conn)
		for {
			// minimal HTTP/1.1 responder: read headers, answer with identity
			var reqLine string
			var head strings.Builder
			for {
				line, err := br.ReadString('\n')
				if err != nil {
					return
				}
				head.WriteString(line)
				if reqLine == "" {
					reqLine = strings.TrimSpace(line)
				}
				if line == "\r\n" || line == "\n" {
					break
				}
			}
			c.smu.Lock()
			c.HTTPSeen = append(c.HTTPSeen, httpSeen{name, head.String()})
			c.smu.Unlock()
			body := "served-by " + id + " " + reqLine + "\n"
			fmt.Fprintf(conn, "HTTP/1.1 200 OK\r\nContent-Type: text/plain\r\nX-Served-By: %s\r\nContent-Length: %d\r\n\r\n%s", id, len(body), body)
		}
	case "xtcp":
		// the owner of an xtcp proxy is handed the session id right after the start message
		typ1, body1, err := readFrame(conn)
		if err == nil && typ1 == tNatHoleSid {
			sm := M{}
			json.Unmarshal(body1, &sm)
			c.smu.Lock()
			c.natSids++
			c.NatSidList = append(c.NatSidList, mstr(sm, "sid"))
			c.WorkFrames = append(c.WorkFrames, RecvMsg{Type: typ1, Body: body1, At: c.w.Net.Now()})
			c.smu.Unlock()
		}
		return
	case "udp", "sudp":
		// datagram work connection: frames only. By default stay silent and drain; with UDPEcho every datagram
		// frame is decoded the way a released peer does (padded standard base64) and answered with 'R'+payload.
		for {
			t, b, err := readFrame(conn)
			if err != nil {
				return
			}
			c.smu.Lock()
			echo := c.UDPEcho
			if len(c.WorkFrames) < 400 {
				c.WorkFrames = append(c.WorkFrames, RecvMsg{Type: t, Body: b, At: c.w.Net.Now()})
			}
			c.smu.Unlock()
			if !echo || t != tUDPPacket {
				continue
			}
			um := M{}
			if json.Unmarshal(b, &um) != nil {
				continue
			}
			payload, derr := base64.StdEncoding.DecodeString(mstr(um, "c"))
			c.smu.Lock()
			if derr != nil {
				c.UDPBad = append(c.UDPBad, fmt.Sprintf("content %q: %v", mstr(um, "c"), derr))
			} else {
				c.UDPGot = append(c.UDPGot, string(payload))
			}
			c.smu.Unlock()
			if derr == nil {
				writeMsg(conn, tUDPPacket, M{"c": base64.StdEncoding.EncodeToString(append([]byte{'R'}, payload...)), "r": um["r"]})
			}
		}
	default:
		// identity line, then echo
		if _, err := fmt.Fprintf(conn, "ID %s\n", id); err != nil {
			return
		}
		io.Copy(conn, conn)
	}
}

// register sends NewProxy and returns (response, got a reply).
func (c *lcClient) register(f M) (M, bool) {
	name := mstr(f, "proxy_name")
	c.smu.Lock()
	if _, known := c.ptypes[name]; !known {
		c.ptypes[name] = mstr(f, "proxy_type")
	}
	c.smu.Unlock()
	r, ok := c.NewProxy(f, 30*time.Second)
	if ok && mstr(r, "error") == "" {
		c.smu.Lock()
		c.ptypes[name] = mstr(f, "proxy_type")
		c.smu.Unlock()
	}
	return r, ok
}

// workConnStates returns how many offered work connections are still open from the peer's point of view.
func (c *lcClient) openOffered() (open int, total int) {
	c.smu.Lock()
	conns := append([]net.Conn{}, c.Offered...)
	c.smu.Unlock()
	for _, cn := range conns {
		total++
		if !connPeerClosed(cn) {
			open++
		}
	}
	return
}

// connPeerClosed reports whether the remote side has closed/reset the connection (works for simnet conns
// and for mux streams by a zero-time read probe).
func connPeerClosed(cn net.Conn) bool {
	if sc, ok := cn.(*simnet.Conn); ok {
		return sc.PeerClosed()
	}
	cn.SetReadDeadline(time.Now().Add(time.Nanosecond))
	var b [1]byte
	_, err := cn.Read(b[:])
	cn.SetReadDeadline(time.Time{})
	if err == nil {
		return false
	}
	if ne, ok := err.(net.Error); ok && ne.Timeout() {
		return false
	}
	return true
}

// ---------------------------------------------------------------- user probes

type probeResult struct {
	ServedBy string // "<client>/<proxy>" or ""
	Err      error
	Elapsed  time.Duration
	Refused  bool
}

// probeTCP connects to addr as a fresh user and reads the identity line.
func (e *lcEnv) probeTCP(addr string, wait time.Duration) probeResult {
	ip := fmt.Sprintf("10.0.3.%d", 1+e.userIP%250)
	e.userIP++
	t0 := e.w.Net.Now()
	conn, err := simnet.DialFrom(ip, addr, 10*time.Second)
	if err != nil {
		return probeResult{Err: err, Refused: true, Elapsed: e.w.Net.Now() - t0}
	}
	defer conn.Close()
	conn.SetReadDeadline(time.Now().Add(wait))
	line, err := bufio.NewReader(conn).ReadString('\n')
	el := e.w.Net.Now() - t0
	if err != nil {
		return probeResult{Err: err, Elapsed: el}
	}
	if !strings.HasPrefix(line, "ID ") {
		return probeResult{Err: fmt.Errorf("unexpected greeting %q", line), Elapsed: el}
	}
	return probeResult{ServedBy: strings.TrimSpace(line[3:]), Elapsed: el}
}

// probeHTTP sends one HTTP request to the vhost port and returns the X-Served-By header and status.
func (e *lcEnv) probeHTTP(host, path string, wait time.Duration) (servedBy string, status int, err error) {
	ip := fmt.Sprintf("10.0.3.%d", 1+e.userIP%250)
	e.userIP++
	conn, err := simnet.DialFrom(ip, fmt.Sprintf("10.0.0.1:%d", e.httpPort), 10*time.Second)
	if err != nil {
		return "", 0, err
	}
	defer conn.Close()
	fmt.Fprintf(conn, "GET %s HTTP/1.1\r\nHost: %s\r\nConnection: close\r\n\r\n", path, host)
	conn.SetReadDeadline(time.Now().Add(wait))
	br := bufio.NewReader(conn)
	line, err := br.ReadString('\n')
	if err != nil {
		return "", 0, err
	}
	fmt.Sscanf(line, "HTTP/1.1 %d", &status)
	for {
		l, err := br.ReadString('\n')
		if err != nil || l == "\r\n" {
			break
		}
		if strings.HasPrefix(strings.ToLower(l), "x-served-by:") {
			servedBy = strings.TrimSpace(l[len("x-served-by:"):])
		}
	}
	return servedBy, status, nil
}

// probeHTTPUser is probeHTTP with a Basic Authorization header naming user (the user http routes may be restricted to).
func (e *lcEnv) probeHTTPUser(host, path, user string, wait time.Duration) (servedBy string, status int, err error) {
	return e.probeHTTPAuth(host, path, basic(user, "x"), wait)
}

// probeHTTPAuth is probeHTTP with the given Authorization header value ("" = none).
func (e *lcEnv) probeHTTPAuth(host, path, authz string, wait time.Duration) (servedBy string, status int, err error) {
	ip := fmt.Sprintf("10.0.3.%d", 1+e.userIP%250)
	e.userIP++
	conn, err := simnet.DialFrom(ip, fmt.Sprintf("10.0.0.1:%d", e.httpPort), 10*time.Second)
	if err != nil {
		return "", 0, err
	}
	defer conn.Close()
	ah := ""
	if authz != "" {
		ah = "Authorization: " + authz + "\r\n"
	}
	fmt.Fprintf(conn, "GET %s HTTP/1.1\r\nHost: %s\r\n%sConnection: close\r\n\r\n", path, host, ah)
	conn.SetReadDeadline(time.Now().Add(wait))
	br := bufio.NewReader(conn)
	line, err := br.ReadString('\n')
	if err != nil {
		return "", 0, err
	}
	fmt.Sscanf(line, "HTTP/1.1 %d", &status)
	for {
		l, err := br.ReadString('\n')
		if err != nil || l == "\r\n" {
			break
		}
		if strings.HasPrefix(strings.ToLower(l), "x-served-by:") {
			servedBy = strings.TrimSpace(l[len("x-served-by:"):])
		}
	}
	return servedBy, status, nil
}

// probeCONNECT sends CONNECT host:443 to the tcpmux port (optionally naming a user) and returns the identity
// line of the backend that answered.
func (e *lcEnv) probeCONNECT(host, user string, wait time.Duration) (servedBy string, err error) {
	authz := ""
	if user != "" {
		authz = basic(user, "x")
	}
	return e.probeCONNECTAuth(host, authz, wait)
}

// probeCONNECTAuth is probeCONNECT with the given Proxy-Authorization header value ("" = none).
func (e *lcEnv) probeCONNECTAuth(host, authz string, wait time.Duration) (servedBy string, err error) {
	ip := fmt.Sprintf("10.0.3.%d", 1+e.userIP%250)
	e.userIP++
	conn, err := simnet.DialFrom(ip, fmt.Sprintf("10.0.0.1:%d", e.muxPort), 10*time.Second)
	if err != nil {
		return "", err
	}
	defer conn.Close()
	h := ""
	if authz != "" {
		h = "Proxy-Authorization: " + authz + "\r\n"
	}
	fmt.Fprintf(conn, "CONNECT %s:443 HTTP/1.1\r\nHost: %s:443\r\n%s\r\n", host, host, h)
	conn.SetReadDeadline(time.Now().Add(wait))
	br := bufio.NewReader(conn)
	for i := 0; i < 40; i++ {
		line, err := br.ReadString('\n')
		if strings.HasPrefix(line, "ID ") {
			return strings.TrimSpace(line[3:]), nil
		}
		if err != nil {
			return "", err
		}
	}
	return "", fmt.Errorf("no identity line")
}

// frpsTCPPorts returns the ports frps listens on at its address, minus the fixed service ports.
func (e *lcEnv) frpsTCPPorts() map[int]bool {
	out := map[int]bool{}
	for _, a := range e.w.Net.ListeningTCP() {
		if strings.HasPrefix(a, "10.0.0.1:") {
			var p int
			fmt.Sscanf(a[len("10.0.0.1:"):], "%d", &p)
			if p == 7000 || p == e.httpPort || p == e.muxPort || p == e.httpsPort || p == 7500 {
				continue
			}
			out[p] = true
		}
	}
	return out
}

// portAccounting reads the server's own port tables (ports in use, ports free) for "tcp" or "udp", so that "the
// accounting equals what is really bound" can be checked as stated. It looks the tables up by reflection; ok=false
// (and the invariant is simply not evaluated) if the server is laid out differently.
func (e *lcEnv) portAccounting(proto string) (used, free map[int]bool, ok bool) {
	defer func() {
		if recover() != nil {
			used, free, ok = nil, nil, false
		}
	}()
	rc := reflect.ValueOf(e.frps.Svc).Elem().FieldByName("rc")
	if !rc.IsValid() || rc.IsNil() {
		return nil, nil, false
	}
	name := "TCPPortManager"
	if proto == "udp" {
		name = "UDPPortManager"
	}
	pm := rc.Elem().FieldByName(name)
	if !pm.IsValid() || pm.IsNil() {
		return nil, nil, false
	}
	u, f := pm.Elem().FieldByName("usedPorts"), pm.Elem().FieldByName("freePorts")
	if !u.IsValid() || !f.IsValid() || u.Kind() != reflect.Map || f.Kind() != reflect.Map {
		return nil, nil, false
	}
	used, free = map[int]bool{}, map[int]bool{}
	for _, k := range u.MapKeys() {
		used[int(k.Int())] = true
	}
	for _, k := range f.MapKeys() {
		free[int(k.Int())] = true
	}
	return used, free, true
}

func (e *lcEnv) frpsUDPPorts() map[int]bool {
	out := map[int]bool{}
	for _, a := range e.w.Net.BoundUDP() {
		if strings.HasPrefix(a, "10.0.0.1:") {
			var p int
			fmt.Sscanf(a[len("10.0.0.1:"):], "%d", &p)
			out[p] = true
		}
	}
	return out
}

func portOf(remoteAddr string) int {
	i := strings.LastIndex(remoteAddr, ":")
	if i < 0 {
		return 0
	}
	var p int
	fmt.Sscanf(remoteAddr[i+1:], "%d", &p)
	return p
}

func jsonStr(v any) string {
	b, _ := json.Marshal(v)
	return string(b)
}

// syncStrong waits until the server has processed everything this client sent before: a registration of an
// unsupported proxy type under a unique name is answered (with an error) in order by the session's dispatcher.
// Unlike a ping/pong pair it cannot be satisfied by the answer to an earlier heartbeat.
func (c *lcClient) syncStrong() bool {
	c.smu.Lock()
	c.syncSeq++
	name := fmt.Sprintf("verif-sync-%s-%d", c.Name, c.syncSeq)
	c.smu.Unlock()
	_, ok := c.NewProxy(M{"proxy_name": name, "proxy_type": "verifsync"}, 30*time.Second)
	return ok
}
