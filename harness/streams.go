package verifharness

import (
	"bytes"
	"crypto/tls"
	"encoding/binary"
	"errors"
	"fmt"
	"io"
	"net"
	"strconv"
	"strings"
	"time"

	"verif/sim/simnet"
)

// genStream builds a byte stream of the given class; the first 16 bytes are a
// high-entropy tag.
func genStream(r *simnet.Rand, n int, class int) []byte {
	b := make([]byte, n)
	switch class {
	case 0: // incompressible
		r.Fill(b)
	case 1: // long zero runs with a few noise islands
		for i := 0; i < n; {
			run := r.Range(1, 8192)
			i += run
			if i < n {
				k := r.Range(1, 64)
				if i+k > n {
					k = n - i
				}
				r.Fill(b[i : i+k])
				i += k
			}
		}
	case 2: // short repeating pattern
		pat := make([]byte, r.Range(1, 37))
		r.Fill(pat)
		for i := range b {
			b[i] = pat[i%len(pat)]
		}
	default: // mixed text/binary
		words := []string{"GET ", "HTTP/1.1\r\n", "Host: ", "\x00\x00\x01", "frp", "\xff\xfe", "0123456789", "\r\n\r\n", "{\"a\":1}", "PROXY TCP4 "}
		i := 0
		for i < n {
			if r.Intn(4) == 0 {
				k := r.Range(1, 200)
				if i+k > n {
					k = n - i
				}
				r.Fill(b[i : i+k])
				i += k
			} else {
				w := words[r.Intn(len(words))]
				i += copy(b[i:], w)
			}
		}
	}
	if n >= 16 {
		r.Fill(b[:16])
	}
	return b
}

// deliveryLog records (time, bytes) of data arriving at an endpoint.
type deliveryLog struct {
	ev []deliveryEv
}
type deliveryEv struct {
	t time.Duration
	n int
}

// checkBandwidth verifies that for every pair of delivery instants the bytes
// delivered in between do not exceed limit*dt + allowance. O(n).
func checkBandwidth(evs []deliveryEv, limit float64, allowance float64) (ok bool, worst float64, at time.Duration) {
	// maximise (S_j - L t_j) - (S_i - L t_i) for i<j where S_i excludes event i's bytes... we use
	// bytes in (t_i, t_j], i.e. events strictly after instant t_i up to and including t_j.
	ok = true
	var S float64
	minBase := 0.0 // S_i - L*t_i at start (t=first event instant, nothing counted)
	first := true
	var lastT time.Duration
	var baseAtLastT float64
	for _, e := range evs {
		tt := e.t.Seconds()
		if first {
			minBase = S - limit*tt
			baseAtLastT = S - limit*tt
			lastT = e.t
			first = false
		}
		if e.t != lastT {
			// events at the previous instant are now "at or before t_i" candidates
			if b := baseAtLastT; b < minBase {
				minBase = b
			}
			lastT = e.t
		}
		S += float64(e.n)
		baseAtLastT = S - limit*tt
		excess := (S - limit*tt) - minBase
		// the first instant's own bytes count as one burst: subtract nothing, allowance covers it
		if excess > allowance {
			ok = false
			if excess > worst {
				worst, at = excess, e.t
			}
		}
	}
	return
}

// ---------------------------------------------------------------- PROXY protocol parsing (independent of go-proxyproto)

type ppInfo struct {
	version  int
	src, dst string
	n        int
}

var ppV2Sig = []byte{0x0D, 0x0A, 0x0D, 0x0A, 0x00, 0x0D, 0x0A, 0x51, 0x55, 0x49, 0x54, 0x0A}

// readPP reads one PROXY protocol header (v1 or v2) from r.
func readPP(r io.Reader) (*ppInfo, error) {
	head := make([]byte, 12)
	if _, err := io.ReadFull(r, head[:6]); err != nil {
		return nil, err
	}
	if string(head[:6]) == "PROXY " {
		line := append([]byte{}, head[:6]...)
		one := make([]byte, 1)
		for len(line) < 108 {
			if _, err := io.ReadFull(r, one); err != nil {
				return nil, err
			}
			line = append(line, one[0])
			if len(line) >= 2 && line[len(line)-2] == '\r' && line[len(line)-1] == '\n' {
				f := strings.Fields(string(line[:len(line)-2]))
				if len(f) != 6 || (f[1] != "TCP4" && f[1] != "TCP6") {
					return nil, fmt.Errorf("bad v1 header %q", line)
				}
				return &ppInfo{1, net.JoinHostPort(f[2], f[4]), net.JoinHostPort(f[3], f[5]), len(line)}, nil
			}
		}
		return nil, fmt.Errorf("v1 header too long %q", line)
	}
	if _, err := io.ReadFull(r, head[6:12]); err != nil {
		return nil, err
	}
	if !bytes.Equal(head, ppV2Sig) {
		return nil, fmt.Errorf("no PROXY signature: % x", head)
	}
	h := make([]byte, 4)
	if _, err := io.ReadFull(r, h); err != nil {
		return nil, err
	}
	if h[0] != 0x21 {
		return nil, fmt.Errorf("v2 ver/cmd %#x", h[0])
	}
	l := int(binary.BigEndian.Uint16(h[2:4]))
	body := make([]byte, l)
	if _, err := io.ReadFull(r, body); err != nil {
		return nil, err
	}
	switch h[1] {
	case 0x11:
		if l < 12 {
			return nil, errors.New("v2 short ipv4 block")
		}
		src := net.JoinHostPort(net.IP(body[0:4]).String(), strconv.Itoa(int(binary.BigEndian.Uint16(body[8:10]))))
		dst := net.JoinHostPort(net.IP(body[4:8]).String(), strconv.Itoa(int(binary.BigEndian.Uint16(body[10:12]))))
		return &ppInfo{2, src, dst, 16 + l}, nil
	case 0x21:
		if l < 36 {
			return nil, errors.New("v2 short ipv6 block")
		}
		src := net.JoinHostPort(net.IP(body[0:16]).String(), strconv.Itoa(int(binary.BigEndian.Uint16(body[32:34]))))
		dst := net.JoinHostPort(net.IP(body[16:32]).String(), strconv.Itoa(int(binary.BigEndian.Uint16(body[34:36]))))
		return &ppInfo{2, src, dst, 16 + l}, nil
	}
	return nil, fmt.Errorf("v2 family %#x", h[1])
}

// ---------------------------------------------------------------- ClientHello capture

type captureConn struct {
	buf  bytes.Buffer
	done chan struct{}
}

func (c *captureConn) Read(b []byte) (int, error)         { <-c.done; return 0, io.EOF }
func (c *captureConn) Write(b []byte) (int, error)        { c.buf.Write(b); return len(b), nil }
func (c *captureConn) Close() error                       { return nil }
func (c *captureConn) LocalAddr() net.Addr                { return &net.TCPAddr{} }
func (c *captureConn) RemoteAddr() net.Addr               { return &net.TCPAddr{} }
func (c *captureConn) SetDeadline(t time.Time) error      { return nil }
func (c *captureConn) SetReadDeadline(t time.Time) error  { return nil }
func (c *captureConn) SetWriteDeadline(t time.Time) error { return nil }

// clientHelloFor returns the bytes of a TLS ClientHello record carrying the SNI.
func clientHelloFor(sni string) []byte {
	cc := &captureConn{done: make(chan struct{})}
	tc := tls.Client(cc, &tls.Config{ServerName: sni, InsecureSkipVerify: true})
	fin := make(chan struct{})
	go func() {
		_ = tc.Handshake()
		close(fin)
	}()
	// the hello is written synchronously before the first Read blocks
	for i := 0; i < 1000 && cc.buf.Len() == 0; i++ {
		time.Sleep(time.Microsecond)
	}
	close(cc.done)
	<-fin
	return append([]byte{}, cc.buf.Bytes()...)
}

// readUntil reads byte-wise until the delimiter has been seen; returns what was read.
func readUntil(r io.Reader, delim string, max int) ([]byte, error) {
	var out []byte
	one := make([]byte, 1)
	for len(out) < max {
		if _, err := io.ReadFull(r, one); err != nil {
			return out, err
		}
		out = append(out, one[0])
		if bytes.HasSuffix(out, []byte(delim)) {
			return out, nil
		}
	}
	return out, fmt.Errorf("delimiter not found in %d bytes", max)
}
