package verifharness

import (
	"crypto/ecdsa"
	"crypto/elliptic"
	"crypto/rand"
	"crypto/sha256"
	"encoding/base64"
	"encoding/json"
	"fmt"
	"math/big"
	"net"
	"net/http"
	"time"
)

// World "oidc" (C04 with the OIDC method): real frps verifying bearer tokens against a stub issuer (discovery
// document + JWKS over the simulated network), scripted clients presenting valid and invalid tokens.

func init() { RegisterWorld("oidc", worldOIDC) }

type idp struct {
	issuer string
	key    *ecdsa.PrivateKey // the issuer's signing key (published)
	rogue  *ecdsa.PrivateKey // a key the issuer does not publish
}

func b64u(b []byte) string { return base64.RawURLEncoding.EncodeToString(b) }

func (p *idp) jwks() []byte {
	pad := func(i *big.Int) []byte { b := i.Bytes(); return append(make([]byte, 32-len(b)), b...) }
	k := M{"kty": "EC", "crv": "P-256", "alg": "ES256", "use": "sig", "kid": "k1", "x": b64u(pad(p.key.X)), "y": b64u(pad(p.key.Y))}
	b, _ := json.Marshal(M{"keys": []M{k}})
	return b
}

// mint signs claims; alg "none" produces an unsigned token, key nil leaves the signature empty.
func (p *idp) mint(claims M, key *ecdsa.PrivateKey, alg string) string {
	hdr, _ := json.Marshal(M{"alg": alg, "kid": "k1", "typ": "JWT"})
	body, _ := json.Marshal(claims)
	signing := b64u(hdr) + "." + b64u(body)
	if alg == "none" || key == nil {
		return signing + "."
	}
	h := sha256.Sum256([]byte(signing))
	r, s, err := ecdsa.Sign(rand.Reader, key, h[:])
	if err != nil {
		return signing + "."
	}
	sig := append(append(make([]byte, 32-len(r.Bytes())), r.Bytes()...), append(make([]byte, 32-len(s.Bytes())), s.Bytes()...)...)
	return signing + "." + b64u(sig)
}

func worldOIDC(w *World) {
	viol := func(oracle, sig, f string, a ...any) { w.Violate("C04", oracle, sig, f, a...) }
	r := w.R
	p := &idp{issuer: "http://10.0.5.1:8000"}
	p.key, _ = ecdsa.GenerateKey(elliptic.P256(), rand.Reader)
	p.rogue, _ = ecdsa.GenerateKey(elliptic.P256(), rand.Reader)
	idpNode := w.Net.NewNode("idp", "10.0.5.1")
	restore := idpNode.Enter()
	ln, err := w.Net.Listen("tcp", "10.0.5.1:8000")
	restore()
	if err != nil {
		w.Fail("%v", err)
	}
	mux := http.NewServeMux()
	mux.HandleFunc("/.well-known/openid-configuration", func(rw http.ResponseWriter, _ *http.Request) {
		rw.Header().Set("Content-Type", "application/json")
		json.NewEncoder(rw).Encode(M{"issuer": p.issuer, "jwks_uri": p.issuer + "/keys", "authorization_endpoint": p.issuer + "/auth",
			"token_endpoint": p.issuer + "/token", "id_token_signing_alg_values_supported": []string{"ES256"}})
	})
	mux.HandleFunc("/keys", func(rw http.ResponseWriter, _ *http.Request) {
		rw.Header().Set("Content-Type", "application/json")
		rw.Write(p.jwks())
	})
	idpNode.Go(func() { (&http.Server{Handler: mux}).Serve(ln) })

	audience := ""
	if w.KnobBool("audience", 60) {
		audience = "frps-aud"
	}
	skipExp := w.KnobBool("skip_expiry_check", 20)
	skipIss := w.KnobBool("skip_issuer_check", 20)
	scopeHB := w.KnobBool("scope_heartbeats", 50)
	scopeWC := w.KnobBool("scope_newworkconns", 50)
	var scopes []string
	if scopeHB {
		scopes = append(scopes, "HeartBeats")
	}
	if scopeWC {
		scopes = append(scopes, "NewWorkConns")
	}
	tcpMux := w.KnobBool("tcp_mux", 50)
	hbTimeout := w.KnobPick("hb_timeout", 4, 8)
	scfg := map[string]any{"bindAddr": "10.0.0.1", "bindPort": 7000,
		"auth": map[string]any{"method": "oidc", "additionalScopes": scopes,
			"oidc": map[string]any{"issuer": p.issuer, "audience": audience, "skipExpiryCheck": skipExp, "skipIssuerCheck": skipIss}},
		"transport":       map[string]any{"tcpMux": tcpMux, "heartbeatTimeout": hbTimeout},
		"allowPorts":      []map[string]any{{"start": 20000, "end": 20009}},
		"userConnTimeout": 3}
	now := func() int64 { return time.Now().Unix() }
	claims := func(sub string) M {
		c := M{"iss": p.issuer, "sub": sub, "iat": now() - 10, "exp": now() + 3600}
		if audience != "" {
			c["aud"] = audience
		}
		return c
	}
	good := func(sub string) string { return p.mint(claims(sub), p.key, "ES256") }
	env := w.newLcEnv(scfg, "", PeerOpts{Server: "10.0.0.1:7000", Mux: tcpMux, Token: "", RawKeys: true, LoginKey: good("alice")})
	env.start()

	// expiryAttack: a token that is valid, and accepted in heartbeats, for a few seconds - and then keeps being presented
	adv := 0
	expiryAttack := func() {
		if skipExp || !(scopeHB || scopeWC) {
			return
		}
		w.Check("C04.expired-token-stops-working")
		life := time.Duration(r.Range(3, 8)) * time.Second
		cl := claims("mallory")
		cl["exp"] = now() + int64(life/time.Second)
		tok := p.mint(cl, p.key, "ES256")
		expiresAt := w.Net.Now() + life
		c := env.newClient(fmt.Sprintf("adv%d", adv), 0)
		c.Opts.LoginKey = tok
		if rr, err := c.login(""); err != nil || mstr(rr, "error") != "" {
			return
		}
		if scopeWC {
			// while it is valid the token also opens a work connection
			if pre, err := c.OfferWorkConn(c.RunID, true, tok); err == nil {
				defer pre.Close()
			}
		}
		stop := make(chan struct{})
		c.Node.Go(func() {
			for {
				select {
				case <-stop:
					return
				case <-time.After(500 * time.Millisecond):
					if c.IsClosed() {
						return
					}
					c.Ping(true, tok)
				}
			}
		})
		time.Sleep(expiresAt - w.Net.Now() + 1500*time.Millisecond)
		if scopeWC && !c.IsClosed() {
			if conn, err := c.OfferWorkConn(c.RunID, true, tok); err == nil {
				st, err := AwaitStart(conn, 3*time.Second)
				if err == nil && mstr(st, "error") == "" {
					viol("workconn", "expired-key-accepted", "work connection carrying a token that expired 1.5 s ago (and had been accepted in heartbeats before) was started: %v", st)
				} else if ne, ok := err.(net.Error); ok && ne.Timeout() {
					viol("workconn", "expired-key-parked", "NewWorkConns scope on: work connection carrying a token that expired 1.5 s ago was neither refused nor closed")
				}
				conn.Close()
			}
		}
		if scopeHB {
			closed := c.WaitClosed(time.Duration(hbTimeout)*time.Second + 45*time.Second)
			if !closed {
				viol("heartbeat", "kept-alive-by-expired-token", "a session whose heartbeats carry a token that expired %v ago is still alive (heartbeatTimeout %ds)", w.Net.Now()-expiresAt, hbTimeout)
			}
		}
		close(stop)
		c.Drop()
	}
	if !skipExp && (scopeHB || scopeWC) && w.KnobBool("expiry_scenario", 25) {
		// on its own: no other session presents tokens meanwhile
		for i := 0; i < w.KnobPick("expiry_sessions", 1, 2); i++ {
			adv++
			expiryAttack()
		}
		w.SetSample(map[string]any{"scopes": scopes, "scenario": "expiry"})
		w.Nontrivial()
		return
	}
	honest := env.newClient("honest", 1)
	if rr, err := honest.login(""); err != nil || mstr(rr, "error") != "" {
		viol("login", "valid-token-refused", "login with a valid token of the configured issuer was refused: %v %v", err, rr)
		return
	}
	if rr, got := honest.register(M{"proxy_name": "hp", "proxy_type": "tcp", "remote_port": 20000}); !got || mstr(rr, "error") != "" {
		w.Fail("honest register: %v", rr)
	}
	stopHB := make(chan struct{})
	honest.Node.Go(func() {
		for {
			select {
			case <-stopHB:
				return
			case <-time.After(time.Second):
				honest.Ping(true, good("alice"))
			}
		}
	})
	defer close(stopHB)
	checkHonest := func(when string) {
		w.Check("C04.honest-undisturbed")
		if honest.IsClosed() {
			viol("bystander", "honest-session-closed-"+when, "%s: the honest session was closed", when)
			return
		}
		if res := env.probeTCP("10.0.0.1:20000", 10*time.Second); res.ServedBy != honest.Name+"/hp" {
			viol("bystander", "honest-tunnel-broken-"+when, "%s: honest tunnel no longer serves (%q %v)", when, res.ServedBy, res.Err)
		}
	}
	checkHonest("baseline")

	type bad struct {
		name string
		tok  string
	}
	mk := func() []bad {
		c := claims("mallory")
		exp := claims("mallory")
		exp["exp"] = now() - 3600
		exp["iat"] = now() - 7200
		iss := claims("mallory")
		iss["iss"] = "http://evil.example"
		aud := claims("mallory")
		aud["aud"] = "someone-else"
		noaud := claims("mallory")
		delete(noaud, "aud")
		out := []bad{
			{"empty", ""},
			{"garbage", "not.a.token"},
			{"signed-by-unpublished-key", p.mint(c, p.rogue, "ES256")},
			{"alg-none", p.mint(c, nil, "none")},
			{"empty-signature", p.mint(c, nil, "ES256")},
			{"hs256-with-public-material", p.mint(c, nil, "HS256")},
			{"payload-swapped", func() string { // a valid token's signature under another payload
				t := good("alice")
				var h, s string
				for i, part := range splitDots(t) {
					if i == 0 {
						h = part
					}
					if i == 2 {
						s = part
					}
				}
				b, _ := json.Marshal(claims("root"))
				return h + "." + b64u(b) + "." + s
			}()},
		}
		if !skipExp {
			out = append(out, bad{"expired", p.mint(exp, p.key, "ES256")})
		}
		if !skipIss {
			out = append(out, bad{"wrong-issuer", p.mint(iss, p.key, "ES256")})
		}
		if audience != "" {
			out = append(out, bad{"wrong-audience", p.mint(aud, p.key, "ES256")}, bad{"no-audience", p.mint(noaud, p.key, "ES256")})
		}
		return out
	}
	nattacks := w.KnobPick("nattacks", 4, 8, 16)
	for i := 0; i < nattacks; i++ {
		bads := mk()
		b := bads[r.Intn(len(bads))]
		adv++
		switch r.Intn(5) {
		case 4:
			expiryAttack()
		case 0, 1: // login with an invalid token
			w.Check("C04.oidc-login-refused")
			c := env.newClient(fmt.Sprintf("adv%d", adv), 0)
			c.Opts.LoginKey = b.tok
			rid := ""
			if r.Intn(3) == 0 {
				rid = honest.RunID // a refused login naming a live session's run id must not disturb that session
			}
			resp, err := c.login(rid)
			if err == nil && resp != nil && mstr(resp, "error") == "" {
				viol("login", "accepted-oidc-"+b.name, "login with token variant %q was accepted: %v", b.name, resp)
			}
			c.Drop()
			if rid != "" {
				checkHonest("after-refused-login-with-its-run-id")
			}
		case 2: // a session fed only heartbeats with invalid tokens
			if !scopeHB {
				continue
			}
			w.Check("C04.invalid-heartbeats-do-not-keep-alive")
			c := env.newClient(fmt.Sprintf("adv%d", adv), 0)
			c.Opts.LoginKey = good("mallory")
			if rr, err := c.login(""); err != nil || mstr(rr, "error") != "" {
				continue
			}
			stop := make(chan struct{})
			c.Node.Go(func() {
				for {
					select {
					case <-stop:
						return
					case <-time.After(500 * time.Millisecond):
						if c.IsClosed() {
							return
						}
						c.Ping(true, b.tok)
					}
				}
			})
			closed := c.WaitClosed(time.Duration(hbTimeout)*time.Second + 45*time.Second)
			close(stop)
			if !closed {
				viol("heartbeat", "kept-alive-by-invalid-heartbeats", "a session whose heartbeats carry token variant %q is still alive long after heartbeatTimeout %ds", b.name, hbTimeout)
				c.Drop()
			}
		default: // work connection for the honest session with an invalid token
			if !scopeWC {
				continue
			}
			w.Check("C04.workconn-refused")
			c := env.newClient(fmt.Sprintf("adv%d", adv), 0)
			conn, err := c.OfferWorkConn(honest.RunID, true, b.tok)
			if err != nil {
				continue
			}
			st, err := AwaitStart(conn, 3*time.Second)
			if err == nil && mstr(st, "error") == "" {
				viol("workconn", "bad-key-accepted", "work connection with token variant %q was started: %v", b.name, st)
			} else if err != nil {
				if ne, ok := err.(net.Error); ok && ne.Timeout() {
					viol("workconn", "bad-key-parked", "NewWorkConns scope on: work connection with token variant %q was neither refused nor closed (pooled?)", b.name)
				}
			}
			conn.Close()
			c.Drop()
		}
		if r.Intn(3) == 0 {
			checkHonest("mid-attack")
		}
	}
	checkHonest("after-attacks")
	w.SetSample(map[string]any{"scopes": scopes, "audience": audience, "skip_exp": skipExp, "skip_iss": skipIss, "attacks": nattacks})
	w.Nontrivial()
}

func splitDots(s string) []string {
	var out []string
	cur := ""
	for _, c := range s {
		if c == '.' {
			out = append(out, cur)
			cur = ""
		} else {
			cur += string(c)
		}
	}
	return append(out, cur)
}
