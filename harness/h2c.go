package verifharness

import (
	"bufio"
	"bytes"
	"context"
	"crypto/tls"
	"fmt"
	"io"
	"net"
	"net/http"
	"strings"
	"time"

	"golang.org/x/net/http2"
	"golang.org/x/net/http2/hpack"

	"verif/sim/simnet"
)

// h2cGet sends one GET as HTTP/2 over clear text with prior knowledge (the vhost HTTP port of frps wraps its
// handler with h2c) from the simulated address ip. hdrs are sent verbatim (lower-cased by HTTP/2).
func h2cGet(ip, addr, method, host, target string, hdrs [][2]string, wait time.Duration) (status int, servedBy string, err error) {
	tr := &http2.Transport{
		AllowHTTP: true,
		DialTLSContext: func(ctx context.Context, network, a string, _ *tls.Config) (net.Conn, error) {
			return simnet.DialFrom(ip, addr, 10*time.Second)
		},
	}
	defer tr.CloseIdleConnections()
	req, err := http.NewRequest(method, "http://"+addr+target, nil)
	if err != nil {
		return 0, "", err
	}
	req.Host = host
	for _, h := range hdrs {
		req.Header.Add(h[0], h[1])
	}
	ctx, cancel := context.WithTimeout(context.Background(), wait)
	defer cancel()
	resp, err := tr.RoundTrip(req.WithContext(ctx))
	if err != nil {
		return 0, "", err
	}
	defer resp.Body.Close()
	io.Copy(io.Discard, io.LimitReader(resp.Body, 1<<20))
	return resp.StatusCode, resp.Header.Get("X-Served-By"), nil
}

// h2cUpgradeSession speaks HTTP/2 over a clear-text connection obtained with the HTTP/1.1 Upgrade mechanism
// (RFC 7540 section 3.2): the first request is an ordinary HTTP/1.1 request carrying "Upgrade: h2c"; after the
// 101 answer it becomes stream 1 and further requests follow as streams 3, 5, ... on the same connection.
type h2cUpgradeSession struct {
	conn   net.Conn
	br     *bufio.Reader
	fr     *http2.Framer
	enc    *hpack.Encoder
	encBuf bytes.Buffer
	dec    *hpack.Decoder
	next   uint32
}

type h2Resp struct {
	Status   int
	ServedBy string
}

// h2cUpgrade sends the first request (HTTP/1.1 with the upgrade headers) and returns the session and the
// answer to that first request. err != nil: the server did not switch protocols (resp then holds the status).
func h2cUpgrade(ip, addr, method, host, target string, hdrs [][2]string, wait time.Duration) (*h2cUpgradeSession, *h2Resp, error) {
	c, err := simnet.DialFrom(ip, addr, 10*time.Second)
	if err != nil {
		return nil, nil, err
	}
	c.SetDeadline(time.Now().Add(wait))
	var b bytes.Buffer
	fmt.Fprintf(&b, "%s %s HTTP/1.1\r\nHost: %s\r\nConnection: Upgrade, HTTP2-Settings\r\nUpgrade: h2c\r\nHTTP2-Settings: AAMAAABkAAQAAP__\r\n", method, target, host)
	for _, h := range hdrs {
		fmt.Fprintf(&b, "%s: %s\r\n", h[0], h[1])
	}
	b.WriteString("\r\n")
	c.Write(b.Bytes())
	br := bufio.NewReader(c)
	line, err := br.ReadString('\n')
	if err != nil {
		c.Close()
		return nil, nil, err
	}
	st := 0
	fmt.Sscanf(line, "HTTP/1.1 %d", &st)
	for {
		l, err := br.ReadString('\n')
		if err != nil {
			c.Close()
			return nil, &h2Resp{Status: st}, err
		}
		if l == "\r\n" {
			break
		}
	}
	if st != 101 {
		c.Close()
		return nil, &h2Resp{Status: st}, fmt.Errorf("no protocol switch: status %d", st)
	}
	s := &h2cUpgradeSession{conn: c, br: br, next: 3}
	s.fr = http2.NewFramer(c, br)
	s.enc = hpack.NewEncoder(&s.encBuf)
	s.dec = hpack.NewDecoder(4096, nil)
	c.Write([]byte(http2.ClientPreface))
	s.fr.WriteSettings()
	r, err := s.readResponse(1)
	if err != nil {
		c.Close()
		return nil, nil, err
	}
	return s, r, nil
}

func (s *h2cUpgradeSession) readResponse(stream uint32) (*h2Resp, error) {
	out := &h2Resp{}
	gotHeaders := false
	for {
		f, err := s.fr.ReadFrame()
		if err != nil {
			return nil, err
		}
		switch f := f.(type) {
		case *http2.SettingsFrame:
			if !f.IsAck() {
				s.fr.WriteSettingsAck()
			}
		case *http2.PingFrame:
			if !f.IsAck() {
				s.fr.WritePing(true, f.Data)
			}
		case *http2.HeadersFrame:
			fields, err := s.dec.DecodeFull(f.HeaderBlockFragment())
			if err != nil {
				return nil, err
			}
			if f.StreamID != stream {
				continue
			}
			for _, hf := range fields {
				switch hf.Name {
				case ":status":
					fmt.Sscanf(hf.Value, "%d", &out.Status)
				case "x-served-by":
					out.ServedBy = hf.Value
				}
			}
			gotHeaders = true
			if f.StreamEnded() {
				return out, nil
			}
		case *http2.DataFrame:
			if f.StreamID == stream && f.StreamEnded() && gotHeaders {
				return out, nil
			}
		case *http2.RSTStreamFrame:
			if f.StreamID == stream {
				return nil, fmt.Errorf("stream reset: %v", f.ErrCode)
			}
		case *http2.GoAwayFrame:
			return nil, fmt.Errorf("goaway: %v", f.ErrCode)
		}
	}
}

// Get sends one more request on the upgraded connection.
func (s *h2cUpgradeSession) Do(method, host, path string, hdrs [][2]string, wait time.Duration) (*h2Resp, error) {
	s.conn.SetDeadline(time.Now().Add(wait))
	s.encBuf.Reset()
	s.enc.WriteField(hpack.HeaderField{Name: ":method", Value: method})
	s.enc.WriteField(hpack.HeaderField{Name: ":scheme", Value: "http"})
	s.enc.WriteField(hpack.HeaderField{Name: ":authority", Value: host})
	s.enc.WriteField(hpack.HeaderField{Name: ":path", Value: path})
	for _, h := range hdrs {
		s.enc.WriteField(hpack.HeaderField{Name: strings.ToLower(h[0]), Value: h[1]})
	}
	id := s.next
	s.next += 2
	if err := s.fr.WriteHeaders(http2.HeadersFrameParam{StreamID: id, BlockFragment: s.encBuf.Bytes(), EndStream: true, EndHeaders: true}); err != nil {
		return nil, err
	}
	return s.readResponse(id)
}

func (s *h2cUpgradeSession) Close() { s.conn.Close() }

// userH2C sends cases as HTTP/2 requests over one clear-text connection (prior knowledge) and checks them like
// the HTTP/1.1 user does. Cases HTTP/2 cannot express (connection-specific headers) are skipped.
func (hw *httpWorld) userH2C(addr, ip string, cs []*httpCase, rewriteHost string, setReq, setResp bool) {
	tr := &http2.Transport{
		AllowHTTP:          true,
		DisableCompression: true,
		DialTLSContext: func(ctx context.Context, network, a string, _ *tls.Config) (net.Conn, error) {
			return simnet.DialFrom(ip, addr, 10*time.Second)
		},
	}
	defer tr.CloseIdleConnections()
cases:
	for _, c := range cs {
		if c.upgrade || c.head || c.slowAt > 0 {
			continue
		}
		for _, h := range c.req.Headers {
			switch strings.ToLower(h.k) {
			case "connection", "transfer-encoding", "upgrade", "keep-alive", "te", "proxy-connection", "trailer", "expect":
				continue cases
			}
		}
		if len(c.req.get("Cookie")) > 1 {
			continue // HTTP/2 joins cookie lines into one (RFC 7540 8.1.2.5): a change the protocol itself declares
		}
		c.user = ip
		req, err := http.NewRequest(c.req.Method, "http://"+addr+c.req.Target, bytes.NewReader(c.req.Body))
		if err != nil {
			continue
		}
		if req.URL.RequestURI() != c.req.Target {
			continue // a target Go's URL type does not carry verbatim
		}
		req.Host = "a.example.test"
		for _, h := range c.req.Headers {
			if strings.EqualFold(h.k, "host") || strings.EqualFold(h.k, "content-length") {
				continue // carried by :authority and by the framing
			}
			// HTTP/2 lower-cases names on the wire; lines of one name (in whatever casing) keep their order
			k := http.CanonicalHeaderKey(h.k)
			req.Header[k] = append(req.Header[k], h.v)
		}
		if len(c.req.Body) == 0 {
			req.Body = nil
			req.ContentLength = 0
		}
		ctx, cancel := context.WithTimeout(context.Background(), 5*time.Minute)
		resp, err := tr.RoundTrip(req.WithContext(ctx))
		if err != nil {
			cancel()
			if strings.Contains(err.Error(), "invalid") {
				continue // refused by the client library before anything was sent
			}
			hw.viol("response", "no-response", "case %d (%s %s over h2c, body %d): %v", c.id, c.req.Method, c.req.Target, len(c.req.Body), err)
			return
		}
		body, rerr := io.ReadAll(resp.Body)
		resp.Body.Close()
		cancel()
		if rerr != nil {
			hw.viol("response", "body-read-failed", "case %d (%s %s over h2c): %v after %d bytes", c.id, c.req.Method, c.req.Target, rerr, len(body))
			return
		}
		got := &rawMsg{Status: resp.StatusCode, Body: body}
		for k, vs := range resp.Header {
			for _, v := range vs {
				got.Headers = append(got.Headers, hdr{k, v})
			}
		}
		hw.w.Probe("http.h2c_case")
		hw.checkCase(c, got, rewriteHost, setReq, setResp)
	}
}
