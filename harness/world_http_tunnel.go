package verifharness

import (
	"bufio"
	"bytes"
	"fmt"
	"io"
	"net"
	"strings"
	"time"

	"verif/sim/simnet"
)

// Protocol upgrade (WebSocket) and CONNECT through the vhost http port (C02): after the response
// both behave as byte-transparent tunnels.

type httpTunnel struct {
	id      string
	connect bool
	A, B    []byte // user -> backend, backend -> user
	target  string
	bOK     chan string // backend verdict ("" = fine)
}

func (hw *httpWorld) newTunnel(i int, connect bool) *httpTunnel {
	r := simnet.NewRand(hw.w.In.Seed, fmt.Sprintf("httptunnel%d", i))
	max := 48 << 10
	if m := hw.w.Net.Cfg().MSS; m < 64 {
		max = 2048
	}
	if hw.tunnelMax > 0 && max > hw.tunnelMax {
		max = hw.tunnelMax
	}
	t := &httpTunnel{id: fmt.Sprintf("T%d", i), connect: connect, target: "a.example.test:443", bOK: make(chan string, 1)}
	t.A = genStream(simnet.NewRand(hw.w.In.Seed, "tA"+t.id), r.Range(0, max), r.Intn(3))
	t.B = genStream(simnet.NewRand(hw.w.In.Seed, "tB"+t.id), r.Range(0, max), r.Intn(3))
	hw.mu.Lock()
	if hw.tunnels == nil {
		hw.tunnels = map[string]*httpTunnel{}
	}
	hw.tunnels[t.id] = t
	hw.mu.Unlock()
	return t
}

// backendTunnel is entered by the backend when a request carries X-Tunnel.
func (hw *httpWorld) backendTunnel(conn net.Conn, br *bufio.Reader, m *rawMsg, id string) {
	hw.mu.Lock()
	t := hw.tunnels[id]
	hw.mu.Unlock()
	if t == nil {
		return
	}
	verdict := ""
	defer func() { t.bOK <- verdict }()
	if t.connect {
		if m.Method != "CONNECT" || m.Target != t.target {
			verdict = fmt.Sprintf("backend received %q %q, want CONNECT %s", m.Method, m.Target, t.target)
			return
		}
		io.WriteString(conn, "HTTP/1.1 200 Connection Established\r\n\r\n")
	} else {
		up := strings.ToLower(strings.Join(m.get("Upgrade"), ","))
		cn := strings.ToLower(strings.Join(m.get("Connection"), ","))
		if up != "websocket" || !strings.Contains(cn, "upgrade") {
			verdict = fmt.Sprintf("upgrade request reached the backend with Upgrade=%q Connection=%q", up, cn)
			return
		}
		if k := m.get("Sec-WebSocket-Key"); len(k) != 1 || k[0] != "dGhlIHNhbXBsZSBub25jZQ==" {
			verdict = fmt.Sprintf("Sec-WebSocket-Key at the backend: %q", k)
			return
		}
		io.WriteString(conn, "HTTP/1.1 101 Switching Protocols\r\nUpgrade: websocket\r\nConnection: Upgrade\r\nSec-WebSocket-Accept: s3pPLMBiTxaQ9kYGzzhZRbK+xOo=\r\n\r\n")
	}
	wr := simnet.NewRand(hw.w.In.Seed, "tbw"+t.id)
	wdone := make(chan struct{})
	go func() {
		defer close(wdone)
		out := t.B
		// a tunnel may be idle for longer than the vhost's response-header timeout
		pause := hw.timeout > 0 && hw.timeout <= 5 && wr.Intn(2) == 0
		for len(out) > 0 {
			n := wr.Range(1, 9000)
			if n > len(out) {
				n = len(out)
			}
			if _, err := conn.Write(out[:n]); err != nil {
				return
			}
			out = out[n:]
			if pause {
				pause = false
				time.Sleep(time.Duration(hw.timeout)*time.Second + 1500*time.Millisecond)
			}
		}
	}()
	got := make([]byte, len(t.A))
	conn.SetReadDeadline(time.Now().Add(3 * time.Minute))
	if _, err := io.ReadFull(br, got); err != nil {
		verdict = fmt.Sprintf("backend got only part of the %d bytes the user wrote into the tunnel: %v", len(t.A), err)
		return
	}
	if !bytes.Equal(got, t.A) {
		verdict = "bytes the backend read from the tunnel differ from what the user wrote"
		return
	}
	<-wdone
	// nothing more may arrive; the backend closes when it is done
	conn.SetReadDeadline(time.Now().Add(300 * time.Millisecond))
	if n, _ := br.Read(make([]byte, 1)); n > 0 {
		verdict = "backend read bytes the user never wrote"
	}
}

func (hw *httpWorld) tunnelProbe(addr, ip string, t *httpTunnel) {
	w := hw.w
	kind := "upgrade"
	if t.connect {
		kind = "connect"
	}
	w.Check("C02." + kind + "-tunnel")
	conn, err := simnet.DialFrom(ip, addr, 10*time.Second)
	if err != nil {
		hw.viol("connect", "vhost-port-refused", "dial %s: %v", addr, err)
		return
	}
	defer conn.Close()
	var req string
	if t.connect {
		req = fmt.Sprintf("CONNECT %s HTTP/1.1\r\nHost: a.example.test\r\n%sX-Tunnel: %s\r\n\r\n", t.target, hw.credLine(), t.id)
	} else {
		req = fmt.Sprintf("GET /chat/%s HTTP/1.1\r\nHost: a.example.test\r\nUpgrade: websocket\r\nConnection: Upgrade\r\nSec-WebSocket-Key: dGhlIHNhbXBsZSBub25jZQ==\r\nSec-WebSocket-Version: 13\r\n%sX-Tunnel: %s\r\n\r\n", t.id, hw.credLine(), t.id)
	}
	io.WriteString(conn, req)
	conn.SetReadDeadline(time.Now().Add(2 * time.Minute))
	br := bufio.NewReaderSize(conn, 64<<10)
	hdr, err := readUntil(br, "\r\n\r\n", 8192)
	if err != nil {
		hw.viol(kind, kind+"-no-response", "%s %s: no response head: %v (%q)", kind, t.id, err, hdr)
		return
	}
	lines := strings.Split(string(hdr), "\r\n")
	want := "HTTP/1.1 101"
	if t.connect {
		want = "HTTP/1.1 200"
	}
	if !strings.HasPrefix(lines[0], want) {
		hw.viol(kind, kind+"-status", "%s %s: status line %q, backend answered %s", kind, t.id, lines[0], want)
		return
	}
	if !t.connect {
		low := strings.ToLower(string(hdr))
		if !strings.Contains(low, "upgrade: websocket") || !strings.Contains(low, "sec-websocket-accept: s3pplmbitxaq9kygzzhzrbk+xoo=") {
			hw.viol(kind, "upgrade-response-headers-lost", "101 response lost its upgrade headers: %q", hdr)
		}
	}
	ur := simnet.NewRand(w.In.Seed, "tuw"+t.id)
	go func() {
		out := t.A
		for len(out) > 0 {
			n := ur.Range(1, 9000)
			if n > len(out) {
				n = len(out)
			}
			if _, err := conn.Write(out[:n]); err != nil {
				return
			}
			out = out[n:]
		}
	}()
	got := make([]byte, len(t.B))
	n, err := io.ReadFull(br, got)
	if err != nil {
		hw.viol(kind, kind+"-tunnel-incomplete", "%s %s: user received %d of %d tunnel bytes: %v", kind, t.id, n, len(t.B), err)
		return
	}
	if !bytes.Equal(got, t.B) {
		hw.viol(kind, kind+"-tunnel-bytes-differ", "%s %s: bytes the user read from the tunnel differ from what the backend wrote", kind, t.id)
		return
	}
	select {
	case v := <-t.bOK:
		if v != "" {
			hw.viol(kind, kind+"-backend-side", "%s %s: %s", kind, t.id, v)
			return
		}
	case <-time.After(4 * time.Minute):
		hw.viol(kind, kind+"-backend-never-finished", "%s %s: backend did not receive the user's %d bytes", kind, t.id, len(t.A))
		return
	}
	// the backend has closed: end of stream must follow, and nothing else
	conn.SetReadDeadline(time.Now().Add(60 * time.Second))
	extra, err := io.ReadAll(br)
	if len(extra) > 0 {
		hw.viol(kind, kind+"-tunnel-extra-bytes", "%s %s: %d bytes the backend never wrote", kind, t.id, len(extra))
	} else if err != nil {
		if ne, ok := err.(net.Error); ok && ne.Timeout() {
			hw.viol(kind, kind+"-close-not-propagated", "%s %s: backend closed the tunnel, the user's connection is still open 60 s later", kind, t.id)
		}
	}
}
