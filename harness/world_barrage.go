package verifharness

import (
	"fmt"
	"strings"
	"sync"
	"time"
)

// World "barrage" (C16): authenticated and unauthenticated peers send every
// message type with extreme field values, concurrently with registration,
// closure, group, visitor and NAT-hole traffic. The process must survive, every
// session's message handling must keep answering, and failures stay confined.

func init() { RegisterWorld("barrage", worldBarrage) }

func extremeInt(r interface{ Intn(int) int }) any {
	vals := []any{0, -1, 1, -11, -1000000, 65535, 65536, 1 << 31, -(1 << 31), 1 << 53, 1e18, 20003, 20004}
	return vals[r.Intn(len(vals))]
}

func extremeStr(r interface{ Intn(int) int }) string {
	switch r.Intn(10) {
	case 0:
		return ""
	case 1:
		return strings.Repeat("A", 3000)
	case 2:
		return "\xff\xfe\xfd"
	case 3:
		return "../../etc/passwd"
	case 4:
		return "*"
	case 5:
		return "a.b.c.example.test"
	case 6:
		return "名前"
	case 7:
		return "x y\r\nz"
	case 8:
		return "g"
	default:
		return fmt.Sprintf("s%d", r.Intn(5))
	}
}

func worldBarrage(w *World) {
	token := "barrage-token"
	tcpMux := w.KnobBool("tcp_mux", 50)
	scfg := map[string]any{
		"bindAddr": "10.0.0.1", "bindPort": 7000, "vhostHTTPPort": 8080, "vhostHTTPSPort": 8443, "tcpmuxHTTPConnectPort": 7005,
		"subDomainHost":     "sub.example.test",
		"auth":              map[string]any{"token": token},
		"transport":         map[string]any{"tcpMux": tcpMux, "heartbeatTimeout": -1, "maxPoolCount": w.KnobPick("max_pool", 1, 5, 100)},
		"allowPorts":        []map[string]any{{"start": 20000, "end": 20019}},
		"maxPortsPerClient": w.KnobPick("quota", 0, 0, 1, 2, 5),
		"userConnTimeout":   2,
	}
	env := w.newLcEnv(scfg, token, PeerOpts{Server: "10.0.0.1:7000", Mux: tcpMux, Token: token})
	env.httpPort, env.httpsPort, env.muxPort = 8080, 8443, 7005
	env.start()
	r := w.R
	viol := func(oracle, sig, f string, a ...any) { w.Violate("C16", oracle, sig, f, a...) }

	honest := env.newClient("honest", 1)
	if rr, err := honest.login(""); err != nil || mstr(rr, "error") != "" {
		w.Fail("honest login: %v %v", err, rr)
	}
	if rr, got := honest.register(M{"proxy_name": "hp", "proxy_type": "tcp", "remote_port": 20000}); !got || mstr(rr, "error") != "" {
		w.Fail("honest register: %v", rr)
	}
	honest.register(M{"proxy_name": "hx", "proxy_type": "xtcp", "sk": "k", "allow_users": []string{"*"}})
	honest.register(M{"proxy_name": "hs", "proxy_type": "stcp", "sk": "k", "allow_users": []string{"*"}})

	ptypes := []string{"tcp", "udp", "http", "https", "tcpmux", "stcp", "sudp", "xtcp", "", "bogus"}
	npeers := w.KnobPick("npeers", 2, 3, 5)
	nmsgs := w.KnobPick("nmsgs", 10, 25, 60)
	var peers []*lcClient
	var wg sync.WaitGroup
	for i := 0; i < npeers; i++ {
		c := env.newClient(fmt.Sprintf("u%d", i), 0)
		// extreme login fields (valid credentials)
		ts := time.Now().Unix()
		lf := M{"version": extremeStr(r), "hostname": extremeStr(r), "os": extremeStr(r), "arch": extremeStr(r), "user": c.user, "timestamp": ts,
			"privilege_key": authKey(token, ts), "pool_count": extremeInt(r), "metas": M{extremeStr(r): extremeStr(r)}}
		if r.Intn(3) == 0 {
			lf["metas"] = nil
		}
		if r.Intn(3) == 0 {
			lf["run_id"] = extremeStr(r)
		}
		resp, err := c.LoginRaw(lf)
		if err != nil || mstr(resp, "error") != "" {
			// a refused login is fine; log in plainly to keep a session for the barrage
			c = env.newClient(fmt.Sprintf("u%d", i), 0)
			if rr, err := c.login(""); err != nil || mstr(rr, "error") != "" {
				continue
			}
		}
		c.SilentUnknown = true
		peers = append(peers, c)
	}
	for pi, c := range peers {
		c := c
		pr := newSubRand(w, fmt.Sprintf("barrage%d", pi))
		wg.Add(1)
		c.Node.Go(func() {
			defer wg.Done()
			for j := 0; j < nmsgs; j++ {
				if c.IsClosed() {
					return
				}
				switch pr.Intn(12) {
				case 0, 1, 2, 3:
					f := M{"proxy_name": extremeStr(pr), "proxy_type": ptypes[pr.Intn(len(ptypes))], "remote_port": extremeInt(pr),
						"use_encryption": pr.Bool(), "use_compression": pr.Bool(), "bandwidth_limit": []string{"", "1KB", "-1MB", "xx", "99999999999MB", "0KB"}[pr.Intn(6)],
						"bandwidth_limit_mode": []string{"", "client", "server", "both"}[pr.Intn(4)],
						"group":                []string{"", "", "g", extremeStr(pr)}[pr.Intn(4)], "group_key": extremeStr(pr),
						"custom_domains": []string{extremeStr(pr), "d" + fmt.Sprint(pr.Intn(3)) + ".example.test"}, "subdomain": []string{"", "svc", extremeStr(pr)}[pr.Intn(3)],
						"locations": []string{extremeStr(pr)}, "http_user": extremeStr(pr), "http_pwd": extremeStr(pr), "host_header_rewrite": extremeStr(pr),
						"headers": M{extremeStr(pr): extremeStr(pr)}, "route_by_http_user": []string{"", extremeStr(pr)}[pr.Intn(2)],
						"sk": extremeStr(pr), "allow_users": []string{extremeStr(pr)}, "multiplexer": []string{"", "httpconnect", "bogus"}[pr.Intn(3)],
						"metas": M{"k": extremeStr(pr)}, "annotations": M{extremeStr(pr): extremeStr(pr)}}
					if pr.Intn(4) == 0 {
						f["metas"], f["headers"], f["annotations"] = nil, nil, nil
					}
					c.Send(tNewProxy, f)
				case 4:
					c.Send(tCloseProxy, M{"proxy_name": extremeStr(pr)})
				case 5:
					c.Send(tPing, M{"privilege_key": extremeStr(pr), "timestamp": extremeInt(pr)})
				case 6:
					c.Send(tNatHoleVisitor, M{"transaction_id": extremeStr(pr), "proxy_name": []string{"hx", extremeStr(pr)}[pr.Intn(2)], "pre_check": pr.Bool(), "protocol": extremeStr(pr),
						"sign_key": authKey("k", 5), "timestamp": 5, "mapped_addrs": []string{extremeStr(pr), "1.2.3.4:99999", "[::1]:5", ":0", "1.2.3.4:5"}, "assisted_addrs": []string{extremeStr(pr)}})
				case 7:
					c.Send(tNatHoleClient, M{"transaction_id": extremeStr(pr), "proxy_name": "hx", "sid": extremeStr(pr), "mapped_addrs": []string{extremeStr(pr)}, "assisted_addrs": nil})
				case 8:
					c.Send(tNatHoleReport, M{"sid": extremeStr(pr), "success": pr.Bool()})
				case 9:
					// message types a client never sends on a control connection
					c.Send([]byte{tLogin, tLoginResp, tNewProxyResp, tReqWorkConn, tStartWorkConn, tNewWorkConn, tNewVisitorConn, tNewVisitorConnResp, tPong, tUDPPacket, tNatHoleResp, tNatHoleSid}[pr.Intn(12)],
						M{"proxy_name": extremeStr(pr), "run_id": extremeStr(pr), "error": extremeStr(pr), "c": extremeStr(pr), "l": nil, "r": M{"IP": extremeStr(pr), "Port": extremeInt(pr)}})
				case 10:
					// work / visitor connections with odd contents
					if cn, err := c.Connect(); err == nil {
						if pr.Bool() {
							writeMsg(cn, tNewWorkConn, M{"run_id": []string{c.RunID, extremeStr(pr)}[pr.Intn(2)], "privilege_key": extremeStr(pr), "timestamp": extremeInt(pr)})
						} else {
							writeMsg(cn, tNewVisitorConn, M{"run_id": []string{c.RunID, extremeStr(pr), ""}[pr.Intn(3)], "proxy_name": []string{"hs", extremeStr(pr)}[pr.Intn(2)], "sign_key": authKey("k", 9), "timestamp": 9,
								"use_encryption": pr.Bool(), "use_compression": pr.Bool()})
						}
						if pr.Bool() {
							time.Sleep(time.Duration(pr.Intn(50)) * time.Millisecond)
						}
						cn.Close()
					}
				default:
					// users poke at whatever is bound
					addr := []string{"10.0.0.1:20000", "10.0.0.1:20003", "10.0.0.1:8080", "10.0.0.1:7005", "10.0.0.1:8443"}[pr.Intn(5)]
					env.probeTCP(addr, 200*time.Millisecond)
				}
				if pr.Intn(3) == 0 {
					time.Sleep(time.Duration(pr.Intn(20)) * time.Millisecond)
				}
			}
		})
	}
	wg.Wait()
	time.Sleep(5 * time.Second)

	// every barraged session that is still open keeps answering
	for _, c := range peers {
		if c.IsClosed() {
			continue
		}
		w.Check("C16.session-still-answers")
		from := len(c.Inbox)
		c.Ping(true, token)
		if _, ok := c.WaitMsg(20*time.Second, func(m RecvMsg) bool { return m.Seq >= from && m.Type == tPong }); !ok && !c.IsClosed() {
			viol("stall", "session-message-handling-stalled", "session %s is open but did not answer a heartbeat within 20 s after the barrage", c.Name)
		}
	}
	// a peer that stops reading its control connection while it keeps sending requests the server answers, until
	// nothing moves any more - and then goes away. Its session must end like any other: port released, and the run id
	// usable for a new login.
	if w.KnobBool("deaf_flooder", 40) {
		w.Check("C16.deaf-flooder-session-ends")
		d := env.newClient("deaf", 0)
		if rr, err := d.login(""); err == nil && mstr(rr, "error") == "" {
			if rr, got := d.register(M{"proxy_name": "deafp", "proxy_type": "tcp", "remote_port": 20018}); got && mstr(rr, "error") == "" {
				w.Probe("barrage.deaf_flooder")
				d.PauseRead.Store(true)
				time.Sleep(100 * time.Millisecond)
				nameLen, nflood := w.KnobPick("deaf_name_len", 200, 4000), 4000
				if w.Net.Cfg().MSS < 64 {
					nameLen, nflood = 100, 600 // byte-sized segments: keep the run within the step budget
				}
				long := strings.Repeat("n", nameLen)
				done := make(chan struct{})
				d.Node.Go(func() {
					defer close(done)
					for j := 0; j < nflood; j++ {
						if d.Send(tNewProxy, M{"proxy_name": "deafp", "proxy_type": "tcp", "remote_port": 20018, "group": long}) != nil {
							return
						}
					}
				})
				select {
				case <-done:
				case <-time.After(20 * time.Second):
				}
				runID := d.RunID
				w.Net.CrashNode(d.Node) // the peer dies: its connections are reset
				time.Sleep(time.Second)
				if !w.WaitUntil(15*time.Second, 200*time.Millisecond, func() bool { return !env.frpsTCPPorts()[20018] }) {
					viol("stall", "session-of-vanished-peer-never-ends", "a peer stopped reading, flooded the server with registrations until nothing moved and vanished: 16 s later its proxy's port is still bound")
				}
				again := env.newClient("deaf2", 0)
				lr := make(chan M, 1)
				again.Node.Go(func() { rr, _ := again.login(runID); lr <- rr })
				select {
				case <-lr:
				case <-time.After(15 * time.Second):
					viol("stall", "relogin-after-vanished-peer-unanswered", "a login with the run id of a vanished, formerly flooding peer got no reply within 15 s")
				}
				again.Drop()
			}
		}
	}
	// failures are confined: the honest tunnel and a fresh login still work
	w.Check("C16.bystander-and-fresh-login")
	if honest.IsClosed() {
		viol("confine", "honest-session-closed", "the honest session was closed during the barrage")
	} else if res := env.probeTCP("10.0.0.1:20000", 10*time.Second); res.ServedBy != honest.Name+"/hp" {
		viol("confine", "honest-tunnel-broken", "honest tunnel no longer serves after the barrage: %q %v", res.ServedBy, res.Err)
	}
	fresh := env.newClient("fresh", 0)
	if rr, err := fresh.login(""); err != nil || mstr(rr, "error") != "" {
		viol("confine", "fresh-login-fails", "a fresh login after the barrage fails: %v %v", err, rr)
	} else if rr, got := fresh.register(M{"proxy_name": "fresh", "proxy_type": "tcp", "remote_port": 20019}); !got || mstr(rr, "error") != "" {
		if !got {
			viol("confine", "fresh-registration-unanswered", "a fresh registration after the barrage got no reply")
		}
	}
	w.SetSample(map[string]any{"peers": len(peers), "msgs": nmsgs, "mux": tcpMux})
	w.Nontrivial()
}
