package verifharness

import (
	"encoding/json"
	"fmt"
	"io"
	"net"
	"net/http"
	"sync"
	"sync/atomic"
	"time"

	"verif/sim/simnet"
)

// World "plugins" (C15): server plugins gate every operation, fail closed, and see
// each other's edits.

func init() { RegisterWorld("plugins", worldPlugins) }

const (
	poAccept = iota
	poRewrite
	poReject
	poHTTP500
	poReset
	poMalformed
	poUnreachable
)

var poNames = []string{"accept", "rewrite", "reject", "http500", "reset", "malformed", "unreachable"}

type pluginCall struct {
	Op      string
	Content M
	At      time.Duration
}

type stubPlugin struct {
	idx         int
	name        string
	addr        string
	ops         map[string]bool
	outcome     map[string]int
	unreachable bool
	mu          sync.Mutex
	calls       []pluginCall
	malSeq      int
}

func (p *stubPlugin) callsFor(op string) []pluginCall {
	p.mu.Lock()
	defer p.mu.Unlock()
	var out []pluginCall
	for _, c := range p.calls {
		if c.Op == op {
			out = append(out, c)
		}
	}
	return out
}

var pluginOps = []string{"Login", "NewProxy", "Ping", "NewWorkConn", "NewUserConn", "CloseProxy"}

func worldPlugins(w *World) {
	token := "plug-token"
	tcpMux := w.KnobBool("tcp_mux", 50)
	np := w.KnobPick("nplugins", 0, 1, 2, 3)
	var plugins []*stubPlugin
	var pcfg []map[string]any
	for i := 0; i < np; i++ {
		p := &stubPlugin{idx: i, name: fmt.Sprintf("pl%d", i), addr: fmt.Sprintf("10.0.4.%d:9000", i+1), ops: map[string]bool{}, outcome: map[string]int{}}
		var ops []string
		for _, op := range pluginOps {
			if w.KnobBool(fmt.Sprintf("pl%d.sub.%s", i, op), 60) {
				p.ops[op] = true
				ops = append(ops, op)
			}
			// most outcomes accept so that later operations are reached
			p.outcome[op] = w.KnobPick(fmt.Sprintf("pl%d.out.%s", i, op), poAccept, poAccept, poAccept, poRewrite, poRewrite, poReject, poHTTP500, poReset, poMalformed, poUnreachable)
		}
		if len(ops) == 0 {
			ops = []string{}
		}
		plugins = append(plugins, p)
		pcfg = append(pcfg, map[string]any{"name": p.name, "addr": p.addr, "path": "/handler", "ops": ops})
	}
	// a plugin that is unreachable for one op is unreachable as a whole (it is a host property)
	for _, p := range plugins {
		un := false
		for _, op := range pluginOps {
			if p.ops[op] && p.outcome[op] == poUnreachable {
				un = true
			}
		}
		for _, op := range pluginOps {
			if un {
				p.outcome[op] = poUnreachable
			} else if p.outcome[op] == poUnreachable {
				p.outcome[op] = poAccept // drawn for an operation the plugin is not subscribed to
			}
		}
		p.unreachable = un
	}
	// keyRewrite: heartbeats and work connections are authenticated per message, and a rewriting plugin edits
	// their key: 1 = the client's key is valid and a rewrite spoils it, 2 = the client's key is wrong and a rewrite
	// installs a valid one. What the server acts on must be the content as the last plugin left it.
	keyRewrite := 0
	if np > 0 {
		keyRewrite = w.KnobPick("key_rewrite", 0, 0, 1, 2)
	}
	// pingGate: a scenario of its own - the server's heartbeat timeout is on, the client does nothing but send
	// heartbeats. A heartbeat is an operation like the others: one that a plugin refuses (or that fails at a plugin)
	// does not count as a sign of life.
	pingGate := np > 0 && w.KnobBool("ping_gate_scenario", 15)
	hbT := -1
	if pingGate {
		hbT = w.KnobPick("ping_gate_timeout", 3, 5)
		keyRewrite = 0
	}
	auth := map[string]any{"token": token}
	if keyRewrite != 0 {
		auth["additionalScopes"] = []string{"HeartBeats", "NewWorkConns"}
	}
	scfg := map[string]any{
		"bindAddr": "10.0.0.1", "bindPort": 7000,
		"auth":            auth,
		"transport":       map[string]any{"tcpMux": tcpMux, "heartbeatTimeout": hbT},
		"allowPorts":      []map[string]any{{"start": 20000, "end": 20009}},
		"userConnTimeout": 3,
		"httpPlugins":     pcfg,
	}
	var overlapUsers atomic.Bool
	// plugin servers (real net/http on the simulated network)
	for _, p := range plugins {
		p := p
		if p.unreachable {
			continue
		}
		node := w.Net.NewNode(p.name, fmt.Sprintf("10.0.4.%d", p.idx+1))
		restore := node.Enter()
		ln, err := w.Net.Listen("tcp", p.addr)
		restore()
		if err != nil {
			w.Fail("plugin listen: %v", err)
		}
		srv := &http.Server{Handler: http.HandlerFunc(func(rw http.ResponseWriter, req *http.Request) {
			body, _ := io.ReadAll(req.Body)
			var rq struct {
				Version string `json:"version"`
				Op      string `json:"op"`
				Content M      `json:"content"`
			}
			json.Unmarshal(body, &rq)
			var snapshot struct {
				Content M `json:"content"`
			}
			json.Unmarshal(body, &snapshot) // private copy: the handler below edits rq.Content in place
			p.mu.Lock()
			p.calls = append(p.calls, pluginCall{rq.Op, snapshot.Content, w.Net.Now()})
			p.mu.Unlock()
			if rq.Op == "NewUserConn" && overlapUsers.Load() {
				time.Sleep(300 * time.Millisecond) // several user connections are before the plugins at the same time
			}
			if n, _ := snapshot.Content["proxy_name"].(string); rq.Op == "NewProxy" && n == "late" {
				time.Sleep(time.Second) // this registration takes a while: the session may be gone when the answer comes
			}
			switch p.outcome[rq.Op] {
			case poAccept:
				rw.Header().Set("Content-Type", "application/json")
				rw.Write([]byte(`{"reject":false,"unchange":true}`))
			case poRewrite:
				c := rq.Content
				if c == nil {
					c = M{}
				}
				switch rq.Op {
				case "Login":
					ms, _ := c["metas"].(map[string]any)
					if ms == nil {
						ms = map[string]any{}
					}
					ms["seen_"+p.name] = "1"
					c["metas"] = ms
				case "NewProxy":
					ms, _ := c["metas"].(map[string]any)
					if ms == nil {
						ms = map[string]any{}
					}
					ms["seen_"+p.name] = "1"
					delete(ms, "tier") // a rewrite may also remove what the client sent
					c["metas"] = ms
					c["remote_port"] = 20001 + p.idx
				case "Ping":
					c["timestamp"] = 1000 + p.idx
					if keyRewrite == 1 {
						c["privilege_key"] = "spoiled-by-" + p.name
					} else if keyRewrite == 2 {
						c["privilege_key"] = authKey(token, int64(1000+p.idx))
					}
				case "NewWorkConn":
					c["timestamp"] = 2000 + p.idx
					if keyRewrite == 1 {
						c["privilege_key"] = "spoiled-by-" + p.name
					} else if keyRewrite == 2 {
						c["privilege_key"] = authKey(token, int64(2000+p.idx))
					}
				case "NewUserConn":
					c["remote_addr"] = "rewritten-" + p.name
				}
				b, _ := json.Marshal(M{"reject": false, "unchange": false, "content": c})
				rw.Header().Set("Content-Type", "application/json")
				rw.Write(b)
			case poReject:
				rw.Write([]byte(`{"reject":true,"reject_reason":"rejected by ` + p.name + `"}`))
			case poHTTP500:
				rw.WriteHeader(500)
				rw.Write([]byte(`{"reject":false,"unchange":true}`))
			case poReset:
				if hj, ok := rw.(http.Hijacker); ok {
					c, _, _ := hj.Hijack()
					if sc, ok := c.(*simnet.Conn); ok {
						sc.Reset()
					} else {
						c.Close()
					}
				}
			case poMalformed:
				// bodies that are not one well-formed reply object; the variant is drawn per call
				p.mu.Lock()
				p.malSeq++
				k := simnet.NewRand(w.In.Seed, fmt.Sprintf("malformed%d.%d", p.idx, p.malSeq)).Intn(7)
				p.mu.Unlock()
				rw.Write([]byte([]string{
					`{"reject": fal`,
					`{"reject":false,"unchange":true} upstream error: connection reset`,
					`{"reject":false,"unchange":true}{"reject":true,"reject_reason":"second object"}`,
					``,
					`OK`,
					`[{"reject":false,"unchange":true}]`,
					`{"reject":"no","unchange":true}`,
				}[k]))
			}
		})}
		node.Go(func() { srv.Serve(ln) })
	}
	env := w.newLcEnv(scfg, token, PeerOpts{Server: "10.0.0.1:7000", Mux: tcpMux, Token: token})
	env.start()
	viol := func(oracle, sig, f string, a ...any) { w.Violate("C15", oracle, sig, f, a...) }

	// expectation for one operation: which plugins are called, whether it passes
	type exp struct {
		called []*stubPlugin
		pass   bool
		stopAt *stubPlugin
	}
	expect := func(op string) exp {
		var e exp
		e.pass = true
		for _, p := range plugins {
			if !p.ops[op] {
				continue
			}
			if p.outcome[op] != poUnreachable {
				e.called = append(e.called, p)
			}
			if o := p.outcome[op]; o != poAccept && o != poRewrite {
				e.pass = false
				e.stopAt = p
				break
			}
		}
		return e
	}
	// keyValid: is the key of a heartbeat / work connection valid once the chain of plugins has run?
	keyValid := func(e exp, op string) bool {
		rewritten := false
		for _, p := range e.called {
			if p.outcome[op] == poRewrite {
				rewritten = true
			}
		}
		switch keyRewrite {
		case 1:
			return !rewritten
		case 2:
			return rewritten
		}
		return true
	}
	marks := map[string]int{}
	snap := func() {
		for _, p := range plugins {
			for _, op := range pluginOps {
				marks[p.name+"/"+op] = len(p.callsFor(op))
			}
		}
	}
	// verify calls made since snap() for one operation
	verify := func(op string, e exp, effect bool, what string) {
		w.Check("C15." + op)
		if e.pass && (op == "Ping" || op == "NewWorkConn") && keyRewrite != 0 {
			// every plugin accepts: what decides is the key as the last rewrite left it
			w.Check("C15.server-acts-on-last-edit")
			if kv := keyValid(e, op); effect != kv {
				viol("thread", "server-ignores-rewrite-"+op, "%s: every plugin accepted; the key of the message as the plugins left it is valid=%v (client sent a %s key, rewriting plugins %s) but the operation took effect=%v",
					what, kv, map[int]string{1: "valid", 2: "wrong"}[keyRewrite], map[int]string{1: "spoil it", 2: "install a valid one"}[keyRewrite], effect)
			}
		} else if effect != e.pass {
			if effect {
				why := "?"
				if e.stopAt != nil {
					why = fmt.Sprintf("%s answers %s", e.stopAt.name, poNames[e.stopAt.outcome[op]])
				}
				viol("gate", "allowed-although-plugin-failed-"+op, "%s took effect although %s", what, why)
			} else {
				viol("gate", "refused-although-all-plugins-accepted-"+op, "%s was refused although every subscribed plugin accepts", what)
			}
		}
		calledSet := map[*stubPlugin]bool{}
		for _, p := range e.called {
			calledSet[p] = true
		}
		var prevRewrite *stubPlugin
		for _, p := range plugins {
			n := len(p.callsFor(op)) - marks[p.name+"/"+op]
			if calledSet[p] && n == 0 {
				viol("consult", "subscribed-plugin-not-consulted-"+op, "%s: plugin %s is subscribed to %s and precedes any failure but was not called", what, p.name, op)
			}
			if !calledSet[p] && n > 0 {
				if !p.ops[op] {
					viol("consult", "unsubscribed-plugin-consulted-"+op, "%s: plugin %s is not subscribed to %s but was called", what, p.name, op)
				} else {
					viol("consult", "consulted-after-failure-"+op, "%s: plugin %s was called for %s although an earlier plugin had refused/failed", what, p.name, op)
				}
			}
			if calledSet[p] && n > 0 {
				calls := p.callsFor(op)
				last := calls[len(calls)-1]
				if prevRewrite != nil {
					// the edit of the previous rewriting plugin must be visible
					ok := true
					switch op {
					case "Login", "NewProxy":
						ms, _ := last.Content["metas"].(map[string]any)
						ok = ms != nil && ms["seen_"+prevRewrite.name] == "1"
						if op == "NewProxy" {
							if rp, _ := last.Content["remote_port"].(float64); int(rp) != 20001+prevRewrite.idx {
								ok = false
							}
							if _, still := ms["tier"]; still {
								ok = false // the previous plugin removed this key
							}
						}
					case "Ping":
						ts, _ := last.Content["timestamp"].(float64)
						ok = int(ts) == 1000+prevRewrite.idx
					case "NewWorkConn":
						ts, _ := last.Content["timestamp"].(float64)
						ok = int(ts) == 2000+prevRewrite.idx
					case "NewUserConn":
						ok = last.Content["remote_addr"] == "rewritten-"+prevRewrite.name
					}
					if !ok {
						viol("thread", "edit-not-passed-on-"+op, "%s: plugin %s did not see the content rewritten by %s: %v", what, p.name, prevRewrite.name, last.Content)
					}
				}
				if p.outcome[op] == poRewrite {
					prevRewrite = p
				}
			}
		}
	}

	c := env.newClient("pu", 0)
	pingToken := token
	if keyRewrite == 2 {
		pingToken, c.WorkKey = "not-the-token", "not-the-token"
	}
	snap()
	e := expect("Login")
	resp, err := c.login("")
	ok := err == nil && mstr(resp, "error") == ""
	verify("Login", e, ok, "login")
	if !ok {
		w.SetSample(map[string]any{"plugins": np, "stopped": "login"})
		w.Nontrivial()
		return
	}
	if pingGate {
		w.Check("C15.refused-heartbeats-are-no-sign-of-life")
		ep := expect("Ping")
		loggedIn := w.Net.Now()
		stop := make(chan struct{})
		c.Node.Go(func() {
			for {
				select {
				case <-stop:
					return
				case <-time.After(500 * time.Millisecond):
					if c.IsClosed() {
						return
					}
					c.Ping(true, token)
				}
			}
		})
		closed := c.WaitClosed(time.Duration(hbT)*time.Second + 12*time.Second)
		close(stop)
		if ep.pass && closed {
			viol("gate", "session-with-accepted-heartbeats-closed", "every subscribed plugin accepts heartbeats, one was sent every 500 ms, heartbeatTimeout %ds: the server closed the session %v after the login", hbT, c.ClosedAt-loggedIn)
		}
		if !ep.pass && !closed {
			why := "?"
			if ep.stopAt != nil {
				why = fmt.Sprintf("%s answers %s", ep.stopAt.name, poNames[ep.stopAt.outcome["Ping"]])
			}
			viol("gate", "refused-heartbeats-keep-session-alive", "every heartbeat of the session is refused (%s), heartbeatTimeout %ds: the session is still open %v after the login", why, hbT, w.Net.Now()-loggedIn)
		}
		w.SetSample(map[string]any{"plugins": np, "scenario": "ping-gate", "accepted": ep.pass})
		w.Nontrivial()
		return
	}
	// NewProxy
	snap()
	e = expect("NewProxy")
	rr, got := c.register(M{"proxy_name": "pp", "proxy_type": "tcp", "remote_port": 20000, "metas": M{"tier": "gold"}})
	regOK := got && mstr(rr, "error") == ""
	verify("NewProxy", e, regOK, "proxy registration")
	port := 20000
	if regOK {
		for _, p := range e.called {
			if p.outcome["NewProxy"] == poRewrite {
				port = 20001 + p.idx
			}
		}
		w.Check("C15.server-acts-on-last-edit")
		if rp := portOf(mstr(rr, "remote_addr")); rp != port || !env.frpsTCPPorts()[port] {
			viol("thread", "server-ignores-rewrite-NewProxy", "plugins rewrote remote_port to %d but the proxy reports %q and bound ports are %v", port, mstr(rr, "remote_addr"), env.frpsTCPPorts())
		}
		// a login rewrite must be what later operations see
		for _, p := range plugins {
			if p.ops["NewProxy"] && len(p.callsFor("NewProxy")) > 0 {
				last := p.callsFor("NewProxy")
				u, _ := last[len(last)-1].Content["user"].(map[string]any)
				var lastLoginRw *stubPlugin
				for _, q := range expect("Login").called {
					if q.outcome["Login"] == poRewrite {
						lastLoginRw = q
					}
				}
				if lastLoginRw != nil {
					ms, _ := u["metas"].(map[string]any)
					if ms == nil || ms["seen_"+lastLoginRw.name] != "1" {
						viol("thread", "server-ignores-rewrite-Login", "login content rewritten by %s is not what later operations carry: user=%v", lastLoginRw.name, u)
					}
				}
				break
			}
		}
	} else if env.frpsTCPPorts()[20000] || len(env.frpsTCPPorts()) > 0 {
		viol("gate", "refused-proxy-left-port-bound", "registration refused but ports %v are bound", env.frpsTCPPorts())
	}
	// Ping
	snap()
	e = expect("Ping")
	from := len(c.Inbox)
	c.Ping(true, pingToken)
	m, gotPong := c.WaitMsg(10*time.Second, func(m RecvMsg) bool { return m.Seq >= from && m.Type == tPong })
	pongOK := false
	if gotPong {
		pr := M{}
		json.Unmarshal(m.Body, &pr)
		pongOK = mstr(pr, "error") == ""
	}
	verify("Ping", e, pongOK, "heartbeat")
	// user connection + work connection
	if regOK {
		snap()
		eu := expect("NewUserConn")
		ew := expect("NewWorkConn")
		reqBefore := c.ReqWorkCount()
		res := env.probeTCP(fmt.Sprintf("10.0.0.1:%d", port), 8*time.Second)
		served := res.ServedBy == c.Name+"/pp"
		// a user connection that passed its gate makes the server ask the client for a work connection
		verify("NewUserConn", eu, served || c.ReqWorkCount() > reqBefore, "user connection")
		if eu.pass {
			verify("NewWorkConn", ew, served, "work connection")
		}
		// several users arrive at the same moment, each decision takes the plugins a while: every plugin in the chain
		// is asked about every one of these connections - about that connection, not about its neighbour
		if w.KnobBool("concurrent_user_conns", 60) {
			w.Check("C15.NewUserConn-concurrent")
			w.Probe("plugins.concurrent_user_conns")
			snap()
			eu := expect("NewUserConn")
			overlapUsers.Store(true)
			addrs := map[string]bool{}
			var ucs []net.Conn
			for i := 0; i < w.KnobPick("concurrent_users", 2, 3, 5); i++ {
				uc, err := simnet.DialFrom(fmt.Sprintf("10.0.3.%d", 100+i), fmt.Sprintf("10.0.0.1:%d", port), 5*time.Second)
				if err != nil {
					continue
				}
				addrs[uc.LocalAddr().String()] = true
				ucs = append(ucs, uc)
			}
			time.Sleep(time.Duration(1+len(plugins)) * time.Second)
			overlapUsers.Store(false)
			for _, p := range eu.called {
				seen := map[string]int{}
				for _, cl := range p.callsFor("NewUserConn")[marks[p.name+"/NewUserConn"]:] {
					ra, _ := cl.Content["remote_addr"].(string)
					seen[ra]++
				}
				for a := range addrs {
					if seen[a] != 1 {
						viol("consult", "userconn-plugin-asked-about-wrong-connection", "%d users connected at the same moment from %v; plugin %s was asked %d times about %s (all its NewUserConn requests: %v)", len(addrs), sortedKeys(addrs), p.name, seen[a], a, seen)
						break
					}
				}
				if p.outcome["NewUserConn"] == poRewrite {
					break // what later plugins see is this plugin's edit
				}
			}
			for _, uc := range ucs {
				uc.Close()
			}
			time.Sleep(500 * time.Millisecond)
		}
		// explicit close notifies every subscribed plugin
		snap()
		c.CloseProxy("pp")
		from := len(c.Inbox)
		c.Ping(true, token)
		c.WaitMsg(10*time.Second, func(m RecvMsg) bool { return m.Seq >= from && m.Type == tPong })
		time.Sleep(time.Second)
		w.Check("C15.CloseProxy")
		for _, p := range plugins {
			if p.ops["CloseProxy"] && p.outcome["CloseProxy"] != poUnreachable {
				if len(p.callsFor("CloseProxy"))-marks[p.name+"/CloseProxy"] == 0 {
					viol("notify", "close-not-notified-explicit", "proxy closed explicitly: plugin %s got no CloseProxy notification", p.name)
				}
			} else if len(p.callsFor("CloseProxy"))-marks[p.name+"/CloseProxy"] > 0 {
				viol("consult", "unsubscribed-plugin-consulted-CloseProxy", "plugin %s is not subscribed to CloseProxy but was notified", p.name)
			}
		}
		// session end notifies too: once for every proxy that stops, each under its own name
		var ended []string
		for i, n := range []string{"pp2", "pp3", "pp4"}[:w.KnobPick("session_end_proxies", 1, 2, 3)] {
			if rr, got := c.register(M{"proxy_name": n, "proxy_type": "tcp", "remote_port": 20009 - i}); got && mstr(rr, "error") == "" {
				ended = append(ended, n)
			}
		}
		// ... and a registration may still be with the plugins when the session ends: whatever becomes of it, no proxy
		// of the ended session may be left running without its end being notified
		lateSent := false
		if len(ended) > 0 && len(expect("NewProxy").called) > 0 && w.KnobBool("registration_in_flight_at_session_end", 50) {
			lateSent = true
			w.Probe("plugins.registration_in_flight_at_session_end")
			c.Send(tNewProxy, M{"proxy_name": "late", "proxy_type": "tcp", "remote_port": 20005})
			time.Sleep(200 * time.Millisecond)
		}
		if len(ended) > 0 {
			snap()
			c.Drop()
			time.Sleep(3 * time.Second)
			if lateSent {
				time.Sleep(time.Duration(len(plugins)) * time.Second)
				w.Check("C15.no-proxy-outlives-its-session-unnotified")
				if env.frpsTCPPorts()[20005] {
					n := 0
					for _, p := range plugins {
						for _, cl := range p.callsFor("CloseProxy") {
							if nm, _ := cl.Content["proxy_name"].(string); nm == "late" {
								n++
							}
						}
					}
					viol("notify", "proxy-outlives-session-unnotified", "a registration was still with the plugins when its session ended; the proxy was started afterwards, its port is bound %d s after the session's end, CloseProxy notifications for it: %d", 3+len(plugins), n)
				}
			}
			for _, p := range plugins {
				if p.ops["CloseProxy"] && p.outcome["CloseProxy"] != poUnreachable {
					seen := map[string]int{}
					for _, cl := range p.callsFor("CloseProxy")[marks[p.name+"/CloseProxy"]:] {
						n, _ := cl.Content["proxy_name"].(string)
						seen[n]++
					}
					for _, n := range ended {
						if seen[n] == 0 {
							viol("notify", "close-not-notified-session-end", "session with proxies %v ended: plugin %s got no CloseProxy notification for proxy %s (it saw %v)", ended, p.name, n, seen)
						}
					}
				}
			}
		}
	}
	outs := map[string]string{}
	for _, p := range plugins {
		for _, op := range pluginOps {
			if p.ops[op] {
				outs[p.name+"/"+op] = poNames[p.outcome[op]]
			}
		}
	}
	w.SetSample(map[string]any{"plugins": np, "outcomes": outs})
	w.Nontrivial()
}

func anyCalls(ps []*stubPlugin, op string, marks map[string]int) bool {
	for _, p := range ps {
		if len(p.callsFor(op))-marks[p.name+"/"+op] > 0 {
			return true
		}
	}
	return false
}
