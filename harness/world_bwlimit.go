package verifharness

import (
	"fmt"
	"io"
	"net"
	"time"

	"verif/sim/simnet"
)

// World "bwlimit" (C01, bandwidth clause): small limits against large single writes.
// One tcp proxy with a limit of 2-32 KB/s on the client or the server side; one connection moves
// 100-600 KB in each direction, written in large blocks; every delivery at both endpoints is
// time-stamped and every interval is compared with limit x dt + burst + in-flight slack; content is
// compared byte for byte as well.

func init() { RegisterWorld("bwlimit", worldBwlimit) }

func worldBwlimit(w *World) {
	viol := func(oracle, sig, f string, a ...any) { w.Violate("C01", oracle, sig, f, a...) }
	token := "bw-token"
	limitKB := w.KnobPick("limit_kb", 2, 4, 8, 16, 32)
	mode := []string{"client", "server"}[w.Knob("limit_mode", 0, 1)]
	tcpMux := w.KnobBool("tcp_mux", 50)
	enc := w.KnobBool("enc", 30)
	block := w.KnobPick("write_block_kb", 1, 16, 64, 256)
	szA := w.KnobPick("a_kb", 0, 100, 300, 600)
	szB := w.KnobPick("b_kb", 0, 100, 300, 600)
	if szA == 0 && szB == 0 {
		szB = 300
	}
	scfg := map[string]any{"bindAddr": "10.0.0.1", "bindPort": 7000, "auth": map[string]any{"token": token},
		"transport": map[string]any{"tcpMux": tcpMux}, "allowPorts": []map[string]any{{"start": 20000, "end": 20009}}}
	tap := w.Net.TapListener("10.0.0.1:7000", 64<<20)
	if _, err := w.StartFrps(w.Frps, scfg); err != nil {
		w.Fail("frps: %v", err)
	}
	c1 := w.Net.NewNode("frpc1", "10.0.1.1")
	if _, err := w.StartFrpc(c1, map[string]any{"serverAddr": "10.0.0.1", "serverPort": 7000, "loginFailExit": false,
		"auth": map[string]any{"token": token}, "transport": map[string]any{"tcpMux": tcpMux, "connectServerLocalIP": "10.0.1.1", "poolCount": w.KnobPick("pool", 0, 1), "tls": map[string]any{"enable": false}},
		"proxies": []map[string]any{{"name": "bw", "type": "tcp", "localIP": "127.0.0.1", "localPort": 9700, "remotePort": 20001,
			"transport": map[string]any{"useEncryption": enc, "bandwidthLimit": fmt.Sprintf("%dKB", limitKB), "bandwidthLimitMode": mode}}}}); err != nil {
		w.Fail("frpc: %v", err)
	}
	// keep a run below a minute of limited transfer per direction and within the step budget of tiny segment sizes
	capB := func(kb int) int {
		n := kb * 1024
		if m := limitKB * 1024 * 60; n > m {
			n = m
		}
		if m := w.Net.Cfg().MSS * 20000; n > m {
			n = m
		}
		return n
	}
	A := genStream(newSubRand(w, "bwA"), capB(szA), 0) // user -> backend
	B := genStream(newSubRand(w, "bwB"), capB(szB), 0) // backend -> user
	var evA, evB []deliveryEv                          // deliveries at the backend / at the user
	recv := func(c net.Conn, want []byte, evs *[]deliveryEv, who string) {
		buf := make([]byte, 64*1024)
		got := 0
		for got < len(want) {
			n, err := c.Read(buf)
			if n > 0 {
				if got+n > len(want) || string(buf[:n]) != string(want[got:got+n]) {
					viol("content", "bytes-differ-"+who, "%s: bytes at offset %d differ from what was written", who, got)
					return
				}
				got += n
				*evs = append(*evs, deliveryEv{w.Net.Now(), n})
			}
			if err != nil {
				break
			}
		}
		if got != len(want) {
			viol("content", "incomplete-"+who, "%s received %d of %d bytes", who, got, len(want))
		}
	}
	send := func(c net.Conn, data []byte) {
		for len(data) > 0 {
			k := block * 1024
			if k > len(data) {
				k = len(data)
			}
			if _, err := c.Write(data[:k]); err != nil {
				return
			}
			data = data[k:]
		}
	}
	ln, _ := w.Net.Listen("tcp", "127.0.0.1:9700")
	bdone := make(chan struct{})
	w.Backend.Go(func() {
		c, err := ln.Accept()
		if err != nil {
			return
		}
		go send(c, B)
		recv(c, A, &evA, "backend")
		close(bdone)
	})
	if !w.WaitUntil(60*time.Second, 100*time.Millisecond, func() bool { return w.FrpLogContains("[bw] start proxy success") }) {
		viol("startup", "proxy-not-up", "proxy not up in 60 s")
		return
	}
	time.Sleep(time.Second)
	conn, err := simnet.DialFrom("10.0.3.90", "10.0.0.1:20001", 10*time.Second)
	if err != nil {
		viol("startup", "cannot-connect", "user connection refused: %v", err)
		return
	}
	go send(conn, A)
	udone := make(chan struct{})
	go func() { recv(conn, B, &evB, "user"); close(udone) }()
	limit := float64(limitKB * 1024)
	budget := time.Duration(float64(len(A)+len(B))/limit*1.5*float64(time.Second)) + 120*time.Second
	tm := time.After(budget)
	for _, ch := range []chan struct{}{udone, bdone} {
		select {
		case <-ch:
		case <-tm:
			viol("progress", "transfer-stalled", "transfer of %d+%d bytes at %d KB/s not finished after %v", len(A), len(B), limitKB, budget)
			return
		}
	}
	conn.Close()
	w.Check("C01.bandwidth-small-limit")
	// Where to measure. The limiter sits on the work connection of the enforcing side: what that side writes is
	// metered by limit.Writer (measured at the instant of the write on the client-server path, because with stream
	// multiplexing the receiving mux may hold back a backlog and release it later, which is buffering downstream of
	// the limiter and not the limiter's doing), what it reads by limit.Reader (measured where the bytes are delivered:
	// only a copy buffer and an always-drained connection lie in between).
	var wire []deliveryEv
	side := 0 // client mode: what frpc writes towards frps
	if mode == "server" {
		side = 1
	}
	if tcpMux {
		wire = muxPayloadEvents(tap, side)
	} else {
		for _, ch := range tap.Chunks {
			if ch.Side == side {
				wire = append(wire, deliveryEv{ch.At, len(ch.Data)})
			}
		}
	}
	readSide, readName := evA, "user->backend at the backend" // client mode: frpc reads A from the work connection
	if mode == "server" {
		readSide, readName = evB, "backend->user at the user"
	}
	// one burst (= limit bytes), copy buffers downstream of the reader (2 x 32 KiB), mux/control overhead on the path
	allow := limit + 2*32*1024 + 16*1024
	both := append(append([]deliveryEv{}, wire...), readSide...)
	for i := 1; i < len(both); i++ {
		for j := i; j > 0 && both[j].t < both[j-1].t; j-- {
			both[j], both[j-1] = both[j-1], both[j]
		}
	}
	for _, d := range []struct {
		who string
		evs []deliveryEv
	}{{"written by the enforcing side on the client-server path", wire}, {readName, readSide}, {"both directions together", both}} {
		if len(d.evs) == 0 {
			continue
		}
		ok, worst, at := checkBandwidth(d.evs, limit, allow)
		if !ok {
			viol("bandwidth", "limit-exceeded-"+mode, "limit %d KB/s (%s side), %s, write blocks %d KB: an interval ending at %v carried %.0f bytes more than limit*dt + %.0f",
				limitKB, mode, d.who, block, at, worst-allow, allow)
		}
	}
	w.SetSample(map[string]any{"limit_kb": limitKB, "mode": mode, "block_kb": block, "a": len(A), "b": len(B), "mux": tcpMux, "enc": enc})
	w.Nontrivial()
	_ = io.EOF
}

// muxPayloadEvents re-parses the multiplexer framing (12-byte header: version, type, flags, stream id, length) of
// everything one side wrote on the tapped connections and returns the payload bytes of data frames, time-stamped
// with the write that carried them (the limiter meters stream payload, not frame headers).
func muxPayloadEvents(tap *simnet.Tap, side int) []deliveryEv {
	type st struct {
		hdr  []byte
		left int
	}
	states := map[int]*st{}
	var out []deliveryEv
	for _, ch := range tap.Chunks {
		if ch.Side != side {
			continue
		}
		s := states[ch.Conn]
		if s == nil {
			s = &st{}
			states[ch.Conn] = s
		}
		data := ch.Data
		n := 0
		for len(data) > 0 {
			if s.left > 0 {
				k := s.left
				if k > len(data) {
					k = len(data)
				}
				n += k
				s.left -= k
				data = data[k:]
				continue
			}
			need := 12 - len(s.hdr)
			if need > len(data) {
				need = len(data)
			}
			s.hdr = append(s.hdr, data[:need]...)
			data = data[need:]
			if len(s.hdr) == 12 {
				if s.hdr[1] == 0 { // data frame
					s.left = int(s.hdr[8])<<24 | int(s.hdr[9])<<16 | int(s.hdr[10])<<8 | int(s.hdr[11])
				}
				s.hdr = s.hdr[:0]
			}
		}
		if n > 0 {
			out = append(out, deliveryEv{ch.At, n})
		}
	}
	return out
}
