package verifharness

import (
	"bytes"
	"encoding/json"
	"fmt"
	"io"
	"net"
	"net/http"
	"sort"
	"strings"
	"sync"
	"time"

	"verif/sim/simnet"
)

// World "client" (C19): real frpc against a scripted server; configuration
// reloads and backend health changes.

func init() { RegisterWorld("client", worldClient) }

func worldClient(w *World) {
	if w.KnobBool("health_scenario", 45) {
		clientHealth(w)
		return
	}
	clientReload(w)
}

type srvModel struct {
	mu        sync.Mutex
	newProxy  map[string][]time.Duration // times NewProxy was received per name
	closeProx map[string][]time.Duration
	lastBody  map[string]string
	reg       map[string]bool // registered at the server: last NewProxy answered with success and no CloseProxy since
	policy    map[string]int  // 0 success, 1 error forever, 2 error k times then success, 3 late, 4 never
	errLeft   map[string]int
}

func clientReload(w *World) {
	viol := func(oracle, sig, f string, a ...any) { w.Violate("C19", oracle, sig, f, a...) }
	token := "cl-token"
	r := w.R
	srv := w.NewScriptServer("10.0.0.1:7000", token)
	m := &srvModel{newProxy: map[string][]time.Duration{}, closeProx: map[string][]time.Duration{}, lastBody: map[string]string{}, reg: map[string]bool{}, policy: map[string]int{}, errLeft: map[string]int{}}
	srv.OnNewProxy = func(s *SrvSession, pm M) (M, time.Duration, bool) {
		name := mstr(pm, "proxy_name")
		m.mu.Lock()
		defer m.mu.Unlock()
		m.newProxy[name] = append(m.newProxy[name], w.Net.Now())
		b, _ := json.Marshal(pm)
		m.lastBody[name] = string(b)
		switch m.policy[name] {
		case 1:
			return M{"proxy_name": name, "error": "scripted error"}, 0, true
		case 2:
			if m.errLeft[name] > 0 {
				m.errLeft[name]--
				return M{"proxy_name": name, "error": "scripted transient error"}, 0, true
			}
		case 3:
			m.reg[name] = true
			return M{"proxy_name": name, "remote_addr": ":1"}, time.Duration(2+len(name)%5) * time.Second, true
		case 4:
			return nil, 0, false
		}
		m.reg[name] = true
		return M{"proxy_name": name, "remote_addr": ":1"}, 0, true
	}
	srv.OnMsg = func(s *SrvSession, x RecvMsg) {
		if x.Type == tCloseProxy {
			cm := M{}
			json.Unmarshal(x.Body, &cm)
			n := mstr(cm, "proxy_name")
			m.mu.Lock()
			m.closeProx[n] = append(m.closeProx[n], x.At)
			m.reg[n] = false
			m.mu.Unlock()
		}
	}
	if err := srv.Start(); err != nil {
		w.Fail("%v", err)
	}
	names := []string{"a", "b", "c", "d", "e", "f"}
	for _, n := range names {
		m.policy[n] = w.KnobPick("policy."+n, 0, 0, 0, 0, 1, 2, 3, 4)
		m.errLeft[n] = r.Range(1, 2)
	}
	// the udp proxy's backend may be given by a name that does not resolve for the time being: the server accepts the
	// registration, the client then fails to start the proxy locally. Such a proxy is not running, so it must not stay
	// registered; it is tried again later and comes up once the name resolves.
	healthChecked := w.KnobBool("health_checked_proxies", 40)
	localFail := w.KnobBool("local_start_failure", 30)
	if localFail {
		m.policy["c"] = 0
	}
	// backend
	ln, _ := w.Net.Listen("tcp", "127.0.0.1:9400")
	var bmu sync.Mutex
	backendConns := 0
	w.Backend.Go(func() {
		for {
			c, err := ln.Accept()
			if err != nil {
				return
			}
			// (a tcp health check of a live proxy connects here too, says nothing and leaves: what counts as "the
			// backend was contacted" on behalf of a user is a connection that delivers something)
			go func() {
				defer c.Close()
				buf := make([]byte, 4096)
				first := true
				for {
					n, err := c.Read(buf)
					if n > 0 {
						if first {
							first = false
							bmu.Lock()
							backendConns++
							bmu.Unlock()
						}
						c.Write(buf[:n])
					}
					if err != nil {
						return
					}
				}
			}()
		}
	})
	mkProxy := func(name string, variant int) map[string]any {
		typ := []string{"tcp", "tcp", "udp", "stcp", "http"}[int(name[0]-'a')%5]
		p := map[string]any{"name": name, "type": typ, "localIP": "127.0.0.1", "localPort": 9400}
		if name == "c" && localFail {
			p["localIP"] = "backend.sim.test"
		}
		if healthChecked && (name == "a" || name == "f") {
			// a health check with nothing but its type: interval, timeout and failure count are the defaults
			p["healthCheck"] = map[string]any{"type": "tcp"}
		}
		switch typ {
		case "tcp", "udp":
			p["remotePort"] = 21000 + int(name[0]-'a') + 100*variant
		case "stcp":
			p["secretKey"] = fmt.Sprintf("k%d", variant)
		case "http":
			p["customDomains"] = []string{fmt.Sprintf("%s%d.example.test", name, variant)}
		}
		if variant >= 2 {
			p["transport"] = map[string]any{"useEncryption": true}
		}
		if w.In.Property == "C16" && typ == "tcp" {
			// C16 batch: the tcp proxies announce their users to the backend with a PROXY protocol header built from
			// what the server says about the user
			tr, _ := p["transport"].(map[string]any)
			if tr == nil {
				tr = map[string]any{}
			}
			tr["proxyProtocolVersion"] = []string{"v1", "v2"}[int(name[0]-'a')%2]
			p["transport"] = tr
		}
		return p
	}
	type cfgSet map[string]int // name -> variant
	genSet := func() cfgSet {
		s := cfgSet{}
		for _, n := range names {
			if r.Intn(3) != 0 {
				s[n] = r.Intn(3)
			}
		}
		return s
	}
	// visitors are part of the configuration too: three stcp visitors, variants differ in the bind port
	vnames := []string{"va", "vb", "vc"}
	vport := func(n string, variant int) int { return 6600 + int(n[1]-'a') + 10*variant }
	genVis := func() cfgSet {
		s := cfgSet{}
		for _, n := range vnames {
			if r.Intn(3) != 0 {
				s[n] = r.Intn(3)
			}
		}
		return s
	}
	curVis := genVis()
	toJSON := func(s cfgSet) map[string]any {
		var ps []map[string]any
		var ks []string
		for n := range s {
			ks = append(ks, n)
		}
		sort.Strings(ks)
		if r.Intn(2) == 0 { // order must not matter
			for i, j := 0, len(ks)-1; i < j; i, j = i+1, j-1 {
				ks[i], ks[j] = ks[j], ks[i]
			}
		}
		for _, n := range ks {
			ps = append(ps, mkProxy(n, s[n]))
		}
		return map[string]any{"serverAddr": "10.0.0.1", "serverPort": 7000, "loginFailExit": false,
			"auth":      map[string]any{"token": token},
			"transport": map[string]any{"tcpMux": false, "connectServerLocalIP": "10.0.1.1", "tls": map[string]any{"enable": false}, "poolCount": 1},
			"proxies":   ps, "visitors": func() []map[string]any {
				var vs []map[string]any
				var ks []string
				for n := range curVis {
					ks = append(ks, n)
				}
				sort.Strings(ks)
				for _, n := range ks {
					vs = append(vs, map[string]any{"name": n, "type": "stcp", "serverName": "srv-" + n, "secretKey": "k", "bindAddr": "10.0.1.1", "bindPort": vport(n, curVis[n])})
				}
				return vs
			}()}
	}
	// one visitor of the first configuration may be unable to start: somebody else holds its port
	blockedPort := 0
	if len(curVis) > 0 && w.KnobBool("visitor_port_taken", 50) {
		var ks []string
		for n := range curVis {
			ks = append(ks, n)
		}
		sort.Strings(ks)
		n := ks[r.Intn(len(ks))]
		blockedPort = vport(n, curVis[n])
		w.Net.SquatPort("tcp", fmt.Sprintf("10.0.1.1:%d", blockedPort), true)
	}
	cur := genSet()
	c1 := w.Net.NewNode("frpc1", "10.0.1.1")
	fc, err := w.StartFrpc(c1, toJSON(cur))
	if err != nil {
		w.Fail("frpc: %v", err)
	}
	ss := srv.WaitSession(1, 30*time.Second)
	if ss == nil {
		viol("startup", "client-never-logged-in", "frpc did not log in to the scripted server")
		return
	}
	absorb := func() {} // messages are folded into the model in arrival order by OnMsg
	var history []string
	nreloads := w.KnobPick("nreloads", 1, 3, 6)
	for i := 0; i < nreloads; i++ {
		// at an arbitrary moment relative to outstanding replies
		time.Sleep(time.Duration([]int{0, 50, 700, 3500, 25000, 70000}[r.Intn(6)]) * time.Millisecond)
		absorb()
		next := genSet()
		curVis = genVis()
		// what is running and untouched by this reload must see no message at all
		m.mu.Lock()
		untouched := map[string][2]int{}
		for n, v := range cur {
			if localFail && n == "c" {
				continue // registered for a moment at most, never running while its backend name does not resolve
			}
			if nv, ok := next[n]; ok && nv == v && m.reg[n] && (m.policy[n] == 0) {
				untouched[n] = [2]int{len(m.newProxy[n]), len(m.closeProx[n])}
			}
		}
		m.mu.Unlock()
		pj := toJSON(next)
		_, pcs, vcs, err := LoadClientCfg(pj)
		if err != nil {
			w.Fail("cfg: %v", err)
		}
		history = append(history, fmt.Sprintf("t=%.1f reload %v", w.Net.Now().Seconds(), next))
		w.Probe("client.reload")
		if err := fc.Svc.UpdateAllConfigurer(pcs, vcs); err != nil {
			viol("reload", "reload-error", "UpdateAllConfigurer: %v", err)
		}
		time.Sleep(4 * time.Second)
		absorb()
		w.Check("C19.unchanged-untouched")
		m.mu.Lock()
		for n, cnt := range untouched {
			if len(m.newProxy[n]) != cnt[0] || len(m.closeProx[n]) != cnt[1] {
				viol("reload", "unchanged-proxy-reregistered", "proxy %s is identical in both configurations and was running, yet the server saw %d NewProxy and %d CloseProxy for it after the reload; history: %v",
					n, len(m.newProxy[n])-cnt[0], len(m.closeProx[n])-cnt[1], history)
			}
		}
		m.mu.Unlock()
		cur = next
	}
	if localFail {
		time.Sleep(8 * time.Second)
		w.Check("C19.not-running-not-registered")
		m.mu.Lock()
		if _, ok := cur["c"]; ok && len(m.newProxy["c"]) > 0 {
			w.Probe("client.local_start_failure")
			if last := m.newProxy["c"][len(m.newProxy["c"])-1]; w.Net.Now()-last > 5*time.Second && m.reg["c"] {
				viol("converge", "registered-although-local-start-failed", "udp proxy c cannot start at the client (its local address does not resolve) but %v after its registration was accepted it is still registered at the server; NewProxy at %v CloseProxy at %v",
					w.Net.Now()-last, m.newProxy["c"], m.closeProx["c"])
			}
		}
		m.mu.Unlock()
		simnet.Hosts["backend.sim.test"] = "127.0.0.1"
	}
	// convergence: bounded by the wrapper's wait (20 s) / retry (30 s) / check (3 s) intervals, twice over
	time.Sleep(110 * time.Second)
	absorb()
	checkConverged := func(when string) {
		w.Check("C19.converges-to-last-config")
		m.mu.Lock()
		for _, n := range names {
			v, want := cur[n]
			switch m.policy[n] {
			case 1, 4:
				want = false // the server never lets it register
			}
			if want != m.reg[n] {
				viol("converge", fmt.Sprintf("registered-set-differs-want-%v", want), "proxy %s (policy %d): configured=%v, registered at the server=%v after 110 s (%s); NewProxy at %v CloseProxy at %v; history: %v",
					n, m.policy[n], want, m.reg[n], when, m.newProxy[n], m.closeProx[n], history)
			}
			if want && m.reg[n] {
				// what is registered is the last configured variant
				exp := mkProxy(n, v)
				body := m.lastBody[n]
				switch exp["type"] {
				case "tcp", "udp":
					if !strings.Contains(body, fmt.Sprintf(`"remote_port":%d`, exp["remotePort"])) {
						viol("converge", "stale-variant-registered", "proxy %s: last registration %s does not carry the configured remote port %v", n, body, exp["remotePort"])
					}
				}
			}
			if (m.policy[n] == 1 || m.policy[n] == 2) && cur[n] >= 0 {
				if _, configured := cur[n]; configured && m.policy[n] == 1 && len(m.newProxy[n]) < 2 {
					viol("retry", "start-error-not-retried", "proxy %s got a start error from the server and was never retried in 110 s (NewProxy at %v)", n, m.newProxy[n])
				}
			}
		}
		m.mu.Unlock()
	}
	checkConverged("after the last reload")
	// the visitors converge too: exactly the configured ones listen, also when one of them could not start at first
	if blockedPort != 0 {
		w.Net.SquatPort("tcp", fmt.Sprintf("10.0.1.1:%d", blockedPort), false)
		time.Sleep(25 * time.Second) // the visitor manager retries failed visitors every 10 s
	}
	w.Check("C19.visitors-converge")
	wantPorts := map[int]bool{}
	for n, v := range curVis {
		wantPorts[vport(n, v)] = true
	}
	gotPorts := map[int]bool{}
	for _, a := range w.Net.ListeningTCP() {
		if strings.HasPrefix(a, "10.0.1.1:66") {
			var p int
			fmt.Sscanf(a[len("10.0.1.1:"):], "%d", &p)
			gotPorts[p] = true
		}
	}
	for p := range wantPorts {
		if !gotPorts[p] {
			viol("converge", "configured-visitor-not-listening", "visitors configured on ports %v, listening on %v (port %d was taken by somebody else until the end); history: %v", sortedInts(wantPorts), sortedInts(gotPorts), blockedPort, history)
			break
		}
	}
	for p := range gotPorts {
		if !wantPorts[p] {
			viol("converge", "removed-visitor-still-listening", "visitors configured on ports %v, listening on %v (port %d was taken by somebody else until the end); history: %v", sortedInts(wantPorts), sortedInts(gotPorts), blockedPort, history)
			break
		}
	}
	m.mu.Lock()
	m.mu.Unlock()
	// a stopped proxy refuses work connections; a running one still serves
	var stopped, running string
	for _, n := range names {
		if _, ok := cur[n]; !ok && len(m.newProxy[n]) > 0 && stopped == "" {
			stopped = n
		}
		if _, ok := cur[n]; ok && m.reg[n] && (n == "a" || n == "b" || n == "f") && running == "" {
			running = n
		}
	}
	tryWork := func(name string) (served bool) {
		ss.Send(tReqWorkConn, M{})
		wc := srv.TakeWorkConn(10 * time.Second)
		if wc == nil {
			return false
		}
		defer wc.Close()
		writeMsg(wc, tStartWorkConn, M{"proxy_name": name, "src_addr": "10.0.3.1", "src_port": 1234, "dst_addr": "10.0.0.1", "dst_port": 21000})
		wc.Write([]byte("hello"))
		wc.SetReadDeadline(time.Now().Add(5 * time.Second))
		// (in the C16 batch the echo is preceded by the PROXY protocol header the client sent to the backend)
		var got []byte
		buf := make([]byte, 256)
		for !bytes.Contains(got, []byte("hello")) {
			n, err := wc.Read(buf)
			got = append(got, buf[:n]...)
			if err != nil {
				break
			}
		}
		if w.In.Property != "C16" {
			return string(got) == "hello"
		}
		return bytes.HasSuffix(got, []byte("hello"))
	}
	if stopped != "" {
		w.Check("C19.stopped-proxy-refuses-work")
		bmu.Lock()
		before := backendConns
		bmu.Unlock()
		if tryWork(stopped) {
			viol("stopped", "stopped-proxy-served-work-connection", "proxy %s was removed by a reload but a work connection for it was bridged to the backend", stopped)
		}
		bmu.Lock()
		if backendConns != before {
			viol("stopped", "stopped-proxy-contacted-backend", "proxy %s was removed but its backend was contacted", stopped)
		}
		bmu.Unlock()
	}
	if running != "" && mkProxy(running, 0)["type"] == "tcp" && cur[running] < 2 {
		w.Check("C19.running-proxy-serves")
		if !tryWork(running) {
			viol("converge", "running-proxy-does-not-serve", "proxy %s is configured and registered but a work connection for it was not bridged", running)
		}
	}
	// C16 batch: the server describes the user of a work connection with arbitrary field values; whatever the client
	// makes of them, it keeps running (a panic in any goroutine of frpc ends the run as a crash)
	if w.In.Property == "C16" {
		w.Check("C16.client-survives-hostile-startworkconn")
		w.Probe("client.hostile_startworkconn")
		hr := newSubRand(w, "hostile-start")
		for i := 0; i < 6; i++ {
			var name string
			for n := range cur {
				if mkProxy(n, 0)["type"] == "tcp" && (name == "" || n < name) {
					name = n
				}
			}
			if name == "" {
				break
			}
			ss.Send(tReqWorkConn, M{})
			wc := srv.TakeWorkConn(10 * time.Second)
			if wc == nil {
				break
			}
			addrs := []any{"", "not-an-address", "999.999.999.999", "1.2.3.4.5", "::zz", "[::1]", "10.0.3.1:80", strings.Repeat("a", 300), "\xff\xfe", "10.0.3.1", 12, nil}
			ports := []any{0, -1, 1234, 65536, 1 << 40, "80", nil}
			f := M{"proxy_name": name, "src_addr": addrs[hr.Intn(len(addrs))], "src_port": ports[hr.Intn(len(ports))],
				"dst_addr": addrs[hr.Intn(len(addrs))], "dst_port": ports[hr.Intn(len(ports))], "error": []any{"", "", "no"}[hr.Intn(3)]}
			writeMsg(wc, tStartWorkConn, f)
			wc.Write([]byte("hello"))
			wc.SetReadDeadline(time.Now().Add(3 * time.Second))
			io.ReadFull(wc, make([]byte, 5))
			wc.Close()
		}
	}
	// the status API agrees
	w.Check("C19.status")
	for _, n := range names {
		st, ok := fc.Svc.StatusExporter().GetProxyStatus(n)
		_, configured := cur[n]
		if configured != ok {
			viol("status", "status-set-differs", "proxy %s: configured=%v, present in the status API=%v", n, configured, ok)
		} else if ok && m.policy[n] == 0 && st.Phase != "running" {
			viol("status", "status-not-running", "proxy %s is registered but its status is %q (%s)", n, st.Phase, st.Err)
		}
	}
	// the control connection is lost: the next session registers the last loaded configuration, not an older one
	if w.KnobBool("session_loss_after_reloads", 60) {
		w.Probe("client.session_loss_after_reload")
		history = append(history, fmt.Sprintf("t=%.1f server closes the control connection", w.Net.Now().Seconds()))
		m.mu.Lock()
		for n := range m.reg {
			m.reg[n] = false // what the lost session had registered is gone with it
		}
		m.mu.Unlock()
		ss.Conn.Close()
		if ss2 := srv.WaitSession(2, 120*time.Second); ss2 == nil {
			viol("converge", "no-relogin-after-session-loss", "frpc did not log in again within 120 s after the server closed the control connection")
		} else {
			ss = ss2
			time.Sleep(110 * time.Second)
			checkConverged("after the session was lost and re-established")
		}
	}
	w.SetSample(map[string]any{"scenario": "reload", "history": history, "policy": m.policy})
	w.Nontrivial()
}

func clientHealth(w *World) {
	viol := func(oracle, sig, f string, a ...any) { w.Violate("C19", oracle, sig, f, a...) }
	token := "cl-token"
	r := w.R
	srv := w.NewScriptServer("10.0.0.1:7000", token)
	// the server may take its time over a registration (busy, plugins): the backend's health can change while the
	// reply is still outstanding
	if late := w.KnobPick("hc_late_reply_s", 0, 0, 3, 8); late > 0 {
		w.Probe("client.health_with_late_replies")
		srv.OnNewProxy = func(s *SrvSession, pm M) (M, time.Duration, bool) {
			return M{"proxy_name": mstr(pm, "proxy_name"), "remote_addr": ":21500"}, time.Duration(late) * time.Second, true
		}
	}
	if err := srv.Start(); err != nil {
		w.Fail("%v", err)
	}
	typ := []string{"tcp", "http"}[w.Knob("hc_type", 0, 1)]
	interval := w.KnobPick("hc_interval", 1, 2, 5)
	timeout := w.KnobPick("hc_timeout", 1, 2)
	maxFailed := w.KnobPick("hc_max_failed", 1, 2, 3, 4)
	// outcome schedule of the probes: true = healthy
	nprobes := w.KnobPick("nprobes", 12, 25, 50)
	sched := make([]int, nprobes) // 0 ok, 1 refused, 2 timeout, 3 non-2xx (http)
	for i := range sched {
		switch {
		case r.Intn(100) < 55:
			sched[i] = 0
		default:
			sched[i] = r.Range(1, 2)
			if typ == "http" && r.Intn(2) == 0 {
				sched[i] = 3
			}
		}
	}
	var pmu sync.Mutex
	type probe struct {
		at      time.Duration
		outcome int
	}
	var probes []probe
	idx := func() int { // outcome for the probe being made now
		pmu.Lock()
		defer pmu.Unlock()
		i := len(probes)
		o := 0
		if i < len(sched) {
			o = sched[i]
		}
		probes = append(probes, probe{w.Net.Now(), o})
		return o
	}
	target := "127.0.0.1:9500"
	w.Net.DialFault = func(from *simnet.Node, to string) simnet.DialVerdict {
		if to != target {
			return simnet.DialOK
		}
		if from.Name != "frpc1" || typ == "http" {
			return simnet.DialOK // http probes are counted per request (connections are kept alive)
		}
		switch idx() {
		case 1:
			return simnet.DialRefuse
		case 2:
			return simnet.DialBlackhole
		case 3:
			pmu.Lock()
			probes[len(probes)-1].outcome = 3
			pmu.Unlock()
			return simnet.DialOK
		}
		return simnet.DialOK
	}
	ln, _ := w.Net.Listen("tcp", target)
	hs := &http.Server{Handler: http.HandlerFunc(func(rw http.ResponseWriter, req *http.Request) {
		o := idx()
		switch o {
		case 3:
			rw.WriteHeader([]int{500, 404, 301}[r.Intn(3)])
		case 1, 2:
			// no answer within the probe's timeout
			pmu.Lock()
			probes[len(probes)-1].outcome = 2
			pmu.Unlock()
			time.Sleep(time.Duration(timeout)*time.Second + 1500*time.Millisecond)
		default:
			rw.WriteHeader(200)
		}
	})}
	if typ == "http" {
		w.Backend.Go(func() { hs.Serve(ln) })
	} else {
		w.Backend.Go(func() {
			for {
				c, err := ln.Accept()
				if err != nil {
					return
				}
				c.Close()
			}
		})
	}
	hc := map[string]any{"type": typ, "intervalSeconds": interval, "timeoutSeconds": timeout, "maxFailed": maxFailed}
	if typ == "http" {
		hc["path"] = "/health"
	}
	c1 := w.Net.NewNode("frpc1", "10.0.1.1")
	if _, err := w.StartFrpc(c1, map[string]any{"serverAddr": "10.0.0.1", "serverPort": 7000, "loginFailExit": false,
		"auth":      map[string]any{"token": token},
		"transport": map[string]any{"tcpMux": false, "connectServerLocalIP": "10.0.1.1", "tls": map[string]any{"enable": false}, "poolCount": 0},
		"proxies":   []map[string]any{{"name": "hc", "type": "tcp", "localIP": "127.0.0.1", "localPort": 9500, "remotePort": 21500, "healthCheck": hc}}}); err != nil {
		w.Fail("frpc: %v", err)
	}
	ss := srv.WaitSession(1, 30*time.Second)
	if ss == nil {
		viol("startup", "client-never-logged-in", "frpc did not log in")
		return
	}
	// let the schedule play out
	w.WaitUntil(time.Duration(nprobes*(interval+timeout)+30)*time.Second, 500*time.Millisecond, func() bool {
		pmu.Lock()
		defer pmu.Unlock()
		return len(probes) >= nprobes
	})
	time.Sleep(time.Duration(interval+8) * time.Second)
	// reference model over the observed probe outcomes: registered iff healthy; healthy turns false after maxFailed
	// consecutive failures, true at the next success
	pmu.Lock()
	ps := append([]probe{}, probes...)
	pmu.Unlock()
	type change struct {
		at   time.Duration
		want bool // registration expected from here on
	}
	var changes []change
	healthy := false
	consec := 0
	for _, p := range ps {
		if p.outcome == 0 {
			consec = 0
			if !healthy {
				healthy = true
				changes = append(changes, change{p.at, true})
			}
		} else {
			consec++
			if healthy && consec >= maxFailed {
				healthy = false
				changes = append(changes, change{p.at, false})
			}
		}
	}
	// the trace
	type ev struct {
		at  time.Duration
		reg bool
	}
	var trace []ev
	for _, x := range ss.Received() {
		switch x.Type {
		case tNewProxy:
			trace = append(trace, ev{x.At, true})
		case tCloseProxy:
			trace = append(trace, ev{x.At, false})
		}
	}
	w.Check("C19.health-gating")
	desc := func() string {
		var o []string
		for _, p := range ps {
			o = append(o, fmt.Sprintf("%.1f:%s", p.at.Seconds(), []string{"ok", "refused", "timeout", "non-2xx"}[p.outcome]))
		}
		var t []string
		for _, e := range trace {
			t = append(t, fmt.Sprintf("%.1f:%s", e.at.Seconds(), map[bool]string{true: "NewProxy", false: "CloseProxy"}[e.reg]))
		}
		return fmt.Sprintf("type %s interval %ds timeout %ds maxFailed %d; probes %v; messages %v", typ, interval, timeout, maxFailed, o, t)
	}
	// 1. nothing is registered before the first successful probe
	firstOK := time.Duration(-1)
	for _, p := range ps {
		if p.outcome == 0 {
			firstOK = p.at
			break
		}
	}
	for _, e := range trace {
		if e.reg && (firstOK < 0 || e.at < firstOK) {
			viol("health", "registered-before-first-success", "NewProxy at %.1f s before any successful probe; %s", e.at.Seconds(), desc())
			break
		}
	}
	// 2. a withdrawal needs maxFailed consecutive failures right before it; a success restarts the count
	slack := time.Duration(timeout+4) * time.Second
	for _, e := range trace {
		if e.reg {
			continue
		}
		// find the model change that explains this CloseProxy
		ok := false
		for _, c := range changes {
			if !c.want && e.at >= c.at && e.at <= c.at+slack {
				ok = true
			}
		}
		if !ok {
			viol("health", "withdrawn-without-enough-consecutive-failures", "CloseProxy at %.1f s is not preceded by %d consecutive failed probes; %s", e.at.Seconds(), maxFailed, desc())
			break
		}
	}
	// 3. every model change is followed by the matching message
	for i, c := range changes {
		end := ps[len(ps)-1].at + time.Hour
		if i+1 < len(changes) {
			end = changes[i+1].at
		}
		if end-c.at < slack+time.Duration(interval)*time.Second {
			continue // the state did not last long enough to demand the message
		}
		found := false
		var last *ev
		for i := range trace {
			e := &trace[i]
			if e.reg == c.want && e.at >= c.at && e.at <= c.at+slack {
				found = true
			}
			if e.at <= c.at+slack {
				last = e
			}
		}
		// (a state too short to demand its message may have gone unanswered: then the client's last word already
		// is what this change asks for and nothing more is owed)
		if !found && last != nil && last.reg == c.want {
			found = true
		}
		if !found {
			if c.want {
				viol("health", "not-registered-after-success", "probe succeeded at %.1f s but no NewProxy followed within %v; %s", c.at.Seconds(), slack, desc())
			} else {
				viol("health", "not-withdrawn-after-max-failed", "%d consecutive probes had failed by %.1f s but no CloseProxy followed within %v; %s", maxFailed, c.at.Seconds(), slack, desc())
			}
			break
		}
	}
	w.SetSample(map[string]any{"scenario": "health", "type": typ, "max_failed": maxFailed, "probes": len(ps), "changes": len(changes)})
	w.Nontrivial()
	_ = net.IPv4len
}
