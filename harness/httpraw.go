package verifharness

import (
	"bufio"
	"bytes"
	"fmt"
	"io"
	"sort"
	"strconv"
	"strings"
)

// A deliberately small, independent HTTP/1.1 message reader/writer used by the
// simulated users and backends (raw bytes in, raw bytes out).

type hdr struct{ k, v string }

type rawMsg struct {
	// request
	Method, Target, Proto string
	// response
	Status int
	Reason string

	Headers []hdr
	Body    []byte
	Chunked bool // body was/will be sent chunked
	NoLen   bool // response body delimited by connection close
	Raw     []byte
}

func (m *rawMsg) get(name string) []string {
	var out []string
	for _, h := range m.Headers {
		if strings.EqualFold(h.k, name) {
			out = append(out, h.v)
		}
	}
	return out
}

func (m *rawMsg) has(name string) bool { return len(m.get(name)) > 0 }

// readMsg parses one request (isReq) or response from br.
func readRawMsg(br *bufio.Reader, isReq bool, headOnlyResp bool) (*rawMsg, error) {
	m := &rawMsg{}
	line, err := br.ReadString('\n')
	if err != nil {
		return nil, err
	}
	line = strings.TrimRight(line, "\r\n")
	parts := strings.SplitN(line, " ", 3)
	if isReq {
		if len(parts) != 3 {
			return nil, fmt.Errorf("bad request line %q", line)
		}
		m.Method, m.Target, m.Proto = parts[0], parts[1], parts[2]
	} else {
		if len(parts) < 2 || !strings.HasPrefix(parts[0], "HTTP/") {
			return nil, fmt.Errorf("bad status line %q", line)
		}
		m.Proto = parts[0]
		m.Status, err = strconv.Atoi(parts[1])
		if err != nil {
			return nil, fmt.Errorf("bad status line %q", line)
		}
		if len(parts) == 3 {
			m.Reason = parts[2]
		}
	}
	for {
		l, err := br.ReadString('\n')
		if err != nil {
			return nil, err
		}
		l = strings.TrimRight(l, "\r\n")
		if l == "" {
			break
		}
		i := strings.IndexByte(l, ':')
		if i <= 0 {
			return nil, fmt.Errorf("bad header line %q", l)
		}
		m.Headers = append(m.Headers, hdr{l[:i], strings.TrimSpace(l[i+1:])})
	}
	// body
	te := strings.ToLower(strings.Join(m.get("Transfer-Encoding"), ","))
	switch {
	case !isReq && (headOnlyResp || m.Status/100 == 1 || m.Status == 204 || m.Status == 304):
	case strings.Contains(te, "chunked"):
		m.Chunked = true
		for {
			sl, err := br.ReadString('\n')
			if err != nil {
				return nil, err
			}
			sl = strings.TrimSpace(sl)
			if i := strings.IndexByte(sl, ';'); i >= 0 {
				sl = sl[:i]
			}
			n, err := strconv.ParseInt(sl, 16, 64)
			if err != nil {
				return nil, fmt.Errorf("bad chunk size %q", sl)
			}
			if n == 0 {
				// trailers
				for {
					tl, err := br.ReadString('\n')
					if err != nil {
						return nil, err
					}
					if strings.TrimRight(tl, "\r\n") == "" {
						break
					}
				}
				break
			}
			buf := make([]byte, n+2)
			if _, err := io.ReadFull(br, buf); err != nil {
				return nil, err
			}
			m.Body = append(m.Body, buf[:n]...)
		}
	case m.has("Content-Length"):
		n, err := strconv.Atoi(m.get("Content-Length")[0])
		if err != nil || n < 0 {
			return nil, fmt.Errorf("bad content-length")
		}
		m.Body = make([]byte, n)
		if _, err := io.ReadFull(br, m.Body); err != nil {
			return m, err
		}
	case !isReq:
		m.NoLen = true
		b, _ := io.ReadAll(br)
		m.Body = b
	}
	return m, nil
}

// encode renders the message; body framing per Chunked / content-length / NoLen.
func (m *rawMsg) encode(isReq bool, chunkSizes func() int) []byte {
	var b bytes.Buffer
	if isReq {
		fmt.Fprintf(&b, "%s %s HTTP/1.1\r\n", m.Method, m.Target)
	} else {
		reason := m.Reason
		if reason == "" {
			reason = "Status"
		}
		fmt.Fprintf(&b, "HTTP/1.1 %d %s\r\n", m.Status, reason)
	}
	for _, h := range m.Headers {
		fmt.Fprintf(&b, "%s: %s\r\n", h.k, h.v)
	}
	noBody := !isReq && (m.Status/100 == 1 || m.Status == 204 || m.Status == 304)
	switch {
	case noBody:
		b.WriteString("\r\n")
	case m.Chunked:
		b.WriteString("Transfer-Encoding: chunked\r\n\r\n")
		body := m.Body
		for len(body) > 0 {
			n := chunkSizes()
			if n > len(body) {
				n = len(body)
			}
			fmt.Fprintf(&b, "%x\r\n", n)
			b.Write(body[:n])
			b.WriteString("\r\n")
			body = body[n:]
		}
		b.WriteString("0\r\n\r\n")
	case m.NoLen:
		b.WriteString("Connection: close\r\n\r\n")
		b.Write(m.Body)
	default:
		if len(m.Body) > 0 || !isReq || m.Method == "POST" || m.Method == "PUT" || m.Method == "PATCH" {
			fmt.Fprintf(&b, "Content-Length: %d\r\n", len(m.Body))
		}
		b.WriteString("\r\n")
		b.Write(m.Body)
	}
	return b.Bytes()
}

var hopByHop = map[string]bool{"connection": true, "keep-alive": true, "proxy-authenticate": true, "proxy-authorization": true, "te": true,
	"trailer": true, "transfer-encoding": true, "upgrade": true, "proxy-connection": true}

// endToEnd returns the multiset of end-to-end headers as sorted "name: value" lines (names lower-cased),
// leaving out names in skip.
func endToEnd(hs []hdr, skip map[string]bool) []string {
	// headers named in Connection are hop-by-hop too
	dyn := map[string]bool{}
	for _, h := range hs {
		if strings.EqualFold(h.k, "Connection") {
			for _, t := range strings.Split(h.v, ",") {
				dyn[strings.ToLower(strings.TrimSpace(t))] = true
			}
		}
	}
	var out []string
	for _, h := range hs {
		k := strings.ToLower(h.k)
		if hopByHop[k] || dyn[k] || skip[k] {
			continue
		}
		out = append(out, k+": "+h.v)
	}
	sort.Strings(out)
	return out
}

func diffLines(a, b []string) (onlyA, onlyB []string) {
	ca := map[string]int{}
	for _, x := range a {
		ca[x]++
	}
	for _, x := range b {
		if ca[x] > 0 {
			ca[x]--
		} else {
			onlyB = append(onlyB, x)
		}
	}
	for x, n := range ca {
		for i := 0; i < n; i++ {
			onlyA = append(onlyA, x)
		}
	}
	sort.Strings(onlyA)
	return
}
