package verifharness

import (
	"bytes"
	"fmt"
	"io"
	"net/http"
	"strings"
	"sync/atomic"
	"time"

	"verif/sim/simnet"
)

// World "liveness" (C14): dead peers are detected and tunnels heal themselves.

func init() { RegisterWorld("liveness", worldLiveness) }

func worldLiveness(w *World) {
	switch w.Knob("scenario", 0, 4) {
	case 0:
		livenessServerDetects(w)
	case 1:
		livenessNeverFalse(w)
	case 2:
		livenessClientDetects(w)
	case 3:
		livenessHealRealServer(w)
	default:
		livenessUnreachableServer(w)
	}
}

func lvViol(w *World) func(oracle, sig, f string, a ...any) {
	return func(oracle, sig, f string, a ...any) { w.Violate("C14", oracle, sig, f, a...) }
}

// (a) a session whose peer stops sending valid heartbeats is torn down, resources released, within timeout + constant
func livenessServerDetects(w *World) {
	viol := lvViol(w)
	token := "lv-token"
	r := w.R
	tcpMux := w.KnobBool("tcp_mux", 40)
	T := w.KnobPick("server_hb_timeout", 3, 5, 10, 30, 90)
	how := w.Knob("silence", 0, 3) // 0 just silent, 1 blackholed, 2 sends something else than heartbeats, 3 sends heartbeats that do not verify
	authCfg := map[string]any{"token": token}
	if how == 3 {
		authCfg["additionalScopes"] = []string{"HeartBeats"}
	}
	scfg := map[string]any{"bindAddr": "10.0.0.1", "bindPort": 7000, "auth": authCfg,
		"transport":  map[string]any{"tcpMux": tcpMux, "heartbeatTimeout": T},
		"allowPorts": []map[string]any{{"start": 20000, "end": 20009}}}
	env := w.newLcEnv(scfg, token, PeerOpts{Server: "10.0.0.1:7000", Mux: tcpMux, Token: token})
	env.start()
	c := env.newClient("", 1)
	if rr, err := c.login(""); err != nil || mstr(rr, "error") != "" {
		w.Fail("login: %v %v", err, rr)
	}
	if rr, got := c.register(M{"proxy_name": "lv", "proxy_type": "tcp", "remote_port": 20001}); !got || mstr(rr, "error") != "" {
		w.Fail("register: %v", rr)
	}
	// heartbeat regularly for a while, then fall silent at an arbitrary moment
	interval := time.Duration(r.Range(200, T*400)) * time.Millisecond
	beats := r.Range(0, 8)
	lastValid := w.Net.Now() // the login counts as sign of life
	for i := 0; i < beats; i++ {
		time.Sleep(interval + time.Duration(r.Intn(100))*time.Millisecond)
		c.Ping(true, token)
		lastValid = w.Net.Now()
	}
	time.Sleep(time.Duration(r.Intn(700)) * time.Millisecond)
	switch how {
	case 1:
		w.Net.Partition(c.Node, true)
	case 2:
		c.Node.Go(func() {
			for !c.IsClosed() {
				c.Send(tCloseProxy, M{"proxy_name": "nosuch"})
				time.Sleep(500 * time.Millisecond)
			}
		})
	case 3:
		badTok := []string{"", "wrong", token + "x"}[r.Intn(3)]
		pr := newSubRand(w, "badping")
		c.Node.Go(func() {
			for !c.IsClosed() {
				c.Ping(badTok != "", badTok)
				time.Sleep(time.Duration(200+pr.Intn(800)) * time.Millisecond)
			}
		})
	}
	w.Check("C14.server-detects-silent-peer")
	// observe from the server's side: the port is released
	limit := time.Duration(T)*time.Second + 3*time.Second
	if tcpMux && how == 1 {
		// a cut in the middle of a mux frame keeps the session reader busy until the mux keep-alive gives up
		limit += 45 * time.Second
	}
	ok := w.WaitUntil(limit+60*time.Second, 100*time.Millisecond, func() bool { return !env.frpsTCPPorts()[20001] })
	el := w.Net.Now() - lastValid
	if !ok {
		viol("server-detect", "silent-peer-never-torn-down", "peer silent (kind %d) since %v, heartbeatTimeout %ds, mux=%v: its port is still bound after %v", how, lastValid, T, tcpMux, el)
	} else if el > limit {
		viol("server-detect", "silent-peer-torn-down-late", "peer silent (kind %d), heartbeatTimeout %ds, mux=%v: port released only %v after the last valid heartbeat (limit %v)", how, T, tcpMux, el, limit)
	}
	// (a silent peer may be detected earlier by other means, e.g. the mux keep-alive; premature teardown of a
	// healthy peer is what the never-false scenario decides)
	if how == 1 {
		w.Net.Partition(c.Node, false)
	}
	w.SetSample(map[string]any{"scenario": "server-detects", "T": T, "silence": how, "elapsed_s": el.Seconds()})
	w.Nontrivial()
}

// (b) a peer that keeps sending valid heartbeats at the configured interval is never torn down
func livenessNeverFalse(w *World) {
	viol := lvViol(w)
	token := "lv-token"
	r := w.R
	if w.KnobBool("real_client", 50) {
		// real frpc against real frps over simulated days with latency spikes
		tcpMux := w.KnobBool("tcp_mux", 50)
		scfg := map[string]any{"bindAddr": "10.0.0.1", "bindPort": 7000, "auth": map[string]any{"token": token},
			"transport": map[string]any{"tcpMux": tcpMux}, "allowPorts": []map[string]any{{"start": 20000, "end": 20009}}}
		if _, err := w.StartFrps(w.Frps, scfg); err != nil {
			w.Fail("frps: %v", err)
		}
		c1 := w.Net.NewNode("frpc1", "10.0.1.1")
		if _, err := w.StartFrpc(c1, map[string]any{"serverAddr": "10.0.0.1", "serverPort": 7000, "loginFailExit": false,
			"auth":      map[string]any{"token": token},
			"transport": map[string]any{"tcpMux": tcpMux, "connectServerLocalIP": "10.0.1.1", "tls": map[string]any{"enable": w.KnobBool("tls", 50)}},
			"proxies":   []map[string]any{{"name": "nf", "type": "tcp", "localIP": "127.0.0.1", "localPort": 9300, "remotePort": 20002}}}); err != nil {
			w.Fail("frpc: %v", err)
		}
		days := w.KnobPick("days", 1, 2, 5)
		time.Sleep(time.Duration(days) * 24 * time.Hour)
		w.Check("C14.never-false-teardown")
		w.mu.Lock()
		logins := w.res.Probes["frps.login"]
		hb := w.res.Probes["frps.heartbeat_timeout"] + w.res.Probes["frpc.heartbeat_timeout"]
		w.mu.Unlock()
		if logins != 1 || hb != 0 {
			viol("false-teardown", "healthy-session-torn-down", "real frpc and frps, default heartbeats, %d simulated days without faults: %d logins, %d heartbeat timeouts", days, logins, hb)
		}
		if !func() bool {
			for _, a := range w.Net.ListeningTCP() {
				if a == "10.0.0.1:20002" {
					return true
				}
			}
			return false
		}() {
			viol("false-teardown", "proxy-gone", "after %d quiet days the proxy's port is no longer bound", days)
		}
		w.SetSample(map[string]any{"scenario": "never-false-real", "days": days})
		w.Nontrivial()
		return
	}
	tcpMux := w.KnobBool("tcp_mux", 40)
	T := w.KnobPick("server_hb_timeout", 3, 10, 90)
	scfg := map[string]any{"bindAddr": "10.0.0.1", "bindPort": 7000, "auth": map[string]any{"token": token},
		"transport": map[string]any{"tcpMux": tcpMux, "heartbeatTimeout": T}}
	busy := w.KnobPick("busy_session", 0, 0, 1, 3)
	regDelay := time.Duration(w.KnobPick("busy.plugin_ms", 100, 500, 2000)) * time.Millisecond
	if busy > 0 {
		restore := w.PlugN.Enter()
		pln, perr := w.Net.Listen("tcp", "10.0.4.1:9800")
		restore()
		if perr != nil {
			w.Fail("%v", perr)
		}
		w.PlugN.Go(func() {
			(&http.Server{Handler: http.HandlerFunc(func(rw http.ResponseWriter, _ *http.Request) {
				time.Sleep(regDelay)
				rw.Header().Set("Content-Type", "application/json")
				rw.Write([]byte(`{"reject":false,"unchange":true}`))
			})}).Serve(pln)
		})
		scfg["httpPlugins"] = []map[string]any{{"name": "slow", "addr": "10.0.4.1:9800", "path": "/handler", "ops": []string{"NewProxy"}}}
	}
	env := w.newLcEnv(scfg, token, PeerOpts{Server: "10.0.0.1:7000", Mux: tcpMux, Token: token})
	env.start()
	c := env.newClient("", 0)
	if rr, err := c.login(""); err != nil || mstr(rr, "error") != "" {
		w.Fail("login: %v %v", err, rr)
	}
	if busy > 0 {
		// the session is busy: it sends a batch of registrations, each of which the server's plugin takes a while to
		// decide, and keeps sending its valid heartbeats at the configured interval all the while
		w.Probe("liveness.busy_session")
		w.Check("C14.never-false-teardown-busy-session")
		nreg := int(time.Duration(busy)*time.Duration(T)*time.Second/regDelay) / 4 // busy=1: a quarter of a timeout of plugin time (plus the calls' round trips), busy=3: three quarters and more
		// the heartbeats have a sender of their own: they go out at the configured interval from the login on, also
		// while the batch is still being written (a slow link lets the batch take a while to leave)
		t0 := w.Net.Now()
		stopBeats := make(chan struct{})
		defer close(stopBeats)
		c.Node.Go(func() {
			for {
				select {
				case <-stopBeats:
					return
				case <-time.After(time.Duration(T) * time.Second / 3):
					if c.IsClosed() {
						return
					}
					c.Ping(true, token)
				}
			}
		})
		for i := 0; i < nreg && !c.IsClosed(); i++ {
			c.Send(tNewProxy, M{"proxy_name": fmt.Sprintf("busy%d", i), "proxy_type": "stcp", "sk": "k"})
		}
		total := time.Duration(nreg) * regDelay
		for w.Net.Now()-t0 < 2*total+2*time.Duration(T)*time.Second {
			time.Sleep(time.Second)
			if c.IsClosed() {
				answered := 0
				c.mu.Lock()
				for _, m := range c.Inbox {
					if m.Type == tNewProxyResp {
						answered++
					}
				}
				c.mu.Unlock()
				sig := "busy-session-torn-down"
				if answered < nreg && w.Net.Now()-t0 >= time.Duration(T)*time.Second-time.Second {
					// closed a full timeout after the login, the batch still being worked on: the server's reader was
					// busy with the registrations all that time and read none of the heartbeats
					sig = "valid-heartbeats-starved-behind-slow-registrations"
				}
				viol("false-teardown", sig, "heartbeatTimeout %ds, valid heartbeats every %ds from the login on; the session also sent %d registrations which a server plugin takes %v each to decide (%v in all, %d answered so far): the server closed the session %v after the login", T, T/3, nreg, regDelay, total, answered, w.Net.Now()-t0)
				return
			}
		}
		w.SetSample(map[string]any{"scenario": "never-false-busy", "T": T, "registrations": nreg})
		w.Nontrivial()
		return
	}
	// the configured interval is a third of the timeout; jitter stays below another third
	n := w.KnobPick("beats", 100, 2000, 20000)
	for i := 0; i < n; i++ {
		time.Sleep(time.Duration(T)*time.Second/3 + time.Duration(r.Intn(T*300))*time.Millisecond)
		if c.IsClosed() {
			viol("false-teardown", "healthy-session-torn-down", "heartbeatTimeout %ds, valid heartbeats every ~%ds: session closed after %d heartbeats", T, T/3, i)
			return
		}
		c.Ping(true, token)
	}
	w.Check("C14.never-false-teardown")
	w.SetSample(map[string]any{"scenario": "never-false-scripted", "T": T, "beats": n})
	w.Nontrivial()
}

// (c) the client applies the same rule to a silent server
func livenessClientDetects(w *World) {
	viol := lvViol(w)
	token := "lv-token"
	r := w.R
	I := w.KnobPick("client_hb_interval", 1, 3, 10)
	T := w.KnobPick("client_hb_timeout", 3, 9, 30)
	if T <= I {
		T = 3 * I
	}
	srv := w.NewScriptServer("10.0.0.1:7000", token)
	silentFromStart := w.KnobBool("silent_from_the_start", 33)
	srv.Pong = !silentFromStart
	if err := srv.Start(); err != nil {
		w.Fail("%v", err)
	}
	c1 := w.Net.NewNode("frpc1", "10.0.1.1")
	if _, err := w.StartFrpc(c1, map[string]any{"serverAddr": "10.0.0.1", "serverPort": 7000, "loginFailExit": false,
		"auth":      map[string]any{"token": token},
		"transport": map[string]any{"tcpMux": false, "connectServerLocalIP": "10.0.1.1", "tls": map[string]any{"enable": false}, "heartbeatInterval": I, "heartbeatTimeout": T},
		"proxies":   []map[string]any{{"name": "cd", "type": "tcp", "localIP": "127.0.0.1", "localPort": 9300, "remotePort": 20002}}}); err != nil {
		w.Fail("frpc: %v", err)
	}
	ss := srv.WaitSession(1, 30*time.Second)
	if ss == nil {
		viol("client-detect", "client-never-logged-in", "frpc did not log in to the scripted server within 30 s")
		return
	}
	// answer heartbeats for a while, then fall silent - in a third of the runs no heartbeat is ever answered
	if !silentFromStart {
		time.Sleep(time.Duration(r.Range(0, 4*I*1000)) * time.Millisecond)
	}
	srv.mu.Lock()
	srv.Pong = false
	srv.mu.Unlock()
	silentAt := w.Net.Now()
	if silentFromStart {
		silentAt = ss.At
	}
	w.Check("C14.client-detects-silent-server")
	// the last pong reached the client no later than one latency after the server fell silent, so the timeout
	// expires at most T later; the small constant covers the client's checking period and the network latency
	limit := time.Duration(T)*time.Second + 3*time.Second
	ok := w.WaitUntil(limit+120*time.Second, 100*time.Millisecond, ss.IsClosed)
	el := w.Net.Now() - silentAt
	if !ok {
		viol("client-detect", "silent-server-never-dropped", "server silent for %v (client heartbeat interval %ds timeout %ds): the client keeps the session", el, I, T)
	} else if el > limit {
		viol("client-detect", "silent-server-dropped-late", "client heartbeat interval %ds timeout %ds: session closed only %v after the server fell silent (limit %v)", I, T, el, limit)
	}
	// and it comes back on its own
	srv.mu.Lock()
	srv.Pong = true
	srv.mu.Unlock()
	if srv.WaitSession(2, 60*time.Second) == nil {
		viol("heal", "no-relogin-after-timeout", "after dropping the silent server the client did not log in again within 60 s")
	}
	w.SetSample(map[string]any{"scenario": "client-detects", "I": I, "T": T, "elapsed_s": el.Seconds()})
	w.Nontrivial()
}

// (d) after connection losses and server restarts the tunnel is usable again within a bounded delay
func livenessHealRealServer(w *World) {
	viol := lvViol(w)
	token := "lv-token"
	r := w.R
	tcpMux := w.KnobBool("tcp_mux", 60)
	tlsOn := w.KnobBool("tls", 50)
	scfg := map[string]any{"bindAddr": "10.0.0.1", "bindPort": 7000, "auth": map[string]any{"token": token},
		"transport": map[string]any{"tcpMux": tcpMux}, "allowPorts": []map[string]any{{"start": 20000, "end": 20009}}}
	// optionally a server plugin is consulted for every registration, which then takes simulated time: a client that
	// dies in that window must still be cleaned up completely
	slowReg := time.Duration(0)
	// ... and optionally for every login, some of which it refuses (armed by the half-open fault below)
	var refuseLogins atomic.Int32
	loginPlugin := w.KnobBool("login_plugin", 50)
	if npl := w.KnobBool("newproxy_plugin", 50); npl || loginPlugin {
		if npl {
			slowReg = time.Duration(w.KnobPick("newproxy_plugin_ms", 20, 200, 800)) * time.Millisecond
		}
		restore := w.PlugN.Enter()
		pln, perr := w.Net.Listen("tcp", "10.0.4.1:9800")
		restore()
		if perr != nil {
			w.Fail("%v", perr)
		}
		w.PlugN.Go(func() {
			(&http.Server{Handler: http.HandlerFunc(func(rw http.ResponseWriter, req *http.Request) {
				body, _ := io.ReadAll(req.Body)
				rw.Header().Set("Content-Type", "application/json")
				if bytes.Contains(body, []byte(`"op":"Login"`)) {
					if refuseLogins.Load() > 0 {
						refuseLogins.Add(-1)
						w.Net.Count("fault.login_refused", 1)
						rw.Write([]byte(`{"reject":true,"reject_reason":"not now"}`))
						return
					}
				} else {
					time.Sleep(slowReg)
				}
				rw.Write([]byte(`{"reject":false,"unchange":true}`))
			})}).Serve(pln)
		})
		var ops []string
		if slowReg > 0 {
			ops = append(ops, "NewProxy")
		}
		if loginPlugin {
			ops = append(ops, "Login")
		}
		scfg["httpPlugins"] = []map[string]any{{"name": "slow", "addr": "10.0.4.1:9800", "path": "/handler", "ops": ops}}
	}
	frps, err := w.StartFrps(w.Frps, scfg)
	if err != nil {
		w.Fail("frps: %v", err)
	}
	c1 := w.Net.NewNode("frpc1", "10.0.1.1")
	ccfg := map[string]any{"serverAddr": "10.0.0.1", "serverPort": 7000, "loginFailExit": false,
		"auth":      map[string]any{"token": token},
		"transport": map[string]any{"tcpMux": tcpMux, "connectServerLocalIP": "10.0.1.1", "tls": map[string]any{"enable": tlsOn}, "poolCount": w.KnobPick("pool", 0, 1, 3)},
		"proxies": []map[string]any{
			{"name": "h1", "type": "tcp", "localIP": "127.0.0.1", "localPort": 9300, "remotePort": 20003},
			{"name": "h2", "type": "tcp", "localIP": "127.0.0.1", "localPort": 9300, "remotePort": 20004}}}
	// a client with many proxies (more than any queue between its parts holds): all of them are owed the same
	if w.KnobBool("many_proxies", 15) {
		w.Probe("liveness.many_proxies")
		// (the server handles the messages of one session one after the other: 130 registrations of 800 ms each
		// keep it from reading the client's heartbeats for longer than the heartbeat timeout. That is the listed
		// finding of scenario never-false/busy-session; here the registrations stay short enough not to trip it)
		if slowReg > 200*time.Millisecond {
			slowReg = 200 * time.Millisecond
		}
		pr := ccfg["proxies"].([]map[string]any)
		for i := 0; i < 130; i++ {
			pr = append(pr, map[string]any{"name": fmt.Sprintf("s%03d", i), "type": "stcp", "localIP": "127.0.0.1", "localPort": 9300, "secretKey": "k"})
		}
		ccfg["proxies"] = pr
	}
	fc, err := w.StartFrpc(c1, ccfg)
	if err != nil {
		w.Fail("frpc: %v", err)
	}
	// echo backend
	ln, _ := w.Net.Listen("tcp", "127.0.0.1:9300")
	w.Backend.Go(func() {
		for {
			c, err := ln.Accept()
			if err != nil {
				return
			}
			go func() {
				buf := make([]byte, 4096)
				for {
					n, err := c.Read(buf)
					if n > 0 {
						c.Write(buf[:n])
					}
					if err != nil {
						c.Close()
						return
					}
				}
			}()
		}
	})
	roundTrip := func(port int) bool {
		conn, err := simnet.DialFrom("10.0.3.60", fmt.Sprintf("10.0.0.1:%d", port), 5*time.Second)
		if err != nil {
			return false
		}
		defer conn.Close()
		msg := fmt.Sprintf("ping-%d", r.U64())
		conn.Write([]byte(msg))
		conn.SetReadDeadline(time.Now().Add(8 * time.Second))
		buf := make([]byte, len(msg))
		n := 0
		for n < len(msg) {
			k, err := conn.Read(buf[n:])
			n += k
			if err != nil {
				break
			}
		}
		return string(buf[:n]) == msg
	}
	// (registrations of one session are handled one after the other: with a slow plugin each takes that long)
	nprox := len(ccfg["proxies"].([]map[string]any))
	regAll := time.Duration(nprox) * (slowReg + 50*time.Millisecond)
	if !w.WaitUntil(60*time.Second+regAll, 200*time.Millisecond, func() bool { return roundTrip(20003) && roundTrip(20004) }) {
		viol("heal", "initial-tunnel-not-up", "tunnels not usable %v after start", 60*time.Second+regAll)
		return
	}
	// the operator may change the configuration while the client is cut off (a proxy added, another one removed):
	// what is owed after the outage is the configuration as it stands then
	ports := []int{20003, 20004}
	reloads := 0
	reloadDuringOutage := func() {
		if !w.KnobBool("reload_during_outage", 40) || reloads >= 2 {
			return
		}
		reloads++
		w.Probe("liveness.reload_during_outage")
		pr := ccfg["proxies"].([]map[string]any)
		if reloads == 1 {
			pr = append(pr, map[string]any{"name": "h3", "type": "tcp", "localIP": "127.0.0.1", "localPort": 9300, "remotePort": 20005})
			ports = append(ports, 20005)
		} else {
			pr = pr[1:] // h1 goes
			ports = ports[1:]
		}
		ccfg["proxies"] = pr
		_, pcs, vcs, err := LoadClientCfg(ccfg)
		if err != nil {
			w.Fail("cfg: %v", err)
		}
		// (the call is the operator's: it runs on its own so that a reload that does not return cannot hold up the run)
		svc := fc.Svc
		done := make(chan struct{})
		go func() {
			defer close(done)
			if err := svc.UpdateAllConfigurer(pcs, vcs); err != nil {
				viol("heal", "reload-error", "UpdateAllConfigurer during an outage: %v", err)
			}
		}()
		select {
		case <-done:
		case <-time.After(30 * time.Second):
			w.Probe("liveness.reload_call_blocked")
		}
	}
	nfaults := w.KnobPick("nfaults", 1, 2, 4, 7)
	for i := 0; i < nfaults; i++ {
		time.Sleep(time.Duration(r.Range(0, 20000)) * time.Millisecond)
		serverDown := false
		resetAll := func() {
			for _, id := range w.Net.PairsMatching(func(l string, _ int) bool { return strings.HasPrefix(l, "frpc1>10.0.0.1:7000") }) {
				w.Net.ResetPair(id)
			}
		}
		logins := func() int { w.mu.Lock(); defer w.mu.Unlock(); return w.res.Probes["frps.login"] }
		switch k := r.Intn(8); k {
		case 7: // for a while the server accepts the client's connections and then says nothing on them (frozen process,
			// a middlebox that drops everything after the TCP handshake): the client must not get stuck on such a connection
			w.Probe("liveness.silent_accepts")
			w.Net.ConnHook = func(ev string, c *simnet.Conn) {
				if ev == "established" && strings.HasPrefix(c.Link(), "frpc1>10.0.0.1:7000") {
					c.MuteLocked()
				}
			}
			resetAll()
			d := []time.Duration{5 * time.Second, 40 * time.Second, 5 * time.Minute}[r.Intn(3)]
			time.Sleep(d + time.Duration(r.Intn(3000))*time.Millisecond)
			w.Net.ConnHook = nil
		case 0: // reset every connection of the client
			resetAll()
		case 6: // half-open: the client's connections are cut so that only the client notices (state lost in a
			// middlebox); the server still holds the old session when the client comes back with its run id
			w.Probe("liveness.half_open")
			healthy := true
			for _, p := range ports {
				healthy = healthy && roundTrip(p)
			}
			nref := 0
			if loginPlugin && healthy && r.Intn(2) == 0 {
				// the client's first attempts to come back are refused (by a plugin), then it is let in again
				nref = r.Range(1, 2)
				refuseLogins.Store(int32(nref))
				w.Probe("liveness.half_open_then_refused_logins")
			}
			before := logins()
			for _, id := range w.Net.PairsMatching(func(l string, _ int) bool { return strings.HasPrefix(l, "frpc1>10.0.0.1:7000") }) {
				w.Net.HalfOpenPair(id, 0)
			}
			if nref > 0 && w.WaitUntil(120*time.Second, 100*time.Millisecond, func() bool { return logins() > before }) {
				// the same client process is back, and let in: its old session (which the server never saw end) must not
				// stand in the way of its proxies. Bound: one registration retry interval of the client (30 s) + margin
				w.Check("C14.heals-after-half-open-and-refusals")
				t0 := w.Net.Now()
				if !w.WaitUntil(45*time.Second+regAll, 500*time.Millisecond, func() bool {
					for _, p := range ports {
						if !roundTrip(p) {
							return false
						}
					}
					return true
				}) {
					viol("heal", "proxies-not-back-after-accepted-login", "the client's connections were cut so that only the client noticed; %d logins were refused, then one was accepted; %v after the accepted login the tunnels are still not usable (mux=%v tls=%v)", nref, w.Net.Now()-t0, tcpMux, tlsOn)
				}
			}
			refuseLogins.Store(0)
		case 5: // the client process is killed while it is registering its proxies on a new session, and started again
			before := logins()
			resetAll()
			if w.WaitUntil(60*time.Second, time.Millisecond, func() bool { return logins() > before }) {
				w.Probe("liveness.kill_during_reregistration")
				cfg := w.Net.Cfg()
				time.Sleep(time.Duration(r.Intn(int(2*(cfg.BaseLatency+cfg.Jitter)/time.Microsecond)+2000)) * time.Microsecond)
				fc.Stop()          // the process is gone ...
				w.Net.KillNode(c1) // ... and the operating system closes its sockets: what it had written is still delivered
				time.Sleep(time.Duration(r.Range(100, 5000)) * time.Millisecond)
				if fc, err = w.StartFrpc(c1, ccfg); err != nil {
					w.Fail("restart frpc: %v", err)
				}
			}
		case 1, 2: // blackhole of arbitrary duration
			w.Net.Partition(c1, true)
			d := []time.Duration{2 * time.Second, 40 * time.Second, 5 * time.Minute, 2 * time.Hour}[r.Intn(4)]
			time.Sleep(d/2 + time.Duration(r.Intn(1500))*time.Millisecond)
			reloadDuringOutage()
			time.Sleep(d/2 + time.Duration(r.Intn(1500))*time.Millisecond)
			w.Net.Partition(c1, false)
		default: // server crash and restart after an arbitrary outage
			frps.Stop()
			w.Net.CrashNode(w.Frps)
			serverDown = true
			d := []time.Duration{time.Second, 30 * time.Second, 10 * time.Minute}[r.Intn(3)]
			time.Sleep(d/2 + time.Duration(r.Intn(1500))*time.Millisecond)
			reloadDuringOutage()
			time.Sleep(d/2 + time.Duration(r.Intn(1500))*time.Millisecond)
			w.Net.RestartNode(w.Frps)
			for tries := 0; ; tries++ {
				frps, err = w.StartFrps(w.Frps, scfg)
				if err == nil {
					break
				}
				if tries > 20 {
					w.Fail("restart frps: %v", err)
				}
				time.Sleep(500 * time.Millisecond)
			}
		}
		_ = serverDown
	}
	// faults have stopped: within a bounded delay everything is registered and usable again, without operator action.
	// bound: heartbeat/mux detection of the dead transport (<= 90 s + 40 s) + the largest back-off (20 s, jittered) + login
	healedAt := w.Net.Now()
	w.Check("C14.heals-after-faults")
	bound := 200*time.Second + regAll // (+ one registration after the other, each as slow as the plugin makes it)
	ok := w.WaitUntil(bound, 500*time.Millisecond, func() bool {
		for _, p := range ports {
			if !roundTrip(p) {
				return false
			}
		}
		return true
	})
	if !ok {
		viol("heal", "tunnel-not-usable-after-faults", "%d faults (mux=%v tls=%v, %d configuration reloads during outages: proxies now on ports %v); %v after the last one the tunnels are still not usable", nfaults, tcpMux, tlsOn, reloads, ports, w.Net.Now()-healedAt)
	} else if reloads == 2 && roundTrip(20003) {
		viol("heal", "removed-proxy-back-after-outage", "proxy h1 was removed from the configuration during an outage; after the outage its port serves again")
	}
	w.SetSample(map[string]any{"scenario": "heal", "faults": nfaults, "heal_s": (w.Net.Now() - healedAt).Seconds()})
	w.Nontrivial()
}

// (e) while the server is unreachable or refuses, the client does not retry in a tight loop; afterwards it re-registers everything
func livenessUnreachableServer(w *World) {
	viol := lvViol(w)
	token := "lv-token"
	r := w.R
	srv := w.NewScriptServer("10.0.0.1:7000", token)
	mode := w.Knob("outage", 0, 2) // 0 nobody listens, 1 logins refused, 2 alternating
	if mode != 0 {
		srv.RefuseLogin = true
		if err := srv.Start(); err != nil {
			w.Fail("%v", err)
		}
	}
	dials := 0
	w.Net.ConnHook = nil
	c1 := w.Net.NewNode("frpc1", "10.0.1.1")
	if _, err := w.StartFrpc(c1, map[string]any{"serverAddr": "10.0.0.1", "serverPort": 7000, "loginFailExit": false,
		"auth":      map[string]any{"token": token},
		"transport": map[string]any{"tcpMux": false, "connectServerLocalIP": "10.0.1.1", "tls": map[string]any{"enable": false}},
		"proxies": []map[string]any{
			{"name": "u1", "type": "tcp", "localIP": "127.0.0.1", "localPort": 9300, "remotePort": 20005},
			{"name": "u2", "type": "udp", "localIP": "127.0.0.1", "localPort": 9301, "remotePort": 20006},
			{"name": "u3", "type": "stcp", "localIP": "127.0.0.1", "localPort": 9300, "secretKey": "k"}}}); err != nil {
		w.Fail("frpc: %v", err)
	}
	outage := []time.Duration{30 * time.Second, 10 * time.Minute, 6 * time.Hour}[r.Intn(3)]
	t0 := w.Net.Now()
	if mode == 2 {
		// flip between refusing and not listening
		for w.Net.Now()-t0 < outage {
			time.Sleep(outage / 6)
			srv.Stop()
			time.Sleep(outage / 6)
			srv = w.NewScriptServer("10.0.0.1:7000", token)
			srv.RefuseLogin = true
			srv.Start()
		}
	} else {
		time.Sleep(outage)
	}
	el := (w.Net.Now() - t0).Seconds()
	w.Check("C14.no-tight-retry-loop")
	attempts := w.Net.Counter("net.dial_refused") + len(srv.Attempts())
	_ = dials
	// generous cap: the fastest documented schedule is one attempt per second at the very start, 20 s back-off later
	cap := 10 + el/0.9
	if float64(attempts) > cap {
		viol("retry", "retry-storm", "server unavailable (mode %d) for %.0f s: %d connection attempts (cap %.0f)", mode, el, attempts, cap)
	}
	// the server comes back
	if mode == 0 {
		if err := srv.Start(); err != nil {
			w.Fail("%v", err)
		}
	} else {
		srv.mu.Lock()
		srv.RefuseLogin = false
		srv.mu.Unlock()
	}
	back := w.Net.Now()
	w.Check("C14.relogin-and-reregister")
	var ss *SrvSession
	ok := w.WaitUntil(60*time.Second, 200*time.Millisecond, func() bool {
		srv.mu.Lock()
		defer srv.mu.Unlock()
		if len(srv.Sessions) == 0 {
			return false
		}
		ss = srv.Sessions[len(srv.Sessions)-1]
		return true
	})
	if !ok {
		viol("heal", "no-login-after-server-returns", "server available again for 60 s: no login (outage mode %d, %.0f s)", mode, el)
		return
	}
	want := map[string]bool{"u1": false, "u2": false, "u3": false}
	ok = w.WaitUntil(30*time.Second, 200*time.Millisecond, func() bool {
		for _, m := range ss.Received() {
			if m.Type == tNewProxy {
				for n := range want {
					if strings.Contains(string(m.Body), `"proxy_name":"`+n+`"`) {
						want[n] = true
					}
				}
			}
		}
		for _, v := range want {
			if !v {
				return false
			}
		}
		return true
	})
	if !ok {
		viol("heal", "proxies-not-reregistered", "%v after the server returned, registrations seen: %v", w.Net.Now()-back, want)
	}
	w.SetSample(map[string]any{"scenario": "unreachable", "mode": mode, "outage_s": el, "attempts": attempts})
	w.Nontrivial()
}
