package verifharness

import (
	"encoding/json"
	"fmt"
	"os"
	"runtime"
	"testing"
	"testing/cryptotest"
	"testing/synctest"
)

// TestRun executes exactly one simulated run described by the JSON file named
// in $VERIF_RUN and exits the process. One run = one process = one bubble.
func TestRun(t *testing.T) {
	path := os.Getenv("VERIF_RUN")
	if path == "" {
		t.Skip("VERIF_RUN not set")
	}
	if !runtime.SimOverlay {
		t.Fatal("runtime overlay missing")
	}
	b, err := os.ReadFile(path)
	if err != nil {
		fmt.Fprintf(os.Stderr, "HARNESS-ERROR: %v\n", err)
		os.Exit(4)
	}
	in := &RunInput{}
	if err := json.Unmarshal(b, in); err != nil {
		fmt.Fprintf(os.Stderr, "HARNESS-ERROR: %v\n", err)
		os.Exit(4)
	}
	if in.Tier == "" {
		in.Tier = "quick"
	}
	runtime.SimSeed(in.Seed)
	cs := in.CryptoSeed
	if cs == 0 {
		cs = in.Seed
	}
	cryptotest.SetGlobalRandom(t, cs)
	synctest.Test(t, func(t *testing.T) {
		res := runWorld(in)
		writeResult(in, res)
		os.Exit(0)
	})
}
