package verifharness

import (
	"context"
	"crypto/tls"
	"net"
	"time"

	quic "github.com/quic-go/quic-go"

	"verif/sim/simnet"
)

// QUIC transport for scripted peers: quic-go's client over a simulated UDP socket of the peer's node; every
// logical connection (control, work, visitor) is one bidirectional stream, as in frpc.

type quicStreamConn struct {
	quic.Stream
	c quic.Connection
}

func (q *quicStreamConn) LocalAddr() net.Addr  { return q.c.LocalAddr() }
func (q *quicStreamConn) RemoteAddr() net.Addr { return q.c.RemoteAddr() }
func (q *quicStreamConn) Close() error {
	q.Stream.CancelRead(0)
	return q.Stream.Close()
}

type peerQuic struct {
	sock *simnet.UDPConn
	tr   *quic.Transport
	conn quic.Connection
}

// quicConnect opens (or re-uses) the peer's QUIC connection and returns a new stream on it.
func (p *Peer) quicConnect() (net.Conn, error) {
	if p.q == nil || p.q.conn.Context().Err() != nil {
		ua, err := simnet.ResolveUDPAddr("udp", p.Opts.Server)
		if err != nil {
			return nil, err
		}
		sock, err := simnet.ListenUDP("udp", &net.UDPAddr{IP: net.ParseIP(p.Node.IP)})
		if err != nil {
			return nil, err
		}
		cfg := p.Opts.TLSConfig
		if cfg == nil {
			cfg = &tls.Config{InsecureSkipVerify: true}
		} else {
			cfg = cfg.Clone()
		}
		if p.Opts.QUICALPN != "-" {
			cfg.NextProtos = []string{"frp"}
			if p.Opts.QUICALPN != "" {
				cfg.NextProtos = []string{p.Opts.QUICALPN}
			}
		}
		tr := &quic.Transport{Conn: struct{ net.PacketConn }{sock}}
		ctx, cancel := context.WithTimeout(context.Background(), 20*time.Second)
		defer cancel()
		c, err := tr.Dial(ctx, ua, cfg, &quic.Config{MaxIdleTimeout: 30 * time.Second, KeepAlivePeriod: 10 * time.Second, MaxIncomingStreams: 100000})
		if err != nil {
			tr.Close()
			sock.Close()
			return nil, err
		}
		p.q = &peerQuic{sock: sock, tr: tr, conn: c}
	}
	ctx, cancel := context.WithTimeout(context.Background(), 20*time.Second)
	defer cancel()
	s, err := p.q.conn.OpenStreamSync(ctx)
	if err != nil {
		return nil, err
	}
	return &quicStreamConn{Stream: s, c: p.q.conn}, nil
}

func (p *Peer) quicDrop() {
	if p.q != nil {
		p.q.conn.CloseWithError(0, "")
		p.q.tr.Close()
		p.q.sock.Close()
	}
}
