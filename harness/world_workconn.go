package verifharness

import (
	"bufio"
	"encoding/json"
	"fmt"
	"net"
	"strings"
	"sync"
	"time"

	"verif/sim/simnet"
)

// World "workconn" (C11): one user each, right proxy, bounded pool, never orphaned.

func init() { RegisterWorld("workconn", worldWorkConn) }

func worldWorkConn(w *World) {
	token := "wc-token"
	tcpMux := w.KnobBool("tcp_mux", 50)
	maxPool := w.KnobPick("max_pool", 1, 2, 5, 5, 8)
	pool := w.KnobPick("pool", 0, 0, 1, 3, 5, 9)
	uct := w.KnobPick("user_conn_timeout", 2, 3, 5)
	path := w.Knob("accept_path", 0, 4) // 0 direct tcp, 1 tcp group, 2 tcpmux vhost, 3 stcp visitor, 4 tcpmux group
	pathName := path
	if path == 4 {
		path = 2 // users of a tcpmux group connect exactly like users of a single tcpmux proxy
	}
	scfg := map[string]any{
		"bindAddr": "10.0.0.1", "bindPort": 7000, "tcpmuxHTTPConnectPort": 7005,
		"auth":            map[string]any{"token": token},
		"transport":       map[string]any{"tcpMux": tcpMux, "maxPoolCount": maxPool, "heartbeatTimeout": -1},
		"allowPorts":      []map[string]any{{"start": 20000, "end": 20009}},
		"userConnTimeout": uct,
	}
	// visitors may reach the server over QUIC (their address is then a UDP address)
	visitorQUIC := path == 3 && w.KnobBool("visitor_via_quic", 40)
	if visitorQUIC {
		scfg["quicBindPort"] = 7001
	}
	env := w.newLcEnv(scfg, token, PeerOpts{Server: "10.0.0.1:7000", Mux: tcpMux, Token: token})
	env.muxPort = 7005
	env.start()
	r := w.R
	viol := func(oracle, sig, f string, a ...any) { w.Violate("C11", oracle, sig, f, a...) }
	slack := 2 * time.Second

	c := env.newClient("", pool)
	c.KeepTransport = true // this world watches what the server does with connections the client leaves open
	c.WorkMode = w.KnobPick("work_mode", wmGood, wmGood, wmGood, wmLate, wmNever, wmDead)
	c.LateBy = time.Duration(w.KnobPick("late_ms", 100, 1000, 2500, 6000)) * time.Millisecond
	// the pre-requested connections are always supplied properly; the mode applies to later requests
	mode := c.WorkMode
	c.WorkMode = wmGood
	if rr, err := c.login(""); err != nil || mstr(rr, "error") != "" {
		w.Fail("login: %v %v", err, rr)
	}
	want := pool
	if want > maxPool {
		want = maxPool
	}
	time.Sleep(2 * time.Second)
	w.Check("C11.prerequest-count")
	if got := c.ReqWorkCount(); got != want {
		viol("pool", "prerequest-count", "client pool_count=%d, server maxPoolCount=%d: %d work connections requested in advance, want %d", pool, maxPool, got, want)
	}
	pname := "wc"
	var f M
	var addr string
	switch path {
	case 0:
		f = M{"proxy_name": pname, "proxy_type": "tcp", "remote_port": 20001}
		addr = "10.0.0.1:20001"
	case 1:
		f = M{"proxy_name": pname, "proxy_type": "tcp", "remote_port": 20002, "group": "g", "group_key": "k"}
		addr = "10.0.0.1:20002"
	case 2:
		f = M{"proxy_name": pname, "proxy_type": "tcpmux", "multiplexer": "httpconnect", "custom_domains": []string{"wc.example.test"}}
		if pathName == 4 {
			f["group"], f["group_key"] = "mg", "k"
		}
		addr = "10.0.0.1:7005"
	default:
		f = M{"proxy_name": pname, "proxy_type": "stcp", "sk": "sk1", "allow_users": []string{"*"}}
	}
	if rr, got := c.register(f); !got || mstr(rr, "error") != "" {
		w.Fail("register: %v", rr)
	}
	// the endpoint may have been given up and taken again before (a proxy closed and registered anew, a group
	// emptied and formed again): users of the second incarnation are owed the same
	for n := w.KnobPick("reregistrations", 0, 0, 1, 2); n > 0; n-- {
		w.Probe("workconn.reregistered")
		c.CloseProxy(pname)
		c.syncStrong()
		if rr, got := c.register(f); !got || mstr(rr, "error") != "" {
			viol("bridge", "reregistration-refused", "the proxy was closed and registered again on the same session: refused: %v", rr)
			return
		}
	}
	// a neighbour's registration that is refused half-way (its second host is this proxy's) leaves nothing behind that
	// accepts users: a user who names the neighbour's first host is turned away, not let in and left without a peer
	if path == 2 && w.KnobBool("refused_two_host_neighbour", 50) {
		w.Probe("workconn.refused_two_host_neighbour")
		nb := env.newClient("nb", 0)
		if rr, err := nb.login(""); err == nil && mstr(rr, "error") == "" {
			nf := M{"proxy_name": "ghost", "proxy_type": "tcpmux", "multiplexer": "httpconnect", "custom_domains": []string{"ghost.example.test", "wc.example.test"}}
			if pathName == 4 {
				nf["group"], nf["group_key"] = "ghostg", "k"
			}
			if rr, got := nb.register(nf); got && mstr(rr, "error") != "" {
				for i := 0; i < 2; i++ {
					w.Check("C11.no-user-accepted-without-peer")
					uc, err := simnet.DialFrom(fmt.Sprintf("10.0.3.%d", 240+i), "10.0.0.1:7005", 5*time.Second)
					if err != nil {
						continue
					}
					fmt.Fprintf(uc, "CONNECT ghost.example.test:443 HTTP/1.1\r\nHost: ghost.example.test:443\r\n\r\n")
					uc.SetReadDeadline(time.Now().Add(time.Duration(uct)*time.Second + 4*time.Second))
					line, err := bufio.NewReader(uc).ReadString('\n')
					if strings.Contains(line, " 200 ") {
						viol("orphan", "user-accepted-for-refused-proxy", "a tcpmux registration [ghost.example.test, wc.example.test] was refused (second host taken); a user naming ghost.example.test was answered %q although no proxy serves that host", strings.TrimSpace(line))
					} else if ne, ok := err.(net.Error); ok && ne.Timeout() {
						viol("orphan", "user-left-open-for-refused-proxy", "a tcpmux registration [ghost.example.test, wc.example.test] was refused; a user naming ghost.example.test was neither answered nor closed within userConnTimeout+4 s")
					}
					uc.Close()
				}
			}
			nb.Drop()
		}
	}
	c.smu.Lock()
	c.WorkMode = mode
	c.smu.Unlock()

	// tagging echo: every user sends "TAG <n>\n" after the identity line; the work side records tags per conn
	type userRes struct {
		id       int
		local    string
		served   string
		closedAt time.Duration
		start    time.Duration
		err      error
		echoed   bool
	}
	nusers := w.KnobPick("nusers", 1, 2, 4, 8, 16)
	// users that arrive around the end of the session (below) share the routine
	nlate := 0
	if w.KnobBool("users_around_session_end", 50) {
		nlate = w.KnobPick("late_users", 1, 3, 6)
	}
	results := make([]*userRes, nusers+nlate)
	var wg sync.WaitGroup
	var userRoutine func(i int, delay time.Duration)
	for i := 0; i < nusers; i++ {
		results[i] = &userRes{id: i}
		wg.Add(1)
		delay := time.Duration(r.Range(0, 400)) * time.Millisecond
		if r.Intn(2) == 0 {
			delay = 0
		}
		i := i
		w.UserN.Go(func() { userRoutine(i, delay) })
	}
	userRoutine = func(i int, delay time.Duration) {
		{
			defer wg.Done()
			time.Sleep(delay)
			u := results[i]
			u.start = w.Net.Now()
			var conn net.Conn
			var err error
			ip := fmt.Sprintf("10.0.3.%d", 10+i)
			switch path {
			case 3:
				// a scripted visitor: open a visitor connection signed with the secret key
				v := env.newClient("", 0)
				if visitorQUIC {
					v.Opts.QUIC, v.Opts.Server, v.Opts.Mux, v.Opts.TLS = true, "10.0.0.1:7001", false, false
				}
				vc, e2 := v.Connect()
				if e2 != nil {
					u.err = e2
					return
				}
				ts := time.Now().Unix()
				writeMsg(vc, tNewVisitorConn, M{"proxy_name": pname, "sign_key": authKey("sk1", ts), "timestamp": ts})
				typ, body, e3 := readFrame(vc)
				vr := M{}
				json.Unmarshal(body, &vr)
				if e3 != nil || typ != tNewVisitorConnResp || mstr(vr, "error") != "" {
					u.err = fmt.Errorf("visitor conn refused: %v %s", e3, body)
					vc.Close()
					return
				}
				conn = vc
				u.local = vc.LocalAddr().String()
			default:
				var sc *simnet.Conn
				sc, err = simnet.DialFrom(ip, addr, 10*time.Second)
				if err != nil {
					u.err = err
					return
				}
				conn = sc
				u.local = sc.LocalAddr().String()
				if path == 2 {
					fmt.Fprintf(conn, "CONNECT wc.example.test:443 HTTP/1.1\r\nHost: wc.example.test:443\r\n\r\n")
				}
			}
			defer conn.Close()
			br := bufio.NewReader(conn)
			conn.SetReadDeadline(time.Now().Add(time.Duration(uct)*time.Second + 20*time.Second))
			if path == 2 {
				if _, err := readUntil(br, "\r\n\r\n", 4096); err != nil {
					u.err = err
					u.closedAt = w.Net.Now()
					return
				}
			}
			line, err := br.ReadString('\n')
			if err != nil {
				u.err = err
				u.closedAt = w.Net.Now()
				return
			}
			u.served = strings.TrimSpace(strings.TrimPrefix(line, "ID "))
			fmt.Fprintf(conn, "TAG %d\n", i)
			echo, err := br.ReadString('\n')
			if err == nil && echo == fmt.Sprintf("TAG %d\n", i) {
				u.echoed = true
			} else {
				u.err = fmt.Errorf("echo %q %v", echo, err)
			}
		}
	}
	wg.Wait()
	time.Sleep(500 * time.Millisecond)

	// user-side verdicts
	for _, u := range results[:nusers] {
		w.Check("C11.user-bridged-or-closed")
		if u.served != "" {
			if u.served != c.Name+"/"+pname {
				viol("bridge", "served-by-wrong-proxy", "user %d was bridged to %q, want %s/%s", u.id, u.served, c.Name, pname)
			}
			if !u.echoed {
				viol("bridge", "bridged-but-not-transparent", "user %d: %v", u.id, u.err)
			}
			continue
		}
		if u.closedAt == 0 {
			if u.err != nil && u.start == 0 {
				continue
			}
			if strings.Contains(fmt.Sprint(u.err), "refused") {
				if mode == wmGood {
					viol("bridge", "user-refused", "user %d could not connect: %v", u.id, u.err)
				}
				continue
			}
			viol("bridge", "user-left-without-peer", "user %d neither bridged nor closed: %v", u.id, u.err)
			continue
		}
		lim := time.Duration(uct)*time.Second + slack + 400*time.Millisecond
		if mode == wmDead {
			// every dead pooled connection may cost one more wait
			lim = time.Duration(uct*(want+2))*time.Second + slack
		}
		if el := u.closedAt - u.start; el > lim {
			viol("bridge", "user-closed-too-late", "user %d was left open for %v without a peer (userConnTimeout %ds)", u.id, el, uct)
		}
		if mode == wmGood {
			viol("bridge", "user-not-bridged-with-good-client", "user %d was not bridged although the client supplies good work connections: %v", u.id, u.err)
		}
	}
	// work-side verdicts: StartWorkConn names the proxy and the user's address; one user per work conn
	c.smu.Lock()
	starts := append([]startRec{}, c.Starts...)
	c.smu.Unlock()
	locals := map[string]bool{}
	for _, u := range results[:nusers] {
		if u.local != "" {
			locals[u.local] = true
		}
	}
	seenSrc := map[string]int{}
	for _, s := range starts {
		w.Check("C11.startworkconn-contents")
		if s.Proxy != pname {
			viol("start", "wrong-proxy-name", "StartWorkConn names %q, the only proxy is %q", s.Proxy, pname)
		}
		if s.Src == "" {
			viol("start", "user-address-not-announced", "StartWorkConn for proxy %q announces no user address (accept path %d, visitor over quic=%v)", s.Proxy, pathName, visitorQUIC)
		}
		if s.Src != "" {
			if !locals[s.Src] {
				viol("start", "wrong-user-address", "StartWorkConn announces user address %s which no user has (users: %v)", s.Src, locals)
			}
			seenSrc[s.Src]++
			if seenSrc[s.Src] > 1 {
				viol("start", "user-announced-twice", "user address %s was announced on %d work connections", s.Src, seenSrc[s.Src])
			}
		}
	}
	w.Check("C11.request-bound")
	// no exact per-user figure is promised; only a request storm is flagged (every retry over a dead pooled
	// connection may legitimately cost further requests)
	if got, lim := c.ReqWorkCount(), want+2*(want+2)*nusers+5; got > lim {
		viol("pool", "request-storm", "%d ReqWorkConn over the session with %d users and %d pre-requested", got, nusers, want)
	}

	// surplus offers are refused and closed
	surplusRan := false
	if w.KnobBool("surplus", 60) {
		surplusRan = true
		c.smu.Lock()
		c.WorkMode = wmNever
		c.smu.Unlock()
		n := want + 200
		var offered []net.Conn
		for i := 0; i < n; i++ {
			cn, err := c.OfferWorkConn(c.RunID, true, token)
			if err != nil {
				break
			}
			offered = append(offered, cn)
		}
		time.Sleep(3 * time.Second)
		open := 0
		for _, cn := range offered {
			if !connPeerClosed(cn) {
				open++
			}
		}
		w.Check("C11.surplus-closed")
		w.Probe("workconn.surplus")
		if open > want+32 {
			viol("pool", "surplus-parked", "%d unsolicited work connections offered, %d still open after 3 s (pool %d)", len(offered), open, want)
		}
		c.smu.Lock()
		c.Offered = append(c.Offered, offered...)
		c.smu.Unlock()
	}

	// session end: everything pooled is closed; arrivals during teardown are closed, not parked
	var lateOffers []net.Conn
	var lmu sync.Mutex
	stopOffers := make(chan struct{})
	// (raw offers nobody services: not together with users that may be bridged to them)
	if w.KnobBool("offer_during_teardown", 70) && !(nlate > 0 && !surplusRan && mode == wmGood) {
		c.Node.Go(func() {
			for i := 0; i < 12; i++ {
				select {
				case <-stopOffers:
					return
				default:
				}
				cn, err := c.OfferWorkConn(c.RunID, true, token)
				if err == nil {
					lmu.Lock()
					lateOffers = append(lateOffers, cn)
					lmu.Unlock()
				}
				time.Sleep(time.Duration(r.Range(0, 3)) * time.Millisecond)
			}
		})
		time.Sleep(time.Duration(r.Range(0, 10)) * time.Millisecond)
	}
	// users that arrive just before, at, and just after the end of the session: each is served, refused, or closed
	// in time - never left open without a peer, whatever the accept path was doing at that instant
	// (only with a client that services what it offers: after the surplus phase the pool holds connections the
	// scripted client ignores, and a user bridged to one of those has a peer - a silent one - as far as frps can tell)
	if surplusRan || mode != wmGood {
		nlate = 0
	}
	for j := 0; j < nlate; j++ {
		i := nusers + j
		results[i] = &userRes{id: i}
		wg.Add(1)
		delay := time.Duration(r.Range(0, 30)) * time.Millisecond
		w.UserN.Go(func() { userRoutine(i, delay) })
	}
	if nlate > 0 {
		time.Sleep(time.Duration(r.Range(0, 30)) * time.Millisecond)
	}
	if tcpMux {
		// closing only the control stream keeps the transport usable for late offers
		c.Ctl.Close()
	} else {
		c.Ctl.Close()
	}
	w.Probe("workconn.session_end")
	if nlate > 0 {
		wg.Wait()
		w.Check("C11.user-around-session-end")
		for _, u := range results[nusers : nusers+nlate] {
			if u.served != "" || u.closedAt == 0 {
				continue // served, or never connected (refused)
			}
			lim := time.Duration(uct)*time.Second + slack + 400*time.Millisecond
			if mode == wmDead {
				lim = time.Duration(uct*(want+2))*time.Second + slack
			}
			if el := u.closedAt - u.start; el > lim {
				viol("bridge", "user-left-without-peer-at-session-end", "a user that connected %v before/after the session ended (accept path %d) was left open for %v without a peer (userConnTimeout %ds): %v", u.start, pathName, el, uct, u.err)
			}
		}
	}
	time.Sleep(5 * time.Second)
	close(stopOffers)
	time.Sleep(time.Second)
	w.Check("C11.no-orphans-after-session-end")
	c.smu.Lock()
	held := append([]net.Conn{}, c.Offered...)
	c.smu.Unlock()
	lmu.Lock()
	held = append(held, lateOffers...)
	nl := len(lateOffers)
	lmu.Unlock()
	orphans, deadHeld := 0, 0
	for _, cn := range held {
		c.smu.Lock()
		mine := c.offClosed[cn]
		c.smu.Unlock()
		if mine {
			// the client closed this one itself: the server must still let go of its end once it has found it dead
			// (simulator's view of the server endpoint; plain transports only)
			if sc, ok := cn.(*simnet.Conn); ok && !sc.OtherEndClosed() {
				deadHeld++
			}
			continue
		}
		if !connPeerClosed(cn) {
			orphans++
		}
	}
	if orphans > 0 {
		viol("orphan", "work-conn-parked-after-session-end", "%d of %d work connections (%d offered around teardown) are still open 6 s after the session ended", orphans, len(held), nl)
	}
	if deadHeld > 0 {
		viol("orphan", "dead-work-conn-never-closed-by-server", "%d work connections the client had closed are still held open by the server 6 s after the session ended", deadHeld)
	}
	w.SetSample(map[string]any{"pool": pool, "max_pool": maxPool, "mode": mode, "users": nusers, "path": pathName, "starts": len(starts)})
	w.Nontrivial()
}
