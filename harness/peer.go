package verifharness

// Scripted peer: an independent implementation of the frp control protocol
// (framing, JSON field names, md5 auth digest, pbkdf2/AES-128-CFB control
// cipher), written from the released protocol. It never calls pkg/msg,
// pkg/auth or golib/crypto, so that a change in those is seen as an
// interoperability failure rather than silently mirrored.

import (
	"crypto/aes"
	"crypto/cipher"
	"crypto/md5"
	"crypto/rand"
	"crypto/sha1"
	"crypto/tls"
	"encoding/binary"
	"encoding/hex"
	"encoding/json"
	"errors"
	"fmt"
	"golang.org/x/net/websocket"
	"io"
	"net"
	"strconv"
	"sync"
	"sync/atomic"
	"time"

	fmux "github.com/hashicorp/yamux"
	"golang.org/x/crypto/pbkdf2"

	"verif/sim/simnet"
)

// message type bytes of the released protocol
const (
	tLogin              = 'o'
	tLoginResp          = '1'
	tNewProxy           = 'p'
	tNewProxyResp       = '2'
	tCloseProxy         = 'c'
	tNewWorkConn        = 'w'
	tReqWorkConn        = 'r'
	tStartWorkConn      = 's'
	tNewVisitorConn     = 'v'
	tNewVisitorConnResp = '3'
	tPing               = 'h'
	tPong               = '4'
	tUDPPacket          = 'u'
	tNatHoleVisitor     = 'i'
	tNatHoleClient      = 'n'
	tNatHoleResp        = 'm'
	tNatHoleSid         = '5'
	tNatHoleReport      = '6'
)

var allTypeBytes = []byte{tLogin, tLoginResp, tNewProxy, tNewProxyResp, tCloseProxy, tNewWorkConn, tReqWorkConn, tStartWorkConn,
	tNewVisitorConn, tNewVisitorConnResp, tPing, tPong, tUDPPacket, tNatHoleVisitor, tNatHoleClient, tNatHoleResp, tNatHoleSid, tNatHoleReport}

const maxMsgLen = 10240

type M = map[string]any

// writeFrame writes type byte, 8-byte big-endian length, body.
func writeFrame(w io.Writer, typ byte, body []byte) error {
	buf := make([]byte, 9+len(body))
	buf[0] = typ
	binary.BigEndian.PutUint64(buf[1:9], uint64(len(body)))
	copy(buf[9:], body)
	_, err := w.Write(buf)
	return err
}

func writeMsg(w io.Writer, typ byte, v any) error {
	b, err := json.Marshal(v)
	if err != nil {
		return err
	}
	return writeFrame(w, typ, b)
}

var errFrameTooLong = errors.New("peer: frame length out of range")

func readFrame(r io.Reader) (byte, []byte, error) {
	h := make([]byte, 9)
	if _, err := io.ReadFull(r, h); err != nil {
		return 0, nil, err
	}
	l := int64(binary.BigEndian.Uint64(h[1:9]))
	if l < 0 || l > maxMsgLen {
		return h[0], nil, errFrameTooLong
	}
	body := make([]byte, l)
	if _, err := io.ReadFull(r, body); err != nil {
		return h[0], nil, err
	}
	return h[0], body, nil
}

// authKey is the login/ping/work-connection digest: hex(md5(token + decimal timestamp)).
func authKey(token string, ts int64) string {
	s := md5.Sum([]byte(token + strconv.FormatInt(ts, 10)))
	return hex.EncodeToString(s[:])
}

// ctlCipher wraps a connection with the control-channel cipher: AES-128-CFB, key
// pbkdf2-sha1(token, salt "frp", 64 iterations), each direction prefixed by its IV.
type ctlCipher struct {
	conn net.Conn
	key  []byte
	enc  cipher.Stream
	dec  cipher.Stream
	wmu  sync.Mutex
}

func newCtlCipher(conn net.Conn, token string) *ctlCipher {
	return &ctlCipher{conn: conn, key: pbkdf2.Key([]byte(token), []byte("frp"), 64, 16, sha1.New)}
}

func (c *ctlCipher) Write(p []byte) (int, error) {
	c.wmu.Lock()
	defer c.wmu.Unlock()
	var out []byte
	if c.enc == nil {
		iv := make([]byte, 16)
		rand.Read(iv)
		blk, _ := aes.NewCipher(c.key)
		c.enc = cipher.NewCFBEncrypter(blk, iv)
		out = append(out, iv...)
	}
	ct := make([]byte, len(p))
	c.enc.XORKeyStream(ct, p)
	out = append(out, ct...)
	if _, err := c.conn.Write(out); err != nil {
		return 0, err
	}
	return len(p), nil
}

func (c *ctlCipher) Read(p []byte) (int, error) {
	if c.dec == nil {
		iv := make([]byte, 16)
		if _, err := io.ReadFull(c.conn, iv); err != nil {
			return 0, err
		}
		blk, _ := aes.NewCipher(c.key)
		c.dec = cipher.NewCFBDecrypter(blk, iv)
	}
	n, err := c.conn.Read(p)
	if n > 0 {
		c.dec.XORKeyStream(p[:n], p[:n])
	}
	return n, err
}

// PeerOpts selects the transport of a scripted peer.
type PeerOpts struct {
	Server     string // "10.0.0.1:7000"
	TLS        bool
	CustomByte bool // send the 0x17 head byte before the TLS handshake
	Mux        bool
	Token      string // token used for the control cipher and digests (may be wrong on purpose)
	TLSConfig  *tls.Config
	WS         bool // open the transport as a websocket (path /~!frp) first; TLS, if any, runs inside it
	// RawKeys: privilege keys are bearer strings (OIDC) used verbatim instead of md5(token+timestamp);
	// LoginKey is the one sent in Login, the "token" argument of Ping/OfferWorkConn is the key itself
	RawKeys  bool
	LoginKey string
	// QUIC: the transport is a QUIC connection to Server (the server's quicBindPort); every logical connection is
	// a stream. QUICALPN: "" = the protocol name frp uses, "-" = none offered, anything else = offered verbatim
	QUIC     bool
	QUICALPN string
}

// RecvMsg is one control message received by a peer.
type RecvMsg struct {
	Type byte
	Body []byte
	At   time.Duration
	Seq  int
}

// Peer is a scripted frp client.
type Peer struct {
	w *World
	// LoginExtra: further fields of the Login message sent by Login
	LoginExtra M
	Name       string
	Node       *simnet.Node
	Opts       PeerOpts
	sess       *fmux.Session
	Ctl        net.Conn // transport-level control connection (stream)
	rw         io.ReadWriter
	RunID      string

	mu       sync.Mutex
	cond     *sync.Cond
	Inbox    []RecvMsg
	consumed int
	ReqWork  int // ReqWorkConn messages seen
	Closed   bool
	ClosedAt time.Duration
	ReadErr  error
	OnMsg    func(m RecvMsg) // called from the reader goroutine
	// KeepTransport keeps the transport and work connections open after the control connection has closed.
	KeepTransport bool
	conns         []net.Conn     // every logical connection opened (non-mux mode: separate transports)
	raws          []*simnet.Conn // every transport connection dialled
	q             *peerQuic
	PauseRead     atomic.Bool // the reader stops taking bytes off the control connection (a peer that has stopped reading)
	cmu           sync.Mutex
	dropped       bool // Drop was called: the peer is gone and opens nothing any more
}

func (p *Peer) extra() []net.Conn {
	p.mu.Lock()
	defer p.mu.Unlock()
	return append([]net.Conn{}, p.conns...)
}

// NewPeer creates a scripted client on its own node.
func (w *World) NewPeer(name, ip string, o PeerOpts) *Peer {
	p := &Peer{w: w, Name: name, Opts: o}
	p.Node = w.Net.NewNode(name, ip)
	p.cond = sync.NewCond(&p.mu)
	return p
}

// rawConn opens a transport connection (TCP, optional TLS) to the server.
func (p *Peer) rawConn() (net.Conn, error) {
	c, err := simnet.DialFrom(p.Node.IP, p.Opts.Server, 10*time.Second)
	if err != nil {
		return nil, err
	}
	p.mu.Lock()
	p.raws = append(p.raws, c)
	p.mu.Unlock()
	var conn net.Conn = c
	if p.Opts.WS {
		cfg, err := websocket.NewConfig("ws://"+p.Opts.Server+"/~!frp", "http://"+p.Opts.Server)
		if err != nil {
			c.Close()
			return nil, err
		}
		c.SetDeadline(time.Now().Add(20 * time.Second))
		wc, err := websocket.NewClient(cfg, c)
		if err != nil {
			c.Close()
			return nil, err
		}
		c.SetDeadline(time.Time{})
		wc.PayloadType = websocket.BinaryFrame
		conn = wc
	}
	if p.Opts.TLS {
		if p.Opts.CustomByte {
			if _, err := conn.Write([]byte{0x17}); err != nil {
				conn.Close()
				return nil, err
			}
		}
		cfg := p.Opts.TLSConfig
		if cfg == nil {
			cfg = &tls.Config{InsecureSkipVerify: true}
		}
		tc := tls.Client(conn, cfg)
		conn.SetDeadline(time.Now().Add(20 * time.Second))
		if err := tc.Handshake(); err != nil {
			conn.Close()
			return nil, err
		}
		conn.SetDeadline(time.Time{})
		conn = tc
	}
	return conn, nil
}

// Connect returns a new logical connection to the server: a mux stream if Mux, else a new transport connection.
func (p *Peer) Connect() (net.Conn, error) {
	p.mu.Lock()
	gone := p.dropped
	p.mu.Unlock()
	if gone {
		// (a request of the server that was still in flight when the peer went away must not bring it back: a
		// transport opened now would belong to nobody and stay open for the rest of the run)
		return nil, fmt.Errorf("peer %s has gone away", p.Name)
	}
	if p.Opts.QUIC {
		c, err := p.quicConnect()
		if err == nil {
			p.mu.Lock()
			p.conns = append(p.conns, c)
			p.mu.Unlock()
		}
		return c, err
	}
	if !p.Opts.Mux {
		c, err := p.rawConn()
		if err == nil {
			p.mu.Lock()
			p.conns = append(p.conns, c)
			p.mu.Unlock()
		}
		return c, err
	}
	// one transport per peer: a second caller waits for the first one's session instead of dialling its own
	// (whose session would replace the first in p.sess and leave the first transport open for ever)
	p.cmu.Lock()
	defer p.cmu.Unlock()
	if p.sess == nil || p.sess.IsClosed() {
		c, err := p.rawConn()
		if err != nil {
			return nil, err
		}
		cfg := fmux.DefaultConfig()
		cfg.LogOutput = io.Discard
		cfg.KeepAliveInterval = 30 * time.Second
		cfg.MaxStreamWindowSize = 6 * 1024 * 1024
		s, err := fmux.Client(c, cfg)
		if err != nil {
			c.Close()
			return nil, err
		}
		p.sess = s
	}
	return p.sess.OpenStream()
}

// LoginRaw sends a login message built from fields and returns the raw response.
// On success the control cipher is installed and the reader started.
func (p *Peer) LoginRaw(fields M) (resp M, err error) {
	restore := p.Node.Enter()
	defer restore()
	conn, err := p.Connect()
	if err != nil {
		return nil, err
	}
	p.Ctl = conn
	if err := writeMsg(conn, tLogin, fields); err != nil {
		conn.Close()
		return nil, err
	}
	conn.SetReadDeadline(time.Now().Add(30 * time.Second))
	typ, body, err := readFrame(conn)
	conn.SetReadDeadline(time.Time{})
	if err != nil {
		conn.Close()
		return nil, err
	}
	if typ != tLoginResp {
		conn.Close()
		return nil, fmt.Errorf("peer: expected LoginResp, got type %q", typ)
	}
	resp = M{}
	if err := json.Unmarshal(body, &resp); err != nil {
		conn.Close()
		return nil, fmt.Errorf("peer: LoginResp body: %v", err)
	}
	if e, _ := resp["error"].(string); e != "" {
		// the server closes the connection after an error response
		return resp, nil
	}
	p.RunID, _ = resp["run_id"].(string)
	p.rw = newCtlCipher(conn, p.Opts.Token)
	p.Node.Go(p.reader)
	return resp, nil
}

// Login logs in with valid credentials for the given user/run id/pool count.
func (p *Peer) Login(user, runID string, pool int) (M, error) {
	ts := time.Now().Unix()
	f := M{"version": "0.62.0", "os": "linux", "arch": "amd64", "user": user, "timestamp": ts,
		"privilege_key": authKey(p.Opts.Token, ts), "run_id": runID, "pool_count": pool}
	if p.Opts.RawKeys {
		f["privilege_key"] = p.Opts.LoginKey
	}
	for k, v := range p.LoginExtra {
		f[k] = v
	}
	return p.LoginRaw(f)
}

func (p *Peer) reader() {
	seq := 0
	for {
		for p.PauseRead.Load() {
			time.Sleep(50 * time.Millisecond)
		}
		typ, body, err := readFrame(p.rw)
		p.mu.Lock()
		if err != nil {
			p.Closed = true
			p.ClosedAt = p.w.Net.Now()
			p.ReadErr = err
			keep := p.KeepTransport
			p.cond.Broadcast()
			p.mu.Unlock()
			if !keep {
				// like a real client: once the control connection is gone the whole transport is given up,
				// which also ends every work connection this identity still has open
				if p.sess != nil {
					p.sess.Close()
				}
				for _, c := range p.extra() {
					c.Close()
				}
			}
			return
		}
		m := RecvMsg{typ, body, p.w.Net.Now(), seq}
		seq++
		p.Inbox = append(p.Inbox, m)
		if typ == tReqWorkConn {
			p.ReqWork++
		}
		cb := p.OnMsg
		p.cond.Broadcast()
		p.mu.Unlock()
		if cb != nil {
			cb(m)
		}
	}
}

// Send writes one control message (encrypted channel).
func (p *Peer) Send(typ byte, v any) error {
	if p.rw == nil {
		return errors.New("peer: not logged in")
	}
	return writeMsg(p.rw, typ, v)
}

// SendRawFrame writes an arbitrary frame on the encrypted control channel.
func (p *Peer) SendRawFrame(typ byte, body []byte) error {
	if p.rw == nil {
		return errors.New("peer: not logged in")
	}
	return writeFrame(p.rw, typ, body)
}

// WaitMsg waits until a message satisfying pred has been received (scanning from the start
// of the inbox each time a new message arrives) or the timeout elapses or the control closes.
func (p *Peer) WaitMsg(timeout time.Duration, pred func(m RecvMsg) bool) (RecvMsg, bool) {
	deadline := time.Now().Add(timeout)
	tm := time.AfterFunc(timeout, func() {
		p.mu.Lock()
		p.cond.Broadcast()
		p.mu.Unlock()
	})
	defer tm.Stop()
	p.mu.Lock()
	defer p.mu.Unlock()
	seen := 0
	for {
		for ; seen < len(p.Inbox); seen++ {
			if pred(p.Inbox[seen]) {
				return p.Inbox[seen], true
			}
		}
		if p.Closed || !time.Now().Before(deadline) {
			return RecvMsg{}, false
		}
		p.cond.Wait()
	}
}

// WaitClosed waits for the control connection to be closed by the server.
func (p *Peer) WaitClosed(timeout time.Duration) bool {
	tm := time.AfterFunc(timeout, func() {
		p.mu.Lock()
		p.cond.Broadcast()
		p.mu.Unlock()
	})
	defer tm.Stop()
	deadline := time.Now().Add(timeout)
	p.mu.Lock()
	defer p.mu.Unlock()
	for !p.Closed && time.Now().Before(deadline) {
		p.cond.Wait()
	}
	return p.Closed
}

func (p *Peer) IsClosed() bool {
	p.mu.Lock()
	defer p.mu.Unlock()
	return p.Closed
}

func (p *Peer) ReqWorkCount() int {
	p.mu.Lock()
	defer p.mu.Unlock()
	return p.ReqWork
}

// NewProxy registers a proxy and waits for the matching response after the given inbox position.
func (p *Peer) NewProxy(fields M, timeout time.Duration) (M, bool) {
	name, _ := fields["proxy_name"].(string)
	p.mu.Lock()
	from := len(p.Inbox)
	p.mu.Unlock()
	if err := p.Send(tNewProxy, fields); err != nil {
		return nil, false
	}
	var out M
	_, ok := p.WaitMsg(timeout, func(m RecvMsg) bool {
		if m.Seq < from || m.Type != tNewProxyResp {
			return false
		}
		r := M{}
		if json.Unmarshal(m.Body, &r) != nil {
			return false
		}
		if n, _ := r["proxy_name"].(string); n == name {
			out = r
			return true
		}
		return false
	})
	return out, ok
}

// CloseProxy sends a close request (no reply is defined by the protocol).
func (p *Peer) CloseProxy(name string) error {
	return p.Send(tCloseProxy, M{"proxy_name": name})
}

// Ping sends a heartbeat; key fields are included when withKey.
func (p *Peer) Ping(withKey bool, token string) error {
	f := M{}
	if withKey {
		ts := time.Now().Unix()
		f["timestamp"] = ts
		f["privilege_key"] = authKey(token, ts)
		if p.Opts.RawKeys {
			f["privilege_key"] = token
		}
	}
	return p.Send(tPing, f)
}

// WorkConn opens a work connection announcing runID and waits for StartWorkConn (or close).
type WorkConn struct {
	Conn  net.Conn
	Start M
	Err   error
}

// OfferWorkConn opens a connection and sends NewWorkConn; it does not wait for StartWorkConn.
func (p *Peer) OfferWorkConn(runID string, withKey bool, token string) (net.Conn, error) {
	restore := p.Node.Enter()
	defer restore()
	conn, err := p.Connect()
	if err != nil {
		return nil, err
	}
	f := M{"run_id": runID}
	if withKey {
		ts := time.Now().Unix()
		f["timestamp"] = ts
		f["privilege_key"] = authKey(token, ts)
		if p.Opts.RawKeys {
			f["privilege_key"] = token
		}
	}
	if err := writeMsg(conn, tNewWorkConn, f); err != nil {
		conn.Close()
		return nil, err
	}
	return conn, nil
}

// AwaitStart reads the StartWorkConn message from a work connection.
func AwaitStart(conn net.Conn, timeout time.Duration) (M, error) {
	if timeout > 0 {
		conn.SetReadDeadline(time.Now().Add(timeout))
		defer conn.SetReadDeadline(time.Time{})
	}
	typ, body, err := readFrame(conn)
	if err != nil {
		return nil, err
	}
	if typ != tStartWorkConn {
		return nil, fmt.Errorf("peer: expected StartWorkConn, got %q", typ)
	}
	m := M{}
	if err := json.Unmarshal(body, &m); err != nil {
		return nil, err
	}
	return m, nil
}

// Drop closes the peer's transport abruptly.
// ServerGone reports (simulator's view) whether the server has closed its end of every transport connection
// this peer ever dialled: only then has everything the peer sent been consumed or discarded.
func (p *Peer) ServerGone() bool {
	p.mu.Lock()
	defer p.mu.Unlock()
	if p.Opts.QUIC {
		return p.q == nil || p.q.conn.Context().Err() != nil
	}
	for _, c := range p.raws {
		if !c.OtherEndClosed() {
			return false
		}
	}
	return true
}

func (p *Peer) Drop() {
	p.mu.Lock()
	p.dropped = true
	p.mu.Unlock()
	p.quicDrop()
	if p.sess != nil {
		p.sess.Close()
	}
	if p.Ctl != nil {
		p.Ctl.Close()
	}
}

func mstr(m M, k string) string {
	s, _ := m[k].(string)
	return s
}
