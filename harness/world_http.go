package verifharness

import (
	"bufio"
	"bytes"
	"crypto/tls"
	"encoding/base64"
	"fmt"
	"net"
	"net/http"
	"strings"
	"sync"
	"time"

	"verif/sim/simnet"
)

// World "http" (C02): real frps + real frpc with http proxies, raw HTTP/1.1
// users and a recording backend.

func init() { RegisterWorld("http", worldHTTP) }

type httpCase struct {
	id      int
	req     *rawMsg
	resp    *rawMsg // what the backend will answer
	upgrade bool
	head    bool
	seen    *rawMsg // what the backend recorded
	xff     string  // X-Forwarded-For sent by the user ("" none)
	user    string  // user's address
	slowAt  int     // the backend pauses for longer than the vhost's response-header timeout after this many body bytes (0 = no pause)
	wantAt  string  // backend that must serve it ("web" or "web2")
	seenAt  string
}

type httpWorld struct {
	w         *World
	mu        sync.Mutex
	cases     map[int]*httpCase
	tunnels   map[string]*httpTunnel
	streamAck map[string]chan struct{} // interactive streams: closed by the user once the first piece has arrived
	// plugin worlds
	userTLS    *tls.Config // users speak TLS to the public endpoint
	backendTLS *tls.Config // the backend speaks TLS
	xffMode    int         // 0: chain + user's address, 1: not checked
	// the plugin terminates HTTP on a work connection wrapped in the encryption/compression stream readers
	pluginStreamWrapped bool
	timeout             int  // vhostHTTPTimeout of the run (seconds)
	tunnelMax           int  // byte budget of one tunnel direction
	frontVhost          bool // the http vhost of frps (with its idle work-connection pool) is in front of the plugin
	protected           bool // the proxies are password-protected: every request carries its route's credentials, which the backend sees too
	twoRoutes           bool // a second proxy on the same host, routed by http user "alice", with its own backend
}

const knownKeepAliveSig = "plugin-keepalive-broken-by-latched-read-timeout-with-encryption-or-compression"

func (hw *httpWorld) viol(oracle, sig, f string, a ...any) {
	if hw.w.In.Property == "C05" && sig == knownKeepAliveSig {
		return // the C05 batch looks at the path between frpc and frps only; this listed C02 finding is C02's to report
	}
	hw.w.Violate("C02", oracle, sig, f, a...)
}

var tokenChars = "abcdefghijklmnopqrstuvwxyzABCDEFGHIJKLMNOPQRSTUVWXYZ0123456789-_.~"

func randToken(r *simnet.Rand, n int) string {
	b := make([]byte, n)
	for i := range b {
		b[i] = tokenChars[r.Intn(len(tokenChars))]
	}
	return string(b)
}

func worldHTTP(w *World) {
	hw := &httpWorld{w: w, cases: map[int]*httpCase{}}
	token := "http-token"
	r := w.R
	share := w.KnobBool("vhost_shares_bind_port", 30)
	vport := 8080
	if share {
		vport = 7000
	}
	timeout := w.KnobPick("vhost_http_timeout", 2, 5, 60)
	// a short response-header timeout on a slow simulated path (small window x long latency, or byte-sized segments)
	// makes a prompt backend look slow whenever several exchanges share the path: frps then answers 504 as configured.
	// Short timeouts are only drawn together with a path that can carry the run's traffic well within them.
	if cfg := w.Net.Cfg(); timeout < 60 {
		slow := cfg.MSS < 64
		if lat := cfg.BaseLatency + cfg.Jitter; lat > 0 && float64(cfg.Window)/(2*lat.Seconds())*float64(timeout) < 1<<20 {
			slow = true
		}
		if slow {
			timeout = 60
		}
	}
	hw.timeout = timeout
	tcpMux := w.KnobBool("tcp_mux", 65)
	scfg := map[string]any{
		"bindAddr": "10.0.0.1", "bindPort": 7000, "vhostHTTPPort": vport, "vhostHTTPTimeout": timeout,
		"auth":      map[string]any{"token": token},
		"transport": map[string]any{"tcpMux": tcpMux},
	}
	if _, err := w.StartFrps(w.Frps, scfg); err != nil {
		w.Fail("frps: %v", err)
	}
	rewriteHost := ""
	if w.KnobBool("host_rewrite", 40) {
		rewriteHost = "rewritten.internal"
	}
	setReq := w.KnobBool("request_headers_set", 50)
	setResp := w.KnobBool("response_headers_set", 50)
	enc, comp := w.KnobBool("enc", 40), w.KnobBool("comp", 40)
	limit := w.KnobPick("limit", 0, 0, 0, 1, 2)
	tr := map[string]any{"useEncryption": enc, "useCompression": comp}
	if limit > 0 {
		tr["bandwidthLimit"] = "512KB"
		tr["bandwidthLimitMode"] = []string{"", "client", "server"}[limit]
	}
	pa := map[string]any{"name": "web", "type": "http", "localIP": "127.0.0.1", "localPort": 9100, "customDomains": []string{"a.example.test"}, "transport": tr}
	if rewriteHost != "" {
		pa["hostHeaderRewrite"] = rewriteHost
	}
	if setReq {
		pa["requestHeaders"] = map[string]any{"set": map[string]string{"X-From-Frp": "yes", "X-Hdr-0": "overridden", "x-hdr-1": "forced"}}
	}
	if setResp {
		pa["responseHeaders"] = map[string]any{"set": map[string]string{"X-Resp-Frp": "1"}}
	}
	hw.twoRoutes = w.KnobBool("second_route_by_user", 50)
	hw.protected = w.KnobBool("password_protected", 35)
	if hw.protected {
		pa["httpUser"], pa["httpPassword"] = "carol", "pw-c"
	}
	proxies := []map[string]any{pa}
	if hw.twoRoutes {
		pb := map[string]any{}
		for k, v := range pa {
			pb[k] = v
		}
		pb["name"], pb["localPort"], pb["routeByHTTPUser"] = "web2", 9102, "alice"
		if hw.protected {
			pb["httpUser"], pb["httpPassword"] = "alice", "pw-a"
		}
		proxies = append(proxies, pb)
	}
	pdead := map[string]any{"name": "dead", "type": "http", "localIP": "127.0.0.1", "localPort": 9199, "customDomains": []string{"dead.example.test"}}
	psilent := map[string]any{"name": "silent", "type": "http", "localIP": "127.0.0.1", "localPort": 9101, "customDomains": []string{"silent.example.test"}}
	ccfg := map[string]any{
		"serverAddr": "10.0.0.1", "serverPort": 7000, "loginFailExit": false,
		"auth":      map[string]any{"token": token},
		"transport": map[string]any{"tcpMux": tcpMux, "connectServerLocalIP": "10.0.1.1", "tls": map[string]any{"enable": w.KnobBool("tls", 50)}, "poolCount": w.KnobPick("pool", 0, 1, 3)},
		"proxies":   append(proxies, pdead, psilent),
	}
	c1 := w.Net.NewNode("frpc1", "10.0.1.1")
	if _, err := w.StartFrpc(c1, ccfg); err != nil {
		w.Fail("frpc: %v", err)
	}
	// backends
	ln, err := w.Net.Listen("tcp", "127.0.0.1:9100")
	if err != nil {
		w.Fail("%v", err)
	}
	w.Backend.Go(func() {
		for {
			c, err := ln.Accept()
			if err != nil {
				return
			}
			go hw.backendConn(c, "web")
		}
	})
	ln2, _ := w.Net.Listen("tcp", "127.0.0.1:9102")
	w.Backend.Go(func() {
		for {
			c, err := ln2.Accept()
			if err != nil {
				return
			}
			go hw.backendConn(c, "web2")
		}
	})
	sln, _ := w.Net.Listen("tcp", "127.0.0.1:9101")
	w.Backend.Go(func() {
		for {
			c, err := sln.Accept()
			if err != nil {
				return
			}
			go func() { // never answers
				buf := make([]byte, 4096)
				for {
					if _, err := c.Read(buf); err != nil {
						c.Close()
						return
					}
				}
			}()
		}
	})
	if !w.WaitUntil(60*time.Second, 100*time.Millisecond, func() bool {
		return w.FrpLogContains("[web] start proxy success") && (!hw.twoRoutes || w.FrpLogContains("[web2] start proxy success")) && w.FrpLogContains("[dead] start proxy success") && w.FrpLogContains("[silent] start proxy success")
	}) {
		hw.viol("startup", "proxy-not-up", "http proxies not registered within 60 s")
		return
	}
	addr := fmt.Sprintf("10.0.0.1:%d", vport)
	maxBody := 64 << 10
	if w.In.Tier == "thorough" {
		maxBody = 2 << 20
	}
	if m := w.Net.Cfg().MSS; m < 64 {
		maxBody = 2048
	}
	// the vhost's response-header timeout starts when the request has been written into the work connection; with a
	// bandwidth limit enforced further down the path a large body is still in flight then, and a prompt backend looks
	// slow. Bodies stay small enough to pass the limiter in a quarter of the timeout.
	// The same holds for a slow simulated network (window / round-trip time).
	rate := float64(1 << 40)
	if limit > 0 {
		rate = 512 * 1024
	}
	if cfg := w.Net.Cfg(); cfg.BaseLatency+cfg.Jitter > 0 {
		if thr := float64(cfg.Window) / (2 * (cfg.BaseLatency + cfg.Jitter).Seconds()); thr < rate {
			rate = thr
		}
	}
	// All connections and tunnels of the run share that path (with stream multiplexing: one transport connection),
	// so the budget is divided among them.
	nconn := w.KnobPick("nconns", 1, 2, 4)
	ntun := w.KnobPick("tunnels", 0, 1, 2, 3)
	capB := int(rate * float64(timeout) / float64(2*(nconn+ntun+1)))
	if capB < 512 {
		capB = 512
	}
	if maxBody > capB {
		maxBody = capB
	}
	hw.tunnelMax = capB
	var wg sync.WaitGroup
	cid := 0
	for ci := 0; ci < nconn; ci++ {
		nreq := w.KnobPick(fmt.Sprintf("conn%d.nreq", ci), 1, 2, 4, 8)
		var cs []*httpCase
		for j := 0; j < nreq; j++ {
			cr := simnet.NewRand(w.In.Seed, fmt.Sprintf("case%d", cid))
			cs = append(cs, hw.genCase(cid, cr, maxBody))
			cid++
		}
		ip := fmt.Sprintf("10.0.3.%d", 20+ci)
		wg.Add(1)
		// (the HTTP/2 preface is not recognised on a port shared with the control protocol)
		viaH2C := !share && w.KnobBool(fmt.Sprintf("conn%d.h2c", ci), 20)
		w.UserN.Go(func() {
			defer wg.Done()
			if viaH2C {
				hw.userH2C(addr, ip, cs, rewriteHost, setReq, setResp)
				return
			}
			hw.userConn(addr, ip, cs, rewriteHost, setReq, setResp)
		})
	}
	// protocol upgrade and CONNECT through the vhost port, concurrently with the rest
	for i := 0; i < ntun; i++ {
		t := hw.newTunnel(i, w.KnobBool(fmt.Sprintf("tunnel%d.connect", i), 50))
		ip := fmt.Sprintf("10.0.3.%d", 60+i)
		wg.Add(1)
		w.UserN.Go(func() {
			defer wg.Done()
			time.Sleep(time.Duration(simnet.NewRand(w.In.Seed, "tstart"+t.id).Range(0, 800)) * time.Millisecond)
			hw.tunnelProbe(addr, ip, t)
		})
	}
	// error paths run concurrently with the healthy traffic
	wg.Add(2)
	w.UserN.Go(func() {
		defer wg.Done()
		time.Sleep(time.Duration(r.Range(0, 500)) * time.Millisecond)
		hw.errorProbe(addr, "dead.example.test", 30*time.Second, []int{404}, "unreachable-backend")
	})
	w.UserN.Go(func() {
		defer wg.Done()
		time.Sleep(time.Duration(r.Range(0, 500)) * time.Millisecond)
		hw.errorProbe(addr, "silent.example.test", time.Duration(timeout)*time.Second+5*time.Second, []int{504}, "silent-backend")
	})
	done := make(chan struct{})
	go func() { wg.Wait(); close(done) }()
	select {
	case <-done:
	case <-time.After(10 * time.Minute):
		hw.viol("progress", "stall", "http traffic did not finish within 10 simulated minutes")
		return
	}
	// a response that is delivered piece by piece (server-sent events, long poll): what the backend has flushed reaches
	// the user while the response is still open - the backend waits for the user's reaction before it goes on
	if w.KnobBool("interactive_stream", 40) {
		hw.streamProbe(addr)
	}
	// many exchanges outstanding on one route at the same time (a dozen or two requests to the backend that never
	// answers): each of them is owed its gateway-timeout answer within the configured time, not one after the other,
	// and a healthy route is served meanwhile
	if w.KnobBool("silent_burst", 35) {
		n := w.KnobPick("silent_burst_n", 11, 14, 24)
		w.Probe("http.silent_burst")
		var bw sync.WaitGroup
		for i := 0; i < n; i++ {
			bw.Add(1)
			w.UserN.Go(func() {
				defer bw.Done()
				hw.errorProbe(addr, "silent.example.test", time.Duration(timeout)*time.Second+8*time.Second, []int{504}, "silent-backend-burst")
			})
		}
		bw.Add(1)
		w.UserN.Go(func() {
			defer bw.Done()
			time.Sleep(500 * time.Millisecond)
			cr := simnet.NewRand(w.In.Seed, "burst-healthy")
			c := hw.genCase(cid, cr, 512)
			cid++
			hw.userConn(addr, "10.0.3.98", []*httpCase{c}, rewriteHost, setReq, setResp)
		})
		bdone := make(chan struct{})
		go func() { bw.Wait(); close(bdone) }()
		select {
		case <-bdone:
		case <-time.After(10 * time.Minute):
			hw.viol("progress", "stall", "a burst of %d requests to a silent backend did not finish within 10 simulated minutes", n)
			return
		}
	}
	w.SetSample(map[string]any{"cases": cid, "conns": nconn, "rewrite_host": rewriteHost, "enc": enc, "comp": comp, "limit": limit})
	w.Nontrivial()
}

// credLine is the Authorization header line of a user of the (possibly password-protected) proxy "web".
func (hw *httpWorld) credLine() string {
	if !hw.protected {
		return ""
	}
	return "Authorization: Basic " + base64.StdEncoding.EncodeToString([]byte("carol:pw-c")) + "\r\n"
}

func (hw *httpWorld) genCase(id int, r *simnet.Rand, maxBody int) *httpCase {
	c := &httpCase{id: id}
	req := &rawMsg{}
	req.Method = []string{"GET", "GET", "POST", "PUT", "DELETE", "PATCH", "OPTIONS", "HEAD"}[r.Intn(8)]
	c.head = req.Method == "HEAD"
	// path with percent-encoding, query
	var p strings.Builder
	nseg := r.Range(0, 4)
	for i := 0; i < nseg; i++ {
		p.WriteByte('/')
		p.WriteString(randToken(r, r.Range(1, 12)))
		if r.Intn(3) == 0 {
			p.WriteString([]string{"%20", "%2F", "%C3%A9", "%25", "%7E", "%2b"}[r.Intn(6)])
		}
	}
	if nseg == 0 || r.Intn(4) == 0 {
		p.WriteByte('/')
	}
	if r.Intn(2) == 0 {
		p.WriteByte('?')
		for i := 0; i < r.Range(1, 4); i++ {
			if i > 0 {
				p.WriteByte('&')
			}
			p.WriteString(randToken(r, r.Range(1, 8)))
			if r.Intn(4) != 0 {
				p.WriteString("=" + randToken(r, r.Range(0, 10)) + []string{"", "%26", "%3D", "+"}[r.Intn(4)])
			}
		}
	}
	req.Target = p.String()
	req.Headers = append(req.Headers, hdr{[]string{"Host", "host", "HOST"}[r.Intn(3)], "a.example.test"})
	req.Headers = append(req.Headers, hdr{"X-Case", fmt.Sprint(id)})
	c.wantAt = "web"
	if hw.protected {
		// the credentials are the user's own header: checked by frps and, like every end-to-end header, handed on
		cred := "carol:pw-c"
		if hw.twoRoutes && r.Intn(3) == 0 {
			cred, c.wantAt = "alice:pw-a", "web2"
		}
		req.Headers = append(req.Headers, hdr{"Authorization", "Basic " + base64.StdEncoding.EncodeToString([]byte(cred))})
	} else if hw.twoRoutes && r.Intn(3) == 0 {
		// a request of http user alice belongs to the proxy routed by that user; any other user or none to the other
		req.Headers = append(req.Headers, hdr{"Authorization", "Basic " + base64.StdEncoding.EncodeToString([]byte("alice:"+randToken(r, 6)))})
		c.wantAt = "web2"
	} else if hw.twoRoutes && r.Intn(4) == 0 {
		req.Headers = append(req.Headers, hdr{"Authorization", "Basic " + base64.StdEncoding.EncodeToString([]byte("bob:"+randToken(r, 6)))})
	}
	nh := r.Range(0, 8)
	for i := 0; i < nh; i++ {
		name := fmt.Sprintf("X-Hdr-%d", r.Intn(5))
		if r.Intn(3) == 0 {
			name = strings.ToLower(name)
		} else if r.Intn(4) == 0 {
			name = strings.ToUpper(name)
		}
		v := randToken(r, r.Range(1, 40))
		if r.Intn(12) == 0 {
			v = randToken(r, 3000)
		}
		req.Headers = append(req.Headers, hdr{name, v})
	}
	if r.Intn(3) == 0 {
		req.Headers = append(req.Headers, hdr{"Cookie", "a=" + randToken(r, 8)}, hdr{"Cookie", "b=" + randToken(r, 8)})
	}
	if r.Intn(3) == 0 {
		req.Headers = append(req.Headers, hdr{"Accept-Encoding", "identity"})
	}
	if r.Intn(4) == 0 {
		req.Headers = append(req.Headers, hdr{"User-Agent", "sim/" + randToken(r, 4)})
	}
	if r.Intn(3) == 0 {
		// one line with a list, or several header lines: the chain is all of them in order
		var parts []string
		for i := 0; i < r.Range(1, 3); i++ {
			line := fmt.Sprintf("192.0.2.%d", r.Intn(250))
			if r.Intn(2) == 0 {
				line += fmt.Sprintf(", 198.51.100.%d", r.Intn(250))
			}
			parts = append(parts, line)
			req.Headers = append(req.Headers, hdr{[]string{"X-Forwarded-For", "x-forwarded-for"}[r.Intn(2)], line})
		}
		c.xff = strings.Join(parts, ", ")
	}
	if req.Method == "POST" || req.Method == "PUT" || req.Method == "PATCH" {
		n := 0
		switch r.Intn(4) {
		case 0:
			n = 0
		case 1:
			n = r.Intn(200)
		default:
			n = r.Intn(maxBody)
		}
		req.Body = genStream(r, n, r.Intn(4))
		req.Chunked = r.Intn(2) == 0
	}
	c.req = req
	// response
	resp := &rawMsg{Status: []int{200, 200, 200, 201, 204, 301, 404, 500, 503, 418}[r.Intn(10)], Reason: "X"}
	resp.Headers = append(resp.Headers, hdr{"Content-Type", "application/octet-stream"}, hdr{"X-Case", fmt.Sprint(id)})
	for i := 0; i < r.Range(0, 5); i++ {
		resp.Headers = append(resp.Headers, hdr{fmt.Sprintf("X-Out-%d", r.Intn(3)), randToken(r, r.Range(1, 30))})
	}
	if r.Intn(3) == 0 {
		resp.Headers = append(resp.Headers, hdr{"Set-Cookie", "s=" + randToken(r, 6)}, hdr{"Set-Cookie", "t=" + randToken(r, 6)})
	}
	if resp.Status != 204 && !c.head {
		n := 0
		switch r.Intn(4) {
		case 0:
			n = 0
		case 1:
			n = r.Intn(300)
		default:
			n = r.Intn(maxBody)
		}
		resp.Body = genStream(r, n, r.Intn(4))
		switch r.Intn(5) {
		case 0, 1:
			resp.Chunked = true
		case 2:
			resp.NoLen = true
		}
	}
	if hw.timeout > 0 && hw.timeout <= 5 && len(resp.Body) > 2 && r.Intn(8) == 0 {
		c.slowAt = 1 + r.Intn(len(resp.Body)-1)
	}
	c.resp = resp
	hw.mu.Lock()
	hw.cases[id] = c
	hw.mu.Unlock()
	return c
}

func (hw *httpWorld) backendConn(conn net.Conn, which string) {
	defer conn.Close()
	if hw.backendTLS != nil {
		conn = tls.Server(conn, hw.backendTLS)
	}
	br := bufio.NewReaderSize(conn, 64<<10)
	for {
		m, err := readRawMsg(br, true, false)
		if err != nil {
			return
		}
		if tid := m.get("X-Tunnel"); len(tid) == 1 {
			hw.backendTunnel(conn, br, m, tid[0])
			return
		}
		if sid := m.get("X-Stream"); len(sid) == 1 {
			// a response delivered piece by piece: the second piece is only written once the user has confirmed the
			// first (or after 20 s, which is the failure the user side reports)
			hw.mu.Lock()
			ack := hw.streamAck[sid[0]]
			hw.mu.Unlock()
			fmt.Fprintf(conn, "HTTP/1.1 200 OK\r\nContent-Type: text/event-stream\r\nTransfer-Encoding: chunked\r\n\r\n")
			fmt.Fprintf(conn, "%x\r\n%s\r\n", len("piece-1 "+sid[0]+"\n"), "piece-1 "+sid[0]+"\n")
			if ack != nil {
				select {
				case <-ack:
				case <-time.After(20 * time.Second):
				}
			}
			fmt.Fprintf(conn, "%x\r\n%s\r\n0\r\n\r\n", len("piece-2\n"), "piece-2\n")
			continue
		}
		ids := m.get("X-Case")
		var c *httpCase
		if len(ids) == 1 {
			var id int
			fmt.Sscanf(ids[0], "%d", &id)
			hw.mu.Lock()
			c = hw.cases[id]
			hw.mu.Unlock()
		}
		if c == nil {
			fmt.Fprintf(conn, "HTTP/1.1 400 no case\r\nContent-Length: 0\r\n\r\n")
			continue
		}
		hw.mu.Lock()
		if c.seen != nil {
			hw.mu.Unlock()
			hw.viol("request", "request-delivered-twice", "case %d reached the backend twice", c.id)
			return
		}
		c.seen = m
		c.seenAt = which
		hw.mu.Unlock()
		rr := simnet.NewRand(hw.w.In.Seed, fmt.Sprintf("bchunk%d", c.id))
		out := c.resp.encode(false, func() int { return rr.Range(1, 5000) })
		if c.head {
			// HEAD: headers only
			if i := bytes.Index(out, []byte("\r\n\r\n")); i > 0 {
				out = out[:i+4]
			}
		}
		// write in pieces; a streamed body may pause for longer than the response-header timeout once the headers are out
		pauseAt := -1
		if c.slowAt > 0 && !c.head {
			if i := bytes.Index(out, []byte("\r\n\r\n")); i > 0 && i+4+c.slowAt < len(out) {
				pauseAt = i + 4 + c.slowAt
			}
		}
		sent := 0
		for len(out) > 0 {
			n := rr.Range(1, 20000)
			if n > len(out) {
				n = len(out)
			}
			if pauseAt > sent && pauseAt < sent+n {
				n = pauseAt - sent
			}
			if _, err := conn.Write(out[:n]); err != nil {
				return
			}
			out = out[n:]
			sent += n
			if sent == pauseAt {
				time.Sleep(time.Duration(hw.timeout)*time.Second + 1500*time.Millisecond)
			}
		}
		if c.resp.NoLen && !c.head {
			return
		}
	}
}

func (hw *httpWorld) userConn(addr, ip string, cs []*httpCase, rewriteHost string, setReq, setResp bool) {
	w := hw.w
	var conn net.Conn
	var br *bufio.Reader
	onConn := 0 // requests already answered on the current connection
cases:
	for _, c := range cs {
		if conn == nil {
			onConn = 0
			var err error
			raw, err := simnet.DialFrom(ip, addr, 10*time.Second)
			if err != nil {
				hw.viol("connect", "vhost-port-refused", "dial %s: %v", addr, err)
				return
			}
			conn = raw
			if hw.userTLS != nil {
				tc := tls.Client(raw, hw.userTLS)
				raw.SetDeadline(time.Now().Add(30 * time.Second))
				if err := tc.Handshake(); err != nil {
					hw.viol("connect", "tls-handshake-failed", "TLS handshake with the https endpoint failed: %v", err)
					raw.Close()
					return
				}
				raw.SetDeadline(time.Time{})
				conn = tc
			}
			br = bufio.NewReaderSize(conn, 64<<10)
		}
		c.user = ip
		ur := simnet.NewRand(w.In.Seed, fmt.Sprintf("uchunk%d", c.id))
		out := c.req.encode(true, func() int { return ur.Range(1, 5000) })
		// independent well-formedness filter
		if _, err := http.ReadRequest(bufio.NewReader(bytes.NewReader(out))); err != nil {
			continue
		}
		for len(out) > 0 {
			n := ur.Range(1, 20000)
			if n > len(out) {
				n = len(out)
			}
			if _, err := conn.Write(out[:n]); err != nil {
				// (with the http vhost in front, the first request of a user connection too may travel over a pooled
				// work connection that an earlier user connection left behind and the plugin's server has closed since)
				if hw.pluginStreamWrapped && (onConn > 0 || hw.frontVhost) {
					hw.viol("response", knownKeepAliveSig, "case %d: request %d on a keep-alive connection could not be written: %v", c.id, onConn+1, err)
					conn.Close()
					conn = nil
					continue cases
				}
				hw.viol("request", "user-write-failed", "case %d: %v", c.id, err)
				return
			}
			out = out[n:]
		}
		conn.SetReadDeadline(time.Now().Add(5 * time.Minute))
		got, err := readRawMsg(br, false, c.head)
		if err != nil && got == nil && hw.pluginStreamWrapped && onConn > 0 {
			// known finding (DESIGN.md section 18): net/http's server aborts its idle background read with a read deadline;
			// golib's crypto.Reader / snappy's Reader latch that timeout, the plugin's server then closes the connection
			hw.viol("response", knownKeepAliveSig, "case %d (%s %s): request %d on a keep-alive connection through an http plugin over an encrypted/compressed work connection got no response: %v", c.id, c.req.Method, c.req.Target, onConn+1, err)
			conn.Close()
			conn = nil // the remaining requests go on with a fresh connection
			continue
		}
		if err != nil && got == nil {
			hw.viol("response", "no-response", "case %d (%s %s, body %d chunked=%v): %v", c.id, c.req.Method, c.req.Target, len(c.req.Body), c.req.Chunked, err)
			conn.Close()
			return
		}
		w.Net.Logf("case %d %s body=%d chunked=%v -> backend answers %d body=%d chunked=%v nolen=%v; user got %d conn=%q", c.id, c.req.Method, len(c.req.Body), c.req.Chunked,
			c.resp.Status, len(c.resp.Body), c.resp.Chunked, c.resp.NoLen, got.Status, strings.Join(got.get("Connection"), ","))
		hw.checkCase(c, got, rewriteHost, setReq, setResp)
		onConn++
		closeAfter := got.NoLen || strings.EqualFold(strings.Join(got.get("Connection"), ","), "close")
		if closeAfter {
			conn.Close()
			conn = nil
		}
	}
	if conn != nil {
		conn.Close()
	}
}

func (hw *httpWorld) checkCase(c *httpCase, got *rawMsg, rewriteHost string, setReq, setResp bool) {
	w := hw.w
	w.Check("C02.request-preserved")
	hw.mu.Lock()
	seen := c.seen
	hw.mu.Unlock()
	desc := fmt.Sprintf("case %d (%s %s)", c.id, c.req.Method, c.req.Target)
	if seen == nil && hw.pluginStreamWrapped && hw.frontVhost && got.Status == 404 {
		// same known finding seen from the other side: the vhost of frps reuses an idle work connection that the
		// plugin's server has already given up; a request that may not be retried is answered with the not-found page
		hw.viol("response", knownKeepAliveSig, "%s: sent over a pooled work connection that the plugin's server had closed; user got the not-found page", desc)
		return
	}
	if seen == nil {
		hw.viol("request", "request-not-delivered", "%s: the backend never saw it; user got status %d", desc, got.Status)
		return
	}
	if c.seenAt != c.wantAt {
		hw.viol("request", "request-delivered-to-wrong-backend", "%s: belongs to proxy %s, was delivered to the backend of %s", desc, c.wantAt, c.seenAt)
	}
	if seen.Method != c.req.Method {
		hw.viol("request", "method-changed", "%s: backend saw method %q", desc, seen.Method)
	}
	if seen.Target != c.req.Target {
		hw.viol("request", "target-changed", "%s: backend saw request target %q", desc, seen.Target)
	}
	if !bytes.Equal(seen.Body, c.req.Body) {
		hw.viol("request", "body-changed", "%s: request body %d bytes (chunked=%v), backend saw %d bytes", desc, len(c.req.Body), c.req.Chunked, len(seen.Body))
	}
	wantHost := "a.example.test"
	if rewriteHost != "" {
		wantHost = rewriteHost
	}
	if h := seen.get("Host"); len(h) != 1 || h[0] != wantHost {
		hw.viol("request", "host-wrong", "%s: backend saw Host %v, want %q", desc, h, wantHost)
	}
	skip := map[string]bool{"host": true, "content-length": true, "x-forwarded-for": true, "x-forwarded-host": true, "x-forwarded-proto": true}
	sent := c.req.Headers
	if setReq {
		// declared rewrite: these names are replaced by the configured values
		var f []hdr
		for _, h := range sent {
			// (header names are case-insensitive: a name configured in lower case replaces what the user sent just the same)
			if strings.EqualFold(h.k, "X-From-Frp") || strings.EqualFold(h.k, "X-Hdr-0") || strings.EqualFold(h.k, "X-Hdr-1") {
				continue
			}
			f = append(f, h)
		}
		sent = append(f, hdr{"X-From-Frp", "yes"}, hdr{"X-Hdr-0", "overridden"}, hdr{"X-Hdr-1", "forced"})
	}
	a, b := endToEnd(sent, skip), endToEnd(seen.Headers, skip)
	missing, extra := diffLines(a, b)
	// permitted standard additions by the proxy's HTTP client
	var extra2 []string
	for _, e := range extra {
		if e == "accept-encoding: gzip" && !c.req.has("Accept-Encoding") {
			continue
		}
		if strings.HasPrefix(e, "user-agent: ") && !c.req.has("User-Agent") {
			continue
		}
		extra2 = append(extra2, e)
	}
	if len(missing) > 0 || len(extra2) > 0 {
		hw.viol("request", "headers-changed", "%s: end-to-end request headers differ: missing at backend %v, unexpected at backend %v", desc, trunc(missing), trunc(extra2))
	}
	wantXFF := c.user
	if c.xff != "" {
		wantXFF = c.xff + ", " + c.user
	}
	if x := strings.Join(seen.get("X-Forwarded-For"), ", "); hw.xffMode == 0 && x != wantXFF {
		hw.viol("request", "x-forwarded-for-wrong", "%s: backend saw X-Forwarded-For %q, want %q", desc, x, wantXFF)
	}
	// response
	w.Check("C02.response-preserved")
	if got.Status != c.resp.Status {
		hw.viol("response", "status-changed", "%s: backend answered %d, user got %d", desc, c.resp.Status, got.Status)
	}
	wantBody := c.resp.Body
	if c.head || c.resp.Status == 204 {
		wantBody = nil
	}
	if !bytes.Equal(got.Body, wantBody) {
		hw.viol("response", "body-changed", "%s: response body %d bytes (chunked=%v close-delimited=%v), user got %d bytes", desc, len(wantBody), c.resp.Chunked, c.resp.NoLen, len(got.Body))
	}
	rskip := map[string]bool{"content-length": true, "date": true}
	want := c.resp.Headers
	if setResp {
		want = append(append([]hdr{}, want...), hdr{"X-Resp-Frp", "1"})
	}
	ra, rb := endToEnd(want, rskip), endToEnd(got.Headers, rskip)
	rm, re := diffLines(ra, rb)
	if len(rm) > 0 || len(re) > 0 {
		hw.viol("response", "headers-changed", "%s: end-to-end response headers differ: missing at user %v, unexpected at user %v", desc, trunc(rm), trunc(re))
	}
}

func trunc(s []string) []string {
	var out []string
	for _, x := range s {
		if len(x) > 80 {
			x = x[:80] + "..."
		}
		out = append(out, x)
	}
	return out
}

// errorProbe sends one request whose backend is unreachable/silent and checks the bounded error answer.
func (hw *httpWorld) streamProbe(addr string) {
	w := hw.w
	w.Check("C02.streamed-response-delivered-as-it-comes")
	id := fmt.Sprintf("s%d", w.R.U64())
	ack := make(chan struct{})
	hw.mu.Lock()
	if hw.streamAck == nil {
		hw.streamAck = map[string]chan struct{}{}
	}
	hw.streamAck[id] = ack
	hw.mu.Unlock()
	var conn net.Conn
	raw, err := simnet.DialFrom("10.0.3.97", addr, 10*time.Second)
	if err != nil {
		close(ack)
		return
	}
	conn = raw
	if hw.userTLS != nil {
		tc := tls.Client(raw, hw.userTLS)
		raw.SetDeadline(time.Now().Add(30 * time.Second))
		if err := tc.Handshake(); err != nil {
			raw.Close()
			close(ack)
			return
		}
		raw.SetDeadline(time.Time{})
		conn = tc
	}
	defer conn.Close()
	t0 := w.Net.Now()
	fmt.Fprintf(conn, "GET /events HTTP/1.1\r\nHost: a.example.test\r\n%sX-Stream: %s\r\nAccept: text/event-stream\r\n\r\n", hw.credLine(), id)
	br := bufio.NewReader(conn)
	conn.SetReadDeadline(time.Now().Add(15 * time.Second))
	var got strings.Builder
	first := false
	for !first {
		line, err := br.ReadString('\n')
		got.WriteString(line)
		if strings.Contains(line, "piece-1 "+id) {
			first = true
		}
		if err != nil {
			break
		}
	}
	close(ack)
	if !first {
		hw.viol("response", "streamed-piece-held-back", "the backend sent the status line, the headers and a first piece of a streamed response and keeps the response open; %v later the user has received %q", w.Net.Now()-t0, got.String())
		return
	}
	w.Probe("http.stream_first_piece_in_time")
	conn.SetReadDeadline(time.Now().Add(60 * time.Second))
	for {
		line, err := br.ReadString('\n')
		if strings.Contains(line, "piece-2") {
			return
		}
		if err != nil {
			hw.viol("response", "streamed-rest-missing", "after the first piece of a streamed response the rest never arrived: %v", err)
			return
		}
	}
}

func (hw *httpWorld) errorProbe(addr, host string, bound time.Duration, wantStatus []int, what string) {
	w := hw.w
	w.Check("C02.error-answer-bounded")
	conn, err := simnet.DialFrom("10.0.3.99", addr, 10*time.Second)
	if err != nil {
		return
	}
	defer conn.Close()
	t0 := w.Net.Now()
	fmt.Fprintf(conn, "GET /probe HTTP/1.1\r\nHost: %s\r\n\r\n", host)
	conn.SetReadDeadline(time.Now().Add(bound + 60*time.Second))
	got, err := readRawMsg(bufio.NewReader(conn), false, false)
	el := w.Net.Now() - t0
	if err != nil && got == nil {
		hw.viol("error-path", what+"-hang", "request to %s got no answer within %v: %v", host, el, err)
		return
	}
	ok := false
	for _, s := range wantStatus {
		if got.Status == s {
			ok = true
		}
	}
	if !ok {
		hw.viol("error-path", what+"-wrong-status", "request to %s answered %d, want one of %v", host, got.Status, wantStatus)
	}
	if el > bound {
		hw.viol("error-path", what+"-late", "request to %s answered only after %v (bound %v)", host, el, bound)
	}
}
