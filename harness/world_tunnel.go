package verifharness

import (
	"bufio"
	"bytes"
	"fmt"
	"io"
	"net"
	"sort"
	"strings"
	"sync"
	"time"

	"verif/sim/simnet"
)

// World "tunnel": real frps + real frpc(s) + byte-stream backends and users.
// Decides C01 (and supplies traffic for C05 when tapped).

func init() { RegisterWorld("tunnel", worldTunnel) }

const (
	ptTCP = iota
	ptSTCP
	ptHTTPS
	ptTCPMux
	ptXTCP
)

var ptNames = []string{"tcp", "stcp", "https", "tcpmux", "xtcp"}

type tProxy struct {
	idx        int
	typ        int
	name       string
	enc, comp  bool
	limitMode  string // "", "client", "server"
	limitKB    int
	ppVer      string
	domain     string
	remotePort int
	localPort  int
	visitPort  int
	banner     []byte
	userPre    []byte // bytes the user sends first (ClientHello / CONNECT request)
	backendPre []byte // bytes the backend must see first
	connectOK  bool   // user must read an HTTP 200 before payload
	publicAddr string
	ln         net.Listener
	conns      []*tConn
	// delivery events at both endpoints of all connections of this proxy
	dmu sync.Mutex
	del []deliveryEv
}

// direct reports whether users connect to frps itself (the PROXY header must name the user).
func (p *tProxy) direct() bool { return p.typ == ptTCP || p.typ == ptHTTPS || p.typ == ptTCPMux }

type tConn struct {
	id         int
	p          *tProxy
	A, B       []byte // A: user->backend payload (after userPre), B: backend->user payload (after banner)
	mode       int
	userLocal  string
	tag        string
	chunkMax   int
	pauseEvery int
	idleS      int
	uDone      chan struct{}
	bDone      chan struct{}
	bAccepted  bool
	// abrupt-mode parameters
	abruptSide  int
	abruptAfter int
	mu          sync.Mutex
	uRecv       int // payload bytes the user got
	bRecv       int
	uClosedAt   time.Duration
	bClosedAt   time.Duration
	uEndAt      time.Duration // when the user side observed EOF/error
	bEndAt      time.Duration
	uEOF, bEOF  bool
	bytesTotal  int
}

type tunnelWorld struct {
	w       *World
	proxies []*tProxy
	byTag   map[string]*tConn
	token   string
	tcpMux  bool
	tmu     sync.Mutex
}

func (tw *tunnelWorld) violate(oracle, sig, f string, a ...any) {
	prop := "C01"
	if tw.w.In.Property == "C08" {
		// the C08 batch runs this world with secret proxies only: every stream is one that frpc's own visitor code was
		// admitted with, and its transparency is what C08 states
		prop = "C08"
	}
	tw.w.Violate(prop, oracle, sig, f, a...)
}

func worldTunnel(w *World) {
	tw := &tunnelWorld{w: w, byTag: map[string]*tConn{}}
	r := w.R
	tw.token = fmt.Sprintf("tok-%016x", simnet.NewRand(w.In.Seed, "token").U64())

	tlsOn := w.KnobBool("tls", 60)
	customByte := w.KnobBool("tls_custom_first_byte", 30)
	tcpMux := w.KnobBool("tcp_mux", 65)
	tw.tcpMux = tcpMux
	proto := []string{"tcp", "tcp", "websocket", "quic"}[w.Knob("protocol", 0, 3)]
	pool := w.KnobPick("pool", 0, 0, 1, 2, 5)
	nprox := w.KnobPick("nproxies", 1, 1, 2, 3)
	shareHTTPS := w.KnobBool("https_shares_bind_port", 40)
	passthrough := w.KnobBool("tcpmux_passthrough", 40)
	certs := w.KnobBool("frps_cert_files", 85) && w.In.CertDir != ""

	vhostHTTPS := 7443
	if shareHTTPS {
		vhostHTTPS = 7000
		// documented constraint: with the https vhost on the bind port a plain TLS ClientHello belongs to
		// the vhost muxer, so frp's own TLS must announce itself with the custom first byte
		if tlsOn {
			customByte = true
		}
	}
	scfg := map[string]any{
		"bindAddr": "10.0.0.1", "bindPort": 7000,
		"vhostHTTPSPort":        vhostHTTPS,
		"tcpmuxHTTPConnectPort": 7005,
		"tcpmuxPassthrough":     passthrough,
		"auth":                  map[string]any{"token": tw.token},
		"transport":             map[string]any{"tcpMux": tcpMux},
		"allowPorts":            []map[string]any{{"start": 20000, "end": 20100}},
	}
	if certs {
		scfg["transport"].(map[string]any)["tls"] = map[string]any{
			"certFile": w.In.CertDir + "/server.crt", "keyFile": w.In.CertDir + "/server.key"}
	}
	if proto == "quic" {
		scfg["quicBindPort"] = 7001
	}
	frps, err := w.StartFrps(w.Frps, scfg)
	if err != nil {
		w.Fail("start frps: %v", err)
	}
	_ = frps

	// proxies
	visitorsNeeded := false
	var pcfgs []map[string]any
	var vcfgs []map[string]any
	// payload budget from a step budget: each payload chunk of <= mss bytes costs one segment on the user
	// link, one on the backend link and ceil((mss+overhead)/mss) on the framed/encrypted work link
	mssF := float64(w.Net.Cfg().MSS)
	stepBudget := 150000.0
	if w.In.Tier == "thorough" {
		stepBudget = 600000.0
	}
	totalBudget := int(stepBudget * mssF / (3 + 60/mssF))
	if totalBudget > 6<<20 {
		totalBudget = 6 << 20
	}
	if w.In.Tier == "quick" && totalBudget > 1<<20 {
		totalBudget = 1 << 20
	}
	for i := 0; i < nprox; i++ {
		p := &tProxy{idx: i}
		p.typ = w.KnobPick(fmt.Sprintf("p%d.type", i), ptTCP, ptTCP, ptSTCP, ptHTTPS, ptTCPMux, ptXTCP)
		if w.In.Property == "C08" {
			p.typ = w.KnobPick(fmt.Sprintf("p%d.secret_type", i), ptSTCP, ptSTCP, ptXTCP)
		}
		p.name = fmt.Sprintf("px%d-%s", i, ptNames[p.typ])
		p.enc = w.KnobBool(fmt.Sprintf("p%d.enc", i), 50)
		p.comp = w.KnobBool(fmt.Sprintf("p%d.comp", i), 50)
		switch w.KnobPick(fmt.Sprintf("p%d.limit", i), 0, 0, 0, 1, 2) {
		case 1:
			p.limitMode = "client"
		case 2:
			p.limitMode = "server"
		}
		p.limitKB = w.KnobPick(fmt.Sprintf("p%d.limit_kb", i), 8, 32, 128, 1024, 4096)
		p.ppVer = []string{"", "", "v1", "v2"}[w.Knob(fmt.Sprintf("p%d.pp", i), 0, 3)]
		p.localPort = 9000 + i
		p.remotePort = 20000 + i
		p.visitPort = 6000 + i
		p.domain = fmt.Sprintf("svc%d.example.test", i)
		if w.KnobBool(fmt.Sprintf("p%d.banner", i), 60) {
			p.banner = genStream(simnet.NewRand(w.In.Seed, fmt.Sprintf("banner%d", i)), r.Range(16, 200), 0)
		}
		pc := map[string]any{
			"name": p.name, "type": ptNames[p.typ], "localIP": "127.0.0.1", "localPort": p.localPort,
			"transport": map[string]any{"useEncryption": p.enc, "useCompression": p.comp},
		}
		tr := pc["transport"].(map[string]any)
		if p.limitMode != "" {
			tr["bandwidthLimit"] = fmt.Sprintf("%dKB", p.limitKB)
			tr["bandwidthLimitMode"] = p.limitMode
		}
		if p.ppVer != "" {
			tr["proxyProtocolVersion"] = p.ppVer
		}
		switch p.typ {
		case ptTCP:
			pc["remotePort"] = p.remotePort
			p.publicAddr = fmt.Sprintf("10.0.0.1:%d", p.remotePort)
		case ptHTTPS:
			pc["customDomains"] = []string{p.domain}
			p.publicAddr = fmt.Sprintf("10.0.0.1:%d", vhostHTTPS)
			p.userPre = clientHelloFor(p.domain)
			p.backendPre = p.userPre
		case ptTCPMux:
			pc["customDomains"] = []string{p.domain}
			pc["multiplexer"] = "httpconnect"
			p.publicAddr = "10.0.0.1:7005"
			p.userPre = []byte(fmt.Sprintf("CONNECT %s:443 HTTP/1.1\r\nHost: %s:443\r\nUser-Agent: sim\r\n\r\n", p.domain, p.domain))
			if passthrough {
				p.backendPre = p.userPre
			} else {
				p.connectOK = true
			}
		case ptSTCP, ptXTCP:
			sk := fmt.Sprintf("sk-%d-%x", i, simnet.NewRand(w.In.Seed, "sk").U64())
			pc["secretKey"] = sk
			visitorsNeeded = true
			vc := map[string]any{
				"name": p.name + "-v", "type": ptNames[p.typ], "serverName": p.name, "secretKey": sk,
				"bindAddr": "10.0.1.2", "bindPort": p.visitPort,
				"transport": map[string]any{"useEncryption": w.KnobBool(fmt.Sprintf("p%d.venc", i), 50), "useCompression": w.KnobBool(fmt.Sprintf("p%d.vcomp", i), 50)},
			}
			if p.typ == ptXTCP {
				// STUN is unreachable in the simulation: the visitor must fall back to the stcp visitor.
				fb := map[string]any{
					"name": p.name + "-fb", "type": "stcp", "serverName": p.name + "-fbsrv", "secretKey": sk,
					"bindAddr": "10.0.1.2", "bindPort": -1,
					"transport": vc["transport"],
				}
				vc["fallbackTo"] = p.name + "-fb"
				vc["fallbackTimeoutMs"] = 500
				vcfgs = append(vcfgs, fb)
				// the fallback target is an stcp proxy towards the same backend
				pcfb := map[string]any{
					"name": p.name + "-fbsrv", "type": "stcp", "localIP": "127.0.0.1", "localPort": p.localPort,
					"secretKey": sk, "transport": pc["transport"],
				}
				pcfgs = append(pcfgs, pcfb)
			}
			vcfgs = append(vcfgs, vc)
			p.publicAddr = fmt.Sprintf("10.0.1.2:%d", p.visitPort)
		}
		pcfgs = append(pcfgs, pc)
		tw.proxies = append(tw.proxies, p)
	}
	// one more proxy whose backend is down (nothing listens there): its users are turned away - and whatever the
	// client does on that path must not touch the tunnels of the proxies that work
	deadBackend := w.KnobBool("proxy_with_dead_backend", 30)
	if deadBackend {
		pcfgs = append(pcfgs, map[string]any{"name": "pxdead", "type": "tcp", "localIP": "127.0.0.1", "localPort": 9999, "remotePort": 20090,
			"transport": map[string]any{"useCompression": w.KnobBool("dead.comp", 70), "useEncryption": w.KnobBool("dead.enc", 30)}})
	}

	srvPort := 7000
	if proto == "quic" {
		// quic-go's own code over the simulated packet network; every logical connection is a QUIC stream, which
		// buffers like a multiplexed stream does
		srvPort = 7001
		tw.tcpMux = true
		w.Probe("tunnel.quic_transport")
		if w.In.Faults {
			// datagram loss, duplication and reordering between the clients and the server: QUIC has to hide them
			lossP := float64(w.KnobPick("quic.loss_pct", 0, 1, 5)) / 100
			dupP := float64(w.KnobPick("quic.dup_pct", 0, 1, 5)) / 100
			reoP := float64(w.KnobPick("quic.reorder_pct", 0, 5, 20)) / 100
			qr := simnet.NewRand(w.In.Seed, "quicfault")
			simnet.UDPSendHook = func(from *net.UDPAddr, to string, data []byte) (int, time.Duration, bool) {
				if to != "10.0.0.1:7001" && !(from != nil && from.Port == 7001) {
					return 1, 0, true
				}
				copies, extra := 1, time.Duration(0)
				if qr.Chance(lossP) {
					copies = 0
					w.Net.CountLocked("fault.udp_loss", 1)
				} else if qr.Chance(dupP) {
					copies = 2
					w.Net.CountLocked("fault.udp_dup", 1)
				}
				if qr.Chance(reoP) {
					extra = time.Duration(qr.Range(1, 60)) * time.Millisecond
					w.Net.CountLocked("fault.udp_reorder", 1)
				}
				return copies, extra, true
			}
		}
	}
	ctr := map[string]any{
		"protocol": proto, "poolCount": pool, "tcpMux": tcpMux,
		"connectServerLocalIP": "10.0.1.1",
		"tls":                  map[string]any{"enable": tlsOn, "disableCustomTLSFirstByte": !customByte},
	}
	ccfg := map[string]any{
		"serverAddr": "10.0.0.1", "serverPort": srvPort, "loginFailExit": false,
		"auth":              map[string]any{"token": tw.token},
		"transport":         ctr,
		"natHoleStunServer": "10.0.9.9:3478",
		"proxies":           pcfgs,
	}
	c1 := w.Net.NewNode("frpc1", "10.0.1.1")
	if _, err := w.StartFrpc(c1, ccfg); err != nil {
		w.Fail("start frpc: %v", err)
	}
	if visitorsNeeded {
		ctr2 := map[string]any{}
		for k, v := range ctr {
			ctr2[k] = v
		}
		ctr2["connectServerLocalIP"] = "10.0.1.2"
		vcfg := map[string]any{
			"serverAddr": "10.0.0.1", "serverPort": srvPort, "loginFailExit": false,
			"auth":              map[string]any{"token": tw.token},
			"transport":         ctr2,
			"natHoleStunServer": "10.0.9.9:3478",
			"visitors":          vcfgs,
		}
		c2 := w.Net.NewNode("frpc2", "10.0.1.2")
		if _, err := w.StartFrpc(c2, vcfg); err != nil {
			w.Fail("start visitor frpc: %v", err)
		}
	}

	// backends
	for _, p := range tw.proxies {
		ln, err := w.Net.Listen("tcp", fmt.Sprintf("127.0.0.1:%d", p.localPort))
		if err != nil {
			w.Fail("backend listen: %v", err)
		}
		p.ln = ln
		p := p
		w.Backend.Go(func() { tw.backendLoop(p) })
	}

	// wait for the proxies to be usable
	ready := w.WaitUntil(60*time.Second, 100*time.Millisecond, func() bool {
		for _, p := range tw.proxies {
			if !tw.endpointUp(p) {
				return false
			}
		}
		return true
	})
	if !ready {
		if !w.In.Faults {
			tw.violate("startup", "proxy-not-up", "proxies not usable 60 s after start (fault-free)")
		}
		return
	}
	// neighbours on the tcpmux port: a proxy of another client on the SAME domain, told apart by the http user, and a
	// catch-all proxy for the whole zone. The neighbour goes away before or while the users of this world connect;
	// they name their own domain without credentials and must keep reaching their own backend, never the catch-all's.
	if mp := tw.firstOf(ptTCPMux); mp != nil && !w.In.Faults && w.KnobBool("tcpmux_neighbours", 50) {
		w.Probe("tunnel.tcpmux_neighbours")
		trap, err := w.Net.Listen("tcp", "127.0.0.1:9700")
		if err != nil {
			w.Fail("trap listen: %v", err)
		}
		w.Backend.Go(func() {
			for {
				c, err := trap.Accept()
				if err != nil {
					return
				}
				tw.violate("wiring", "user-bridged-to-neighbour", "a connection reached the backend of a neighbouring proxy (catch-all or other http user) although every user of this run names the exact domain of its own proxy")
				c.Close()
			}
		})
		mk := func(node, ip, name, domain, user string) *Frpc {
			pc := map[string]any{"name": name, "type": "tcpmux", "multiplexer": "httpconnect", "localIP": "127.0.0.1", "localPort": 9700,
				"customDomains": []string{domain}}
			if user != "" {
				pc["routeByHTTPUser"] = user
			}
			ctr3 := map[string]any{}
			for k, v := range ctr {
				ctr3[k] = v
			}
			ctr3["connectServerLocalIP"] = ip
			ctr3["poolCount"] = 0
			f, err := w.StartFrpc(w.Net.NewNode(node, ip), map[string]any{
				"serverAddr": "10.0.0.1", "serverPort": srvPort, "loginFailExit": false,
				"auth": map[string]any{"token": tw.token}, "transport": ctr3, "proxies": []map[string]any{pc}})
			if err != nil {
				w.Fail("start neighbour frpc: %v", err)
			}
			return f
		}
		mk("frpc3", "10.0.1.3", "catchall", "*.example.test", "")
		sib := mk("frpc4", "10.0.1.4", "sibling", mp.domain, "bob")
		if !w.WaitUntil(60*time.Second, 100*time.Millisecond, func() bool {
			return w.FrpLogContains("[catchall] start proxy success") && w.FrpLogContains("[sibling] start proxy success")
		}) {
			tw.violate("startup", "neighbour-not-up", "neighbouring tcpmux proxies (catch-all, same domain with another http user) not registered 60 s after start")
			return
		}
		leave := time.Duration(w.KnobPick("neighbour_leaves_ms", 0, 0, 300, 2000)) * time.Millisecond
		if leave == 0 {
			sib.Stop()
			w.Sleep(2 * time.Second)
		} else {
			w.UserN.Go(func() { w.Sleep(leave); sib.Stop() })
		}
	}
	w.Sleep(time.Duration(r.Range(0, 1500)) * time.Millisecond)
	if deadBackend && w.WaitUntil(30*time.Second, 100*time.Millisecond, func() bool { return tw.listening("10.0.0.1:20090") && w.FrpLogContains("[pxdead] start proxy success") }) {
		w.Probe("tunnel.users_of_dead_backend")
		nd := w.KnobPick("dead.users", 1, 3, 6)
		var dwg sync.WaitGroup
		for i := 0; i < nd; i++ {
			i := i
			dwg.Add(1)
			w.UserN.Go(func() {
				defer dwg.Done()
				c, err := simnet.DialFrom(fmt.Sprintf("10.0.3.%d", 150+i), "10.0.0.1:20090", 10*time.Second)
				if err != nil {
					return
				}
				defer c.Close()
				c.Write([]byte("anybody there?"))
				c.SetReadDeadline(time.Now().Add(60 * time.Second))
				buf := make([]byte, 64)
				if n, err := c.Read(buf); n > 0 {
					tw.violate("wiring", "bytes-from-nowhere", "a user of a proxy whose backend is down received %d bytes (%q)", n, buf[:n])
				} else if ne, ok := err.(net.Error); ok && ne.Timeout() {
					tw.violate("close", "user-of-dead-backend-left-open", "a user of a proxy whose backend is down was neither served nor closed within 60 s")
				}
			})
		}
		dwg.Wait()
	}

	// fault batch: connection resets, blackholes and partitions between the clients and the server while traffic
	// flows. Completeness and timing oracles are off in this batch; what every endpoint reads must still be a prefix
	// of what the matching endpoint wrote, nothing may be cross-wired, and the run must not crash.
	if w.In.Faults {
		fr := newSubRand(w, "tunnel-faults")
		nf := w.KnobPick("nfaults", 0, 1, 2, 4)
		for i := 0; i < nf; i++ {
			at := time.Duration(fr.Range(0, 6000)) * time.Millisecond
			kind := fr.Intn(4)
			dur := time.Duration(fr.Range(200, 15000)) * time.Millisecond
			pick := fr.Intn(1 << 20)
			w.Net.At(at, fmt.Sprintf("tunnel-fault-%d", i), func() {
				ids := w.Net.PairsMatching(func(link string, id int) bool { return strings.Contains(link, ">10.0.0.1:7000") })
				sort.Ints(ids)
				switch {
				case kind == 0 && len(ids) > 0:
					w.Net.ResetPair(ids[pick%len(ids)])
				case kind == 3 && len(ids) > 0:
					// half-open: one end loses the connection, the other is not told
					w.Net.HalfOpenPair(ids[pick%len(ids)], pick>>8&1)
				case kind == 1 && len(ids) > 0:
					id := ids[pick%len(ids)]
					w.Net.BlackholePair(id, true)
					w.Net.At(dur, "tunnel-heal", func() { w.Net.BlackholePair(id, false) })
				default:
					nodes := w.Net.NodesByPrefix("frpc")
					if len(nodes) > 0 {
						nd := nodes[pick%len(nodes)]
						w.Net.Partition(nd, true)
						w.Net.At(dur, "tunnel-heal", func() { w.Net.Partition(nd, false) })
					}
				}
			})
		}
	}

	// connections
	cid := 0
	var all []*tConn
	nconnTotal := 0
	for _, p := range tw.proxies {
		nc := w.KnobPick(fmt.Sprintf("p%d.nconn", p.idx), 1, 1, 2, 4)
		nconnTotal += nc
	}
	per := totalBudget / (2 * nconnTotal)
	for _, p := range tw.proxies {
		nc := w.KnobPick(fmt.Sprintf("p%d.nconn", p.idx), 1, 1, 2, 4)
		for j := 0; j < nc; j++ {
			c := &tConn{id: cid, p: p, uDone: make(chan struct{}), bDone: make(chan struct{})}
			cr := simnet.NewRand(w.In.Seed, fmt.Sprintf("conn%d", cid))
			sz := func(name string) int {
				switch w.KnobPick(fmt.Sprintf("c%d.%s_size", cid, name), 0, 1, 2, 2, 3, 3, 4) {
				case 0:
					return 16
				case 1:
					return 16 + cr.Intn(100)
				case 2:
					return 16 + cr.Intn(min(20000, per)+1)
				case 3:
					return 16 + cr.Intn(per/4+1)
				default:
					return 16 + cr.Intn(per+1)
				}
			}
			c.A = genStream(simnet.NewRand(w.In.Seed, fmt.Sprintf("A%d", cid)), sz("a"), w.Knob(fmt.Sprintf("c%d.a_class", cid), 0, 3))
			c.B = genStream(simnet.NewRand(w.In.Seed, fmt.Sprintf("B%d", cid)), sz("b"), w.Knob(fmt.Sprintf("c%d.b_class", cid), 0, 3))
			c.mode = w.KnobPick(fmt.Sprintf("c%d.mode", cid), 0, 0, 1, 1, 2, 3, 4)
			// modes 3/4 need a silent peer
			if c.mode == 3 && (len(p.userPre) > 0 || len(p.banner) == 0 || p.connectOK) {
				c.mode = 0
			}
			if c.mode == 3 {
				c.A, c.B = nil, nil
			}
			if c.mode == 4 {
				if len(p.banner) > 0 || p.connectOK {
					c.mode = 1
				} else {
					c.B = nil
				}
			}
			if len(c.A) >= 16 {
				c.tag = string(c.A[:16])
				tw.byTag[c.tag] = c
			}
			// an idle period in the middle of the stream: long-lived connections meet timers that short ones never do
			c.idleS = w.KnobPick(fmt.Sprintf("c%d.idle_s", cid), 0, 0, 0, 0, 35, 100, 700)
			c.chunkMax = w.KnobPick(fmt.Sprintf("c%d.chunk", cid), 1, 17, 1024, 4096, 65536, 1<<20)
			c.pauseEvery = w.KnobPick(fmt.Sprintf("c%d.pause_every", cid), 0, 0, 3, 20)
			c.abruptSide = cr.Intn(2)
			c.abruptAfter = cr.Intn(len(c.A) + len(c.B) + 1)
			c.userLocal = fmt.Sprintf("10.0.3.%d", 10+cid)
			w.Net.NewNode(fmt.Sprintf("user%d", cid), c.userLocal)
			c.bytesTotal = len(c.A) + len(c.B) + len(p.banner) + len(p.userPre)
			p.conns = append(p.conns, c)
			all = append(all, c)
			cid++
		}
	}
	w.SetSample(map[string]any{"proxies": len(tw.proxies), "conns": len(all), "modes": func() []int {
		var m []int
		for _, c := range all {
			m = append(m, c.mode)
		}
		return m
	}()})

	// launch users with staggered starts
	var wg sync.WaitGroup
	for _, c := range all {
		c := c
		wg.Add(1)
		delay := time.Duration(r.Range(0, 300)) * time.Millisecond
		if r.Intn(3) == 0 {
			delay = 0
		}
		w.UserN.Go(func() {
			defer wg.Done()
			time.Sleep(delay)
			tw.userConn(c)
		})
	}

	// completion bound
	bound := tw.bound(all)
	finished := make(chan struct{})
	go func() { wg.Wait(); close(finished) }()
	select {
	case <-finished:
	case <-time.After(bound):
		if !w.In.Faults {
			var stuck []string
			for _, c := range all {
				select {
				case <-c.uDone:
				default:
					c.mu.Lock()
					stuck = append(stuck, fmt.Sprintf("conn%d(%s mode%d uRecv=%d/%d bRecv=%d/%d)", c.id, c.p.name, c.mode, c.uRecv, len(c.B), c.bRecv, len(c.A)))
					c.mu.Unlock()
				}
			}
			tw.violate("progress", "stall", "connections not finished after %v (fault-free): %s", bound, strings.Join(stuck, ", "))
		}
		return
	}
	// let the backends observe the closes
	// the backend's reader has seen the end of the stream (its writer may still sit in a drawn idle period)
	bEnded := func(c *tConn) bool {
		c.mu.Lock()
		defer c.mu.Unlock()
		return c.bEndAt != 0
	}
	// (with a bandwidth limit, what an endpoint wrote before it closed is still drained at the limited rate:
	// the end of the stream follows the data, so the allowance includes the transfer time of everything written)
	w.WaitUntil(90*time.Second+tw.bound(all), 200*time.Millisecond, func() bool {
		for _, c := range all {
			if c.bAccepted && !bEnded(c) {
				return false
			}
		}
		return true
	})
	for _, c := range all {
		if c.bAccepted && !bEnded(c) && !w.In.Faults {
			tw.violate("close", "backend-conn-left-open", "conn%d (%s): backend side still open long after the user side ended (90 s + transfer time of everything written)", c.id, c.p.name)
		}
	}
	// bandwidth oracle
	for _, p := range tw.proxies {
		tw.checkBW(p)
	}
	w.Nontrivial()
}

func (tw *tunnelWorld) bound(all []*tConn) time.Duration {
	cfg := tw.w.Net.Cfg()
	rtt := 2 * (cfg.BaseLatency + cfg.Jitter)
	if rtt < time.Millisecond {
		rtt = time.Millisecond
	}
	// throughput floor from window/rtt (bytes per second), several hops share it
	thr := float64(cfg.Window) / rtt.Seconds() / 8
	total := 0.0
	for _, c := range all {
		t := float64(c.bytesTotal)/thr + float64(2*c.idleS+2)
		if c.p.limitMode != "" {
			t += float64(c.bytesTotal) / float64(c.p.limitKB*1024)
		}
		total += t
	}
	return 120*time.Second + time.Duration(total*3*float64(time.Second))
}

// endpointUp probes whether the public endpoint of p accepts connections.
func (tw *tunnelWorld) endpointUp(p *tProxy) bool {
	switch p.typ {
	case ptTCP:
		// (the port opens one network latency before the registration reply reaches the client; until then the
		// client does not serve the proxy. The streams of this world start once the registration is complete)
		return tw.listening(p.publicAddr) && tw.w.FrpLogContains("["+p.name+"] start proxy success")
	case ptSTCP, ptXTCP:
		return tw.listening(p.publicAddr) && tw.w.FrpLogContains("["+p.name+"] start proxy success")
	default:
		return tw.w.FrpLogContains("[" + p.name + "] start proxy success")
	}
}

func (tw *tunnelWorld) firstOf(typ int) *tProxy {
	for _, p := range tw.proxies {
		if p.typ == typ {
			return p
		}
	}
	return nil
}

func (tw *tunnelWorld) listening(addr string) bool {
	for _, a := range tw.w.Net.ListeningTCP() {
		if a == addr {
			return true
		}
	}
	return false
}

func (tw *tunnelWorld) note(p *tProxy, n int) {
	if p.limitMode == "" {
		return
	}
	p.dmu.Lock()
	p.del = append(p.del, deliveryEv{tw.w.Net.Now(), n})
	p.dmu.Unlock()
}

func (tw *tunnelWorld) checkBW(p *tProxy) {
	if p.limitMode == "" || !tw.w.Net.Cfg().ConstLatency || tw.w.In.Faults {
		return
	}
	// deliveries are measured at the endpoints: with stream multiplexing the receiving mux can hold a backlog of up
	// to its stream window downstream of the limiter and release it at once, which is buffering, not the limiter
	// (the bwlimit world measures at the limiter itself, with and without multiplexing)
	if tw.tcpMux {
		return
	}
	// the client-side limiter meters wire bytes: with compression the claim is about other bytes
	if p.limitMode == "client" && p.comp {
		return
	}
	tw.w.Check("C01.bandwidth")
	limit := float64(p.limitKB * 1024)
	allow := 2*limit + 256*1024
	// deliveries were logged concurrently; sort by time (stable)
	evs := append([]deliveryEv{}, p.del...)
	for i := 1; i < len(evs); i++ {
		for j := i; j > 0 && evs[j].t < evs[j-1].t; j-- {
			evs[j], evs[j-1] = evs[j-1], evs[j]
		}
	}
	ok, worst, at := checkBandwidth(evs, limit, allow)
	if !ok {
		tw.violate("bandwidth", "limit-exceeded-"+p.limitMode,
			"proxy %s limit %d KB/s (%s side): an interval ending at %v delivered %.0f bytes more than limit*dt + %.0f", p.name, p.limitKB, p.limitMode, at, worst-allow, allow)
	}
}

// ---------------------------------------------------------------- user side

func (tw *tunnelWorld) userConn(c *tConn) {
	w := tw.w
	defer close(c.uDone)
	p := c.p
	var conn *simnet.Conn
	var err error
	for attempt := 0; attempt < 3; attempt++ {
		conn, err = simnet.DialFrom(c.userLocal, p.publicAddr, 10*time.Second)
		if err == nil {
			break
		}
		time.Sleep(500 * time.Millisecond)
	}
	if err != nil {
		if !w.In.Faults {
			tw.violate("connect", "public-endpoint-refused", "conn%d: dial %s: %v", c.id, p.publicAddr, err)
		}
		return
	}
	c.userLocal = conn.LocalAddr().String()
	end := func() {
		c.mu.Lock()
		if c.uEndAt == 0 {
			c.uEndAt = w.Net.Now()
		}
		c.mu.Unlock()
	}
	// preamble
	if len(p.userPre) > 0 {
		if _, err := conn.Write(p.userPre); err != nil {
			end()
			conn.Close()
			if !w.In.Faults {
				tw.violate("prefix", "user-preamble-write", "conn%d: %v", c.id, err)
			}
			return
		}
	}
	if p.connectOK {
		conn.SetReadDeadline(time.Now().Add(60 * time.Second))
		resp, err := readUntil(conn, "\r\n\r\n", 4096)
		conn.SetReadDeadline(time.Time{})
		if err != nil || !bytes.HasPrefix(resp, []byte("HTTP/1.1 200")) {
			end()
			conn.Close()
			if !w.In.Faults {
				tw.violate("connect", "tcpmux-connect-failed", "conn%d: CONNECT to %s answered %q err=%v", c.id, p.domain, resp, err)
			}
			return
		}
	}

	expect := append(append([]byte{}, p.banner...), c.B...)
	wdone := make(chan struct{})
	// writer
	go func() {
		defer close(wdone)
		tw.writeStream(conn, c.A, c, 0)
	}()
	// reader with oracle
	got := 0
	buf := make([]byte, 32*1024)
	var rerr error
	closedByUs := false
	for {
		if c.mode == 2 && c.abruptSide == 0 && got >= min(c.abruptAfter/2, len(expect)) {
			closedByUs = true
			break
		}
		if c.mode == 4 {
			// user writes A, then closes without reading
			<-wdone
			closedByUs = true
			break
		}
		if c.mode == 1 && got == len(expect) {
			// user got everything; wait until A fully written, then user closes first
			<-wdone
			tw.waitBackendGotAll(c)
			closedByUs = true
			break
		}
		var n int
		n, rerr = conn.Read(buf)
		if n > 0 {
			w.Check("C01.prefix")
			if got+n > len(expect) || !bytes.Equal(buf[:n], expect[got:got+n]) {
				tw.mismatch(c, "user", expect, got, buf[:n])
				conn.Close()
				end()
				return
			}
			got += n
			c.mu.Lock()
			c.uRecv = got
			c.mu.Unlock()
			tw.note(p, n)
		}
		if rerr != nil {
			break
		}
	}
	end()
	if closedByUs {
		c.mu.Lock()
		c.uClosedAt = w.Net.Now()
		c.mu.Unlock()
		conn.Close()
		<-wdone
		return
	}
	c.mu.Lock()
	c.uEOF = rerr == io.EOF
	c.mu.Unlock()
	// the peer ended the stream: decide what that must have contained
	switch c.mode {
	case 0, 3:
		w.Check("C01.complete-then-eof")
		if !w.In.Faults {
			if got != len(expect) {
				tw.violate("complete", "user-short-stream", "conn%d (%s mode %d): backend wrote %d bytes then closed while the user was only reading; user got %d then %v",
					c.id, p.name, c.mode, len(expect), got, rerr)
			} else if rerr != io.EOF {
				tw.violate("complete", "user-no-clean-eof", "conn%d (%s): complete stream but ended with %v instead of EOF", c.id, p.name, rerr)
			}
		}
	case 1, 4:
		if !w.In.Faults {
			tw.violate("close", "user-conn-closed-early", "conn%d (%s mode %d): tunnel closed the user's connection (%v after %d/%d bytes) although neither endpoint had closed",
				c.id, p.name, c.mode, rerr, got, len(expect))
		}
	}
	conn.Close()
	<-wdone
}

func (tw *tunnelWorld) silentTimeout() time.Duration {
	cfg := tw.w.Net.Cfg()
	return 20*time.Second + 40*(cfg.BaseLatency+cfg.Jitter)
}

func (tw *tunnelWorld) waitBackendGotAll(c *tConn) {
	tw.w.WaitUntil(tw.bound([]*tConn{c}), 50*time.Millisecond, func() bool {
		c.mu.Lock()
		defer c.mu.Unlock()
		return c.bRecv >= len(c.A) || c.bEndAt != 0
	})
}

func (tw *tunnelWorld) waitUserGotAll(c *tConn) {
	n := len(c.p.banner) + len(c.B)
	tw.w.WaitUntil(tw.bound([]*tConn{c}), 50*time.Millisecond, func() bool {
		c.mu.Lock()
		defer c.mu.Unlock()
		return c.uRecv >= n || c.uEndAt != 0
	})
}

// writeStream writes data in drawn chunks with optional pauses; errors end it silently
// (the reader side decides what an early end means).
func (tw *tunnelWorld) writeStream(conn net.Conn, data []byte, c *tConn, side int) {
	r := simnet.NewRand(tw.w.In.Seed, fmt.Sprintf("w%d.%d", c.id, side))
	i := 0
	k := 0
	idleAt := -1
	if c.idleS > 0 && len(data) > 16 {
		idleAt = 16 + r.Intn(len(data)-16) // never before the tag that identifies the connection to the backend
	}
	for i < len(data) {
		if idleAt >= 0 && i >= idleAt {
			idleAt = -1
			time.Sleep(time.Duration(c.idleS)*time.Second + time.Duration(r.Range(0, 999))*time.Millisecond)
		}
		n := 1 + r.Intn(max(c.chunkMax, 1))
		if i+n > len(data) {
			n = len(data) - i
		}
		if _, err := conn.Write(data[i : i+n]); err != nil {
			return
		}
		i += n
		k++
		if c.pauseEvery > 0 && k%c.pauseEvery == 0 && k/c.pauseEvery <= 40 {
			time.Sleep(time.Duration(r.Range(1, 50)) * time.Millisecond)
		}
	}
}

func (tw *tunnelWorld) mismatch(c *tConn, side string, expect []byte, got int, chunk []byte) {
	// classify: does the foreign data belong to another connection or proxy?
	probe := chunk
	if len(probe) > 24 {
		probe = probe[:24]
	}
	// first differing byte
	d := 0
	for d < len(chunk) && got+d < len(expect) && chunk[d] == expect[got+d] {
		d++
	}
	foreign := chunk[d:]
	if len(foreign) > 24 {
		foreign = foreign[:24]
	}
	if len(foreign) >= 8 {
		for _, p := range tw.proxies {
			for _, o := range p.conns {
				if o == c {
					continue
				}
				if bytes.Contains(o.A, foreign) || bytes.Contains(o.B, foreign) {
					tw.violate("cross-wire", side+"-got-other-conn-data",
						"conn%d (%s): %s read bytes at offset %d that belong to conn%d (%s)", c.id, c.p.name, side, got+d, o.id, o.p.name)
					return
				}
			}
			if p != c.p && len(p.banner) > 0 && bytes.Contains(p.banner, foreign) {
				tw.violate("cross-wire", side+"-got-other-proxy-banner",
					"conn%d (%s): %s read the banner of %s at offset %d", c.id, c.p.name, side, p.name, got+d)
				return
			}
		}
	}
	// Fault batch: while a client is cut off its routes are gone; a user that connects then is answered by frps
	// itself (TLS alert for an unknown server name, failed CONNECT, not-found page). Those bytes are the server's
	// refusal, not tunnelled data: no backend ever accepted this connection.
	if tw.w.In.Faults && side == "user" && got == 0 {
		tw.tmu.Lock()
		bridged := c.bAccepted
		tw.tmu.Unlock()
		if !bridged {
			tw.w.Probe("tunnel.refused_by_server_during_fault")
			return
		}
	}
	kind := "altered"
	if got+d >= len(expect) {
		kind = "injected-after-end"
	} else if bytes.Contains(expect, foreign) && len(foreign) >= 8 {
		kind = "reordered-or-duplicated-or-lost"
	}
	tw.violate("prefix", side+"-"+kind,
		"conn%d (%s enc=%v comp=%v limit=%s): %s read %d bytes at stream offset %d; first difference at offset %d (expected stream length %d): got % x",
		c.id, c.p.name, c.p.enc, c.p.comp, c.p.limitMode, side, len(chunk), got, got+d, len(expect), foreign)
}

// ---------------------------------------------------------------- backend side

func (tw *tunnelWorld) backendLoop(p *tProxy) {
	for {
		conn, err := p.ln.Accept()
		if err != nil {
			return
		}
		go tw.backendConn(p, conn)
	}
}

func (tw *tunnelWorld) backendConn(p *tProxy, conn net.Conn) {
	w := tw.w
	defer conn.Close()
	var pp *ppInfo
	raw := conn
	br := bufio.NewReaderSize(raw, 64*1024)
	conn = &bufConn{Conn: raw, r: br}
	if p.ppVer != "" {
		mandatory := p.typ == ptTCP || p.typ == ptHTTPS || p.typ == ptTCPMux
		present := mandatory
		if !mandatory {
			// proxies reached through a visitor may or may not carry the header: look before reading
			raw.SetReadDeadline(time.Now().Add(tw.silentTimeout()))
			pk, _ := br.Peek(12)
			raw.SetReadDeadline(time.Time{})
			present = bytes.HasPrefix(pk, []byte("PROXY ")) || bytes.Equal(pk, ppV2Sig)
		}
		if present {
			var err error
			raw.SetReadDeadline(time.Now().Add(120 * time.Second))
			pp, err = readPP(conn)
			raw.SetReadDeadline(time.Time{})
			if err != nil {
				if !w.In.Faults && err != io.EOF {
					tw.violate("proxy-protocol", "header-unparsable", "proxy %s (%s): %v", p.name, p.ppVer, err)
				}
				return
			}
			want := 1
			if p.ppVer == "v2" {
				want = 2
			}
			if pp.version != want {
				tw.violate("proxy-protocol", "wrong-version", "proxy %s wants %s, got v%d", p.name, p.ppVer, pp.version)
			}
		}
	}
	// banner first (backend speaks first)
	if len(p.banner) > 0 {
		if _, err := conn.Write(p.banner); err != nil {
			return
		}
	}
	// expected preamble
	if len(p.backendPre) > 0 {
		got := make([]byte, len(p.backendPre))
		conn.SetReadDeadline(time.Now().Add(120 * time.Second))
		n, err := io.ReadFull(conn, got)
		conn.SetReadDeadline(time.Time{})
		w.Check("C01.prefix")
		if !bytes.Equal(got[:n], p.backendPre[:n]) {
			tw.violate("prefix", "backend-preamble-altered", "proxy %s: sniffed preamble not replayed intact (%d bytes)", p.name, n)
			return
		}
		if err != nil {
			return
		}
	}
	// identify the connection by its tag
	tag := make([]byte, 16)
	conn.SetReadDeadline(time.Now().Add(tw.silentTimeout()))
	n, err := io.ReadFull(conn, tag)
	conn.SetReadDeadline(time.Time{})
	if n == 0 {
		// silent user (mode 3): the backend has finished writing (banner) and closes while the user only reads
		var c *tConn
		tw.tmu.Lock()
		// silent connections carry no tag: tell them apart by the PROXY header when there is one
		for _, o := range p.conns {
			if o.mode == 3 && !o.bAccepted && (pp == nil || !p.direct() || pp.src == o.userLocal) {
				c = o
				o.bAccepted = true
				break
			}
		}
		tw.tmu.Unlock()
		if c == nil {
			if pp != nil && p.direct() && !w.In.Faults {
				tw.w.Check("C01.proxy-protocol-src")
				known := false
				for _, q := range tw.proxies {
					for _, o := range q.conns {
						if o.userLocal == pp.src {
							known = true
						}
					}
				}
				if !known {
					tw.violate("proxy-protocol", "wrong-source-address", "proxy %s: header names source %s, which is no user's address", p.name, pp.src)
				}
			}
			return
		}
		defer close(c.bDone)
		c.mu.Lock()
		c.bClosedAt = w.Net.Now()
		c.bEndAt = w.Net.Now()
		c.mu.Unlock()
		return
	}
	if n < 16 {
		// stream ended inside the tag: fine only if some conn of this proxy has that prefix and was cut
		ok := false
		for _, o := range p.conns {
			if len(o.A) >= n && bytes.Equal(o.A[:n], tag[:n]) {
				ok = true
			}
		}
		if !ok {
			tw.violate("prefix", "backend-altered", "proxy %s: backend read %d bytes matching no stream: % x (%v)", p.name, n, tag[:n], err)
		}
		return
	}
	tw.tmu.Lock()
	c := tw.byTag[string(tag)]
	if c != nil && c.bAccepted {
		tw.tmu.Unlock()
		tw.violate("prefix", "backend-duplicate-stream", "conn%d: a second backend connection carries the same stream (duplication)", c.id)
		return
	}
	if c != nil {
		c.bAccepted = true
	}
	tw.tmu.Unlock()
	if c == nil {
		tw.violate("prefix", "backend-altered", "proxy %s: backend read a 16-byte tag that no user wrote: % x", p.name, tag)
		return
	}
	defer close(c.bDone)
	if c.p != p {
		tw.violate("cross-wire", "backend-got-other-proxy-conn", "conn%d was made to %s's endpoint but reached the backend of %s", c.id, c.p.name, p.name)
		return
	}
	tw.checkPP(c, pp)
	got := 16
	c.mu.Lock()
	c.bRecv = got
	c.mu.Unlock()
	tw.note(p, 16)
	wdone := make(chan struct{})
	go func() {
		defer close(wdone)
		tw.writeStream(conn, c.B, c, 1)
	}()
	buf := make([]byte, 32*1024)
	var rerr error
	closedByUs := false
	for {
		if c.mode == 2 && c.abruptSide == 1 && got >= min(c.abruptAfter/2, len(c.A)) {
			closedByUs = true
			break
		}
		if c.mode == 0 && got == len(c.A) {
			<-wdone
			tw.waitUserGotAll(c)
			closedByUs = true
			break
		}
		var n int
		n, rerr = conn.Read(buf)
		if n > 0 {
			w.Check("C01.prefix")
			if got+n > len(c.A) || !bytes.Equal(buf[:n], c.A[got:got+n]) {
				tw.mismatch(c, "backend", c.A, got, buf[:n])
				return
			}
			got += n
			c.mu.Lock()
			c.bRecv = got
			c.mu.Unlock()
			tw.note(p, n)
		}
		if rerr != nil {
			break
		}
	}
	c.mu.Lock()
	c.bEndAt = w.Net.Now()
	c.bEOF = rerr == io.EOF
	if closedByUs {
		c.bClosedAt = w.Net.Now()
	}
	c.mu.Unlock()
	if closedByUs {
		return
	}
	switch c.mode {
	case 1, 4:
		w.Check("C01.complete-then-eof")
		if !w.In.Faults {
			if got != len(c.A) {
				tw.violate("complete", "backend-short-stream", "conn%d (%s mode %d): user wrote %d bytes then closed while the backend was only reading; backend got %d then %v",
					c.id, p.name, c.mode, len(c.A), got, rerr)
			} else if rerr != io.EOF {
				tw.violate("complete", "backend-no-clean-eof", "conn%d (%s): complete stream but ended with %v instead of EOF", c.id, p.name, rerr)
			}
		}
	case 0, 3:
		if !w.In.Faults {
			tw.violate("close", "backend-conn-closed-early", "conn%d (%s mode %d): tunnel closed the backend's connection (%v after %d/%d bytes) although neither endpoint had closed",
				c.id, p.name, c.mode, rerr, got, len(c.A))
		}
	}
	<-wdone
}

func (tw *tunnelWorld) checkPP(c *tConn, pp *ppInfo) {
	if pp == nil {
		return
	}
	tw.w.Check("C01.proxy-protocol-src")
	switch c.p.typ {
	case ptTCP, ptHTTPS, ptTCPMux:
		if pp.src != c.userLocal {
			tw.violate("proxy-protocol", "wrong-source-address", "conn%d (%s): header says source %s, the user connected from %s", c.id, c.p.name, pp.src, c.userLocal)
		}
	}
}

// bufConn reads through a bufio.Reader (so that a header can be peeked) and writes directly.
type bufConn struct {
	net.Conn
	r *bufio.Reader
}

func (b *bufConn) Read(p []byte) (int, error) { return b.r.Read(p) }
