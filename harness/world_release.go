package verifharness

import (
	"fmt"
	"net/http"
	"runtime"
	"sort"
	"strings"
	"sync"
	"time"

	"verif/sim/simnet"
)

// World "release" (C10): everything a proxy or session held is released on every
// termination path; identical re-registration succeeds; footprint does not grow.

func init() { RegisterWorld("release", worldRelease) }

// frpGoroutines counts goroutines with a frame in frp's own packages (the clients are scripted, so
// these are the server's).
func frpGoroutines() int {
	buf := make([]byte, 8<<20)
	buf = buf[:runtime.Stack(buf, true)]
	n := 0
	for _, g := range strings.Split(string(buf), "\n\n") {
		if strings.Contains(g, "github.com/fatedier/frp/") && !strings.Contains(g, "frp/verifharness") {
			n++
		} else if strings.Contains(g, "github.com/fatedier/frp/server") || strings.Contains(g, "github.com/fatedier/frp/pkg") {
			n++
		}
	}
	return n
}

// frpGoroutineSummary lists the top frp frame of every server goroutine with counts.
func frpGoroutineSummary() string {
	buf := make([]byte, 8<<20)
	buf = buf[:runtime.Stack(buf, true)]
	counts := map[string]int{}
	for _, g := range strings.Split(string(buf), "\n\n") {
		if !strings.Contains(g, "github.com/fatedier/frp/") || strings.Contains(g, "frp/verifharness") {
			continue
		}
		top := ""
		for _, l := range strings.Split(g, "\n") {
			if strings.HasPrefix(l, "github.com/fatedier/frp/") {
				top = l
				if i := strings.Index(top, "("); i > 0 && !strings.HasPrefix(top[i:], "(*") {
					top = top[:i]
				}
				break
			}
		}
		counts[top]++
	}
	var out []string
	for k, v := range counts {
		out = append(out, fmt.Sprintf("%d x %s", v, k))
	}
	sort.Strings(out)
	return strings.Join(out, "\n")
}

type relSpec struct {
	f    M
	kind string
}

// releaseQuota: a registration that fails part-way gives back the per-client port quota it had reserved,
// whatever made it fail (name taken, port busy, port not allowed, listen failure, route conflict is not a port user).
func releaseQuota(w *World) {
	token := "rel-token"
	tcpMux := w.KnobBool("tcp_mux", 50)
	quota := w.KnobPick("quota", 1, 2, 3)
	scfg := map[string]any{
		"bindAddr": "10.0.0.1", "bindPort": 7000,
		"auth":              map[string]any{"token": token},
		"transport":         map[string]any{"tcpMux": tcpMux, "heartbeatTimeout": -1},
		"allowPorts":        []map[string]any{{"start": 20000, "end": 20009}},
		"maxPortsPerClient": quota,
		"userConnTimeout":   3,
	}
	env := w.newLcEnv(scfg, token, PeerOpts{Server: "10.0.0.1:7000", Mux: tcpMux, Token: token})
	env.start()
	r := w.R
	viol := func(oracle, sig, f string, a ...any) { w.Violate("C10", oracle, sig, f, a...) }
	other := env.newClient("other", 0)
	other.login("")
	if rr, got := other.register(M{"proxy_name": "taken", "proxy_type": "tcp", "remote_port": 20009}); !got || mstr(rr, "error") != "" {
		w.Fail("other register: %v", rr)
	}
	c := env.newClient("q", 0)
	c.login("")
	syncCtl := func() {
		from := len(c.Inbox)
		c.Ping(true, token)
		c.WaitMsg(10*time.Second, func(m RecvMsg) bool { return m.Seq >= from && m.Type == tPong })
	}
	var history []string
	nfail := w.KnobPick("nfailures", 1, 3, 6)
	for i := 0; i < nfail; i++ {
		typ := []string{"tcp", "udp"}[r.Intn(2)]
		f := M{"proxy_name": fmt.Sprintf("f%d", i), "proxy_type": typ, "remote_port": 20000 + r.Intn(4)}
		kind := r.Intn(5)
		switch kind {
		case 0: // the name is live in another session
			f["proxy_name"] = "taken"
		case 1: // the port is owned by another session
			f["proxy_type"], f["remote_port"] = "tcp", 20009
		case 2: // the port is outside the allowed ranges
			f["remote_port"] = 30000 + r.Intn(100)
		case 3: // somebody outside frps holds the port
			net := "tcp"
			if typ == "udp" {
				net = "udp"
			}
			w.Net.SquatPort(net, fmt.Sprintf("10.0.0.1:%d", f["remote_port"]), true)
			defer w.Net.SquatPort(net, fmt.Sprintf("10.0.0.1:%d", f["remote_port"]), false)
			f["remote_port"] = f["remote_port"].(int)
		case 4: // the name is already live in this very session
			if rr, got := c.register(M{"proxy_name": "mine", "proxy_type": "tcp", "remote_port": 20008}); got && mstr(rr, "error") == "" {
				f["proxy_name"] = "mine"
				rr, _ := c.register(f)
				history = append(history, fmt.Sprintf("%s -> %s", jsonStr(f), jsonStr(rr)))
				c.CloseProxy("mine")
				syncCtl()
				continue
			}
		}
		rr, got := c.register(f)
		history = append(history, fmt.Sprintf("%s -> %s", jsonStr(f), jsonStr(rr)))
		if got && mstr(rr, "error") == "" {
			// not a failure after all (e.g. the squatted port was probed differently): give it back properly
			c.CloseProxy(mstr(f, "proxy_name"))
			syncCtl()
		}
		if kind == 3 {
			net := "tcp"
			if typ == "udp" {
				net = "udp"
			}
			w.Net.SquatPort(net, fmt.Sprintf("10.0.0.1:%d", f["remote_port"]), false)
		}
	}
	// the whole quota must still be available
	w.Check("C10.failed-registration-releases-quota")
	for j := 0; j < quota; j++ {
		f := M{"proxy_name": fmt.Sprintf("ok%d", j), "proxy_type": "tcp", "remote_port": 20004 + j}
		rr, got := c.register(f)
		if !got || mstr(rr, "error") != "" {
			viol("partial", "quota-not-released-after-failed-registration", "maxPortsPerClient=%d: after %d failed registrations and no live proxy, registration %d of %d was refused: %v; failures: %v", quota, nfail, j+1, quota, rr, history)
			return
		}
	}
	// and not more than the quota
	if rr, got := c.register(M{"proxy_name": "over", "proxy_type": "tcp", "remote_port": 20003}); got && mstr(rr, "error") == "" {
		viol("partial", "quota-exceeded", "maxPortsPerClient=%d: a %dth port was granted", quota, quota+1)
	}
	w.SetSample(map[string]any{"scenario": "quota", "quota": quota, "failures": history})
	w.Nontrivial()
}

func worldRelease(w *World) {
	if w.KnobBool("quota_scenario", 15) {
		releaseQuota(w)
		return
	}
	token := "rel-token"
	tcpMux := w.KnobBool("tcp_mux", 50)
	hbTimeout := 0
	term := w.Knob("termination", 0, 4) // 0 CloseProxy, 1 drop, 2 re-login same run id, 3 heartbeat timeout, 4 mixed
	if term == 3 || term == 4 {
		hbTimeout = w.KnobPick("hb_timeout", 3, 5, 10)
	}
	scfg := map[string]any{
		"bindAddr": "10.0.0.1", "bindPort": 7000,
		"vhostHTTPPort": 8080, "vhostHTTPSPort": 8443, "tcpmuxHTTPConnectPort": 7005,
		"subDomainHost":   "sub.example.test",
		"auth":            map[string]any{"token": token},
		"transport":       map[string]any{"tcpMux": tcpMux},
		"allowPorts":      []map[string]any{{"start": 20000, "end": 20009}},
		"userConnTimeout": 3,
	}
	scfg["transport"].(map[string]any)["heartbeatTimeout"] = -1
	if hbTimeout > 0 {
		scfg["transport"].(map[string]any)["heartbeatTimeout"] = hbTimeout
	}
	// optionally every registration is put before a server plugin and so takes simulated time: a control connection
	// that drops meanwhile leaves registrations in flight
	regDelay := time.Duration(w.KnobPick("newproxy_plugin_ms", 0, 0, 30, 400)) * time.Millisecond
	if regDelay > 0 {
		restore := w.PlugN.Enter()
		pln, perr := w.Net.Listen("tcp", "10.0.4.1:9800")
		restore()
		if perr != nil {
			w.Fail("%v", perr)
		}
		w.PlugN.Go(func() {
			(&http.Server{Handler: http.HandlerFunc(func(rw http.ResponseWriter, _ *http.Request) {
				time.Sleep(regDelay)
				rw.Header().Set("Content-Type", "application/json")
				rw.Write([]byte(`{"reject":false,"unchange":true}`))
			})}).Serve(pln)
		})
		scfg["httpPlugins"] = []map[string]any{{"name": "slow", "addr": "10.0.4.1:9800", "path": "/handler", "ops": []string{"NewProxy"}}}
	}
	env := w.newLcEnv(scfg, token, PeerOpts{Server: "10.0.0.1:7000", Mux: tcpMux, Token: token})
	env.httpPort, env.httpsPort, env.muxPort = 8080, 8443, 7005
	env.start()
	r := w.R
	viol := func(oracle, sig, f string, a ...any) { w.Violate("C10", oracle, sig, f, a...) }

	// the proxy set: a drawn subset of every type
	all := []relSpec{
		{M{"proxy_name": "t1", "proxy_type": "tcp", "remote_port": 20001}, "tcp"},
		{M{"proxy_name": "u1", "proxy_type": "udp", "remote_port": 20002}, "udp"},
		{M{"proxy_name": "h1", "proxy_type": "http", "custom_domains": []string{"a.example.test", "b.example.test"}, "locations": []string{"/", "/x"}}, "http"},
		{M{"proxy_name": "h2", "proxy_type": "http", "subdomain": "svc"}, "http-sub"},
		{M{"proxy_name": "s1", "proxy_type": "https", "custom_domains": []string{"s.example.test"}}, "https"},
		{M{"proxy_name": "m1", "proxy_type": "tcpmux", "multiplexer": "httpconnect", "custom_domains": []string{"m.example.test"}}, "tcpmux"},
		{M{"proxy_name": "st1", "proxy_type": "stcp", "sk": "k"}, "stcp"},
		{M{"proxy_name": "su1", "proxy_type": "sudp", "sk": "k"}, "sudp"},
		{M{"proxy_name": "x1", "proxy_type": "xtcp", "sk": "k"}, "xtcp"},
		{M{"proxy_name": "g1", "proxy_type": "tcp", "remote_port": 20003, "group": "G", "group_key": "gk"}, "tcp-group"},
		{M{"proxy_name": "g2", "proxy_type": "tcp", "remote_port": 20003, "group": "G", "group_key": "gk"}, "tcp-group2"},
		{M{"proxy_name": "hg", "proxy_type": "http", "custom_domains": []string{"g.example.test"}, "group": "HG", "group_key": "gk"}, "http-group"},
		{M{"proxy_name": "mg", "proxy_type": "tcpmux", "multiplexer": "httpconnect", "custom_domains": []string{"mg.example.test"}, "group": "MG", "group_key": "gk"}, "tcpmux-group"},
		{M{"proxy_name": "ul", "proxy_type": "udp", "remote_port": 20004, "bandwidth_limit": "64KB", "bandwidth_limit_mode": "server"}, "udp-limit"},
		{M{"proxy_name": "hl", "proxy_type": "http", "custom_domains": []string{"hl.example.test"}, "bandwidth_limit": "64KB", "bandwidth_limit_mode": "server"}, "http-limit"},
		// server-chosen port last, so that it cannot take a port another entry of the set asks for by number
		{M{"proxy_name": "t0", "proxy_type": "tcp", "remote_port": 0}, "tcp0"},
	}
	var set []relSpec
	for i, s := range all {
		if w.KnobBool(fmt.Sprintf("use.%s", s.kind), 45) {
			set = append(set, all[i])
		}
	}
	if len(set) == 0 {
		set = append(set, all[r.Intn(len(all))])
	}

	// bystander with its own proxy
	by := env.newClient("by", 1)
	keepAlive := func(c *lcClient, stop chan struct{}) {
		// valid heartbeats so that only the intended silence trips the timeout
		c.Node.Go(func() {
			for {
				select {
				case <-stop:
					return
				case <-time.After(time.Second):
					if c.IsClosed() {
						return
					}
					c.Ping(true, token)
				}
			}
		})
	}
	if rr, err := by.login(""); err != nil || mstr(rr, "error") != "" {
		w.Fail("bystander login: %v %v", err, rr)
	}
	if hbTimeout > 0 {
		keepAlive(by, make(chan struct{}))
	}
	if rr, got := by.register(M{"proxy_name": "by", "proxy_type": "tcp", "remote_port": 20009}); !got || mstr(rr, "error") != "" {
		w.Fail("bystander register: %v", rr)
	}
	// ... and with resources right next to the ones that come and go: routes on the same hosts, restricted to
	// another user or under another location, in the same route tables
	neighbours := w.KnobBool("bystander_neighbours", 60)
	if neighbours {
		for _, f := range []M{
			{"proxy_name": "byu", "proxy_type": "http", "custom_domains": []string{"a.example.test", "hl.example.test", "g.example.test"}, "route_by_http_user": "byuser"},
			{"proxy_name": "byl", "proxy_type": "http", "custom_domains": []string{"b.example.test"}, "locations": []string{"/by"}},
			{"proxy_name": "bym", "proxy_type": "tcpmux", "multiplexer": "httpconnect", "custom_domains": []string{"m.example.test", "mg.example.test"}, "route_by_http_user": "byuser"},
		} {
			if rr, got := by.register(f); !got || mstr(rr, "error") != "" {
				w.Fail("bystander register: %v", rr)
			}
		}
	}
	checkBystander := func(when string) {
		w.Check("C10.bystander-untouched")
		res := env.probeTCP("10.0.0.1:20009", 10*time.Second)
		if res.ServedBy != by.Name+"/by" {
			viol("bystander", "bystander-disturbed-"+when, "%s: the bystander's proxy no longer serves (%q, %v)", when, res.ServedBy, res.Err)
		}
		if !neighbours {
			return
		}
		for _, h := range []string{"a.example.test", "hl.example.test", "g.example.test"} {
			if sb, st, err := env.probeHTTPUser(h, "/q", "byuser", 10*time.Second); sb != by.Name+"/byu" {
				viol("bystander", "neighbour-route-disturbed-"+when, "%s: the bystander's http route (%s, user byuser) no longer serves: served by %q, status %d, %v", when, h, sb, st, err)
				return
			}
		}
		if sb, st, err := env.probeHTTP("b.example.test", "/by/1", 10*time.Second); sb != by.Name+"/byl" {
			viol("bystander", "neighbour-route-disturbed-"+when, "%s: the bystander's http route (b.example.test, /by) no longer serves: served by %q, status %d, %v", when, sb, st, err)
			return
		}
		for _, h := range []string{"m.example.test", "mg.example.test"} {
			if sb, err := env.probeCONNECT(h, "byuser", 10*time.Second); sb != by.Name+"/bym" {
				viol("bystander", "neighbour-route-disturbed-"+when, "%s: the bystander's tcpmux route (%s, user byuser) no longer serves: served by %q, %v", when, h, sb, err)
				return
			}
		}
	}

	regAll := func(c *lcClient, when string, retry time.Duration) bool {
		ok := true
		for _, s := range set {
			deadline := w.Net.Now() + retry
			for {
				rr, got := c.register(s.f)
				w.Check("C10.identical-reregistration")
				if got && mstr(rr, "error") == "" {
					break
				}
				if w.Net.Now() >= deadline {
					viol("reregister", "refused-"+when+"-"+s.kind, "%s: identical registration of %s (%s) refused: %v got=%v", when, mstr(s.f, "proxy_name"), s.kind, rr, got)
					ok = false
					break
				}
				time.Sleep(200 * time.Millisecond)
			}
		}
		return ok
	}
	// (a ping/pong pair is not a barrier here: the keep-alive pings of this world run in parallel, and the pong of
	// an earlier one would end the wait before the messages in front of it have been processed)
	syncCtl := func(c *lcClient) {
		if !c.syncStrong() && !c.IsClosed() {
			// (decides C16 rather than C10: the session is open and has stopped handling its messages)
			w.Violate("C16", "stall", "session-message-handling-stalled", "session %s is open but a registration sent after its CloseProxy messages got no reply within 30 s (proxies %v)", c.Name, kinds(set))
		}
	}

	cur := env.newClient("cy", r.Range(0, 3))
	resp, err := cur.login("")
	if err != nil || mstr(resp, "error") != "" {
		w.Fail("login: %v %v", err, resp)
	}
	runID := cur.RunID
	stopKA := make(chan struct{})
	if hbTimeout > 0 {
		keepAlive(cur, stopKA)
	}
	if !regAll(cur, "initial", 0) {
		return
	}
	// optional user traffic so that work connections / idle backend connections exist at termination
	traffic := func() {
		for _, s := range set {
			switch s.kind {
			case "tcp":
				env.probeTCP("10.0.0.1:20001", 5*time.Second)
			case "http":
				env.probeHTTP("a.example.test", "/x/1", 5*time.Second)
			case "http-limit":
				env.probeHTTP("hl.example.test", "/x/1", 5*time.Second)
			}
		}
	}

	cycles := w.KnobPick("cycles", 3, 6, 12, 25, 60)
	if w.In.Tier == "thorough" {
		cycles *= 4
	}
	// somebody else tries to get into the groups of the set with a wrong key, or with other endpoint parameters, and is
	// refused: a refused registration touches nothing that belongs to others
	intruder := env.newClient("ix", 0)
	intrude := func() {
		if intruder.IsClosed() {
			return
		}
		for _, s := range set {
			if _, grouped := s.f["group"]; !grouped {
				continue
			}
			f := M{}
			for k, v := range s.f {
				f[k] = v
			}
			f["proxy_name"] = "intruder-" + mstr(s.f, "proxy_name")
			if r.Intn(2) == 0 {
				f["group_key"] = "not-the-key"
			} else if _, ok := f["remote_port"]; ok {
				f["remote_port"] = 20008
			} else {
				f["group_key"] = "not-the-key"
			}
			w.Probe("release.refused_group_join")
			if rr, got := intruder.register(f); got && mstr(rr, "error") == "" {
				intruder.CloseProxy(mstr(f, "proxy_name"))
				intruder.syncStrong()
			}
		}
	}
	if w.KnobBool("group_intruder", 50) {
		if rr, err := intruder.login(""); err != nil || mstr(rr, "error") != "" {
			w.Fail("intruder login: %v %v", err, rr)
		}
		if hbTimeout > 0 {
			keepAlive(intruder, make(chan struct{}))
		}
	} else {
		intruder.Peer.Closed = true
	}
	var g2, l2, c2 int
	for cy := 0; cy < cycles; cy++ {
		if cy < 3 {
			intrude()
		}
		if w.KnobBool("traffic", 60) {
			traffic()
		}
		kind := term
		if term == 4 {
			kind = r.Intn(4)
		}
		switch kind {
		case 0: // explicit close, same session
			if len(set) > 1 && r.Intn(2) == 0 {
				// only one proxy of the set goes and comes back while the others (a fellow group member, say) stay
				one := set[r.Intn(len(set))]
				cur.CloseProxy(mstr(one.f, "proxy_name"))
				syncCtl(cur)
				w.Probe("release.closeproxy_single")
				rr, got := cur.register(one.f)
				w.Check("C10.identical-reregistration")
				if !got || mstr(rr, "error") != "" {
					viol("reregister", "refused-after-closeproxy-single-"+one.kind, "proxy %s (%s) was closed on its own while the rest of the set stayed; its identical registration right afterwards was refused: %v", mstr(one.f, "proxy_name"), one.kind, rr)
					return
				}
				break
			}
			for _, s := range set {
				cur.CloseProxy(mstr(s.f, "proxy_name"))
			}
			syncCtl(cur)
			w.Probe("release.closeproxy")
			if !regAll(cur, "after-closeproxy", 0) {
				return
			}
		case 1: // control connection dropped, new session shortly after
			retry := 5 * time.Second
			if r.Intn(3) == 0 {
				// ... while the registrations of the whole set are in flight: the session gives its proxies up, asks
				// for all of them again without waiting for the replies, and drops
				for _, s := range set {
					cur.CloseProxy(mstr(s.f, "proxy_name"))
				}
				syncCtl(cur)
				for _, s := range set {
					cur.Send(tNewProxy, s.f)
				}
				if d := r.Intn(4); d > 0 {
					time.Sleep(time.Duration(d) * time.Millisecond)
				}
				w.Probe("release.drop_during_registration")
				retry = 10*time.Second + time.Duration(len(set))*regDelay
			}
			if r.Intn(2) == 0 {
				cur.Drop()
			} else {
				w.Net.CrashNode(cur.Node) // reset at the transport level
			}
			close(stopKA)
			w.Probe("release.drop")
			cur = cur.fresh()
			rr, err := cur.login("")
			if err != nil || mstr(rr, "error") != "" {
				viol("reregister", "login-refused-after-drop", "login after drop: %v %v", err, rr)
				return
			}
			runID = cur.RunID
			stopKA = make(chan struct{})
			if hbTimeout > 0 {
				keepAlive(cur, stopKA)
			}
			if !regAll(cur, "after-drop", retry) {
				return
			}
		case 2: // re-login with the same run id: old session torn down before the acknowledgement
			old := cur
			close(stopKA)
			cur = cur.fresh()
			rr, err := cur.login(runID)
			if err != nil || mstr(rr, "error") != "" {
				viol("reregister", "relogin-refused", "re-login: %v %v", err, rr)
				return
			}
			w.Probe("release.relogin")
			stopKA = make(chan struct{})
			if hbTimeout > 0 {
				keepAlive(cur, stopKA)
			}
			if !regAll(cur, "after-relogin", 0) {
				return
			}
			old.Drop()
		case 3: // the client falls silent: heartbeat timeout
			close(stopKA)
			old := cur
			// hold its connections: nothing is delivered any more and nothing signals
			w.Net.Partition(old.Node, true)
			w.Probe("release.hb_timeout")
			time.Sleep(time.Duration(hbTimeout+3) * time.Second)
			cur = cur.fresh()
			rr, err := cur.login("")
			if err != nil || mstr(rr, "error") != "" {
				viol("reregister", "login-refused-after-timeout", "login after heartbeat timeout: %v %v", err, rr)
				return
			}
			runID = cur.RunID
			stopKA = make(chan struct{})
			keepAlive(cur, stopKA)
			// with stream multiplexing a connection cut in the middle of a mux frame keeps the server's
			// session reader busy until the mux keep-alive (30 s + 10 s write timeout) declares the
			// transport dead; the session has not "ended" before that, so allow for it
			if !regAll(cur, "after-heartbeat-timeout", 50*time.Second) {
				return
			}
			w.Net.Partition(old.Node, false)
			old.Drop()
		}
		checkBystander(fmt.Sprintf("cycle-kind%d", kind))
		if cy == 1 {
			// transient holds (read deadlines of up to a minute on half-set-up connections) must have expired
			time.Sleep(150 * time.Second)
			g2, l2, c2 = frpGoroutines(), len(w.Net.ListeningTCP())+len(w.Net.BoundUDP()), w.Net.OpenConns()
		}
	}
	if cycles >= 6 {
		time.Sleep(150 * time.Second)
		gN, lN, cN := frpGoroutines(), len(w.Net.ListeningTCP())+len(w.Net.BoundUDP()), w.Net.OpenConns()
		w.Check("C10.footprint-slope")
		n := float64(cycles - 2)
		if float64(gN-g2)/n > 0.34 && gN-g2 > 6 {
			viol("footprint", "goroutines-grow", "server goroutines grew from %d (after cycle 2) to %d (after cycle %d) with proxies %v", g2, gN, cycles, kinds(set))
		}
		if float64(lN-l2)/n > 0.34 && lN-l2 > 2 {
			viol("footprint", "listeners-grow", "bound endpoints grew from %d to %d over %d cycles with proxies %v", l2, lN, cycles, kinds(set))
		}
		// pooled work connections may legitimately fill up to the session's bounded capacity: discount that
		if float64(cN-c2)/n > 0.5 && cN-c2 > 30 {
			open := map[string]int{}
			for _, id := range w.Net.PairsMatching(func(string, int) bool { return true }) {
				pi := w.Net.Pair(id)
				open[fmt.Sprintf("%s closed=%v", pi.Link, pi.Closed)]++
			}
			viol("footprint", "connections-grow", "open connection endpoints grew from %d to %d over %d cycles with proxies %v; open now: %v", c2, cN, cycles, kinds(set), open)
		}
	}

	// hand-over: the session gives its proxies up explicitly, another session registers the identical set,
	// then the first session ends by some path; nothing the second session now holds may be touched
	if w.KnobBool("handover", 60) {
		for _, s := range set {
			cur.CloseProxy(mstr(s.f, "proxy_name"))
		}
		syncCtl(cur)
		heir := env.newClient("cy", 1)
		if rr, err := heir.login(""); err == nil && mstr(rr, "error") == "" {
			if hbTimeout > 0 {
				keepAlive(heir, make(chan struct{}))
			}
			if regAll(heir, "handover", 0) {
				w.Probe("release.handover")
				if r.Intn(2) == 0 {
					cur.Drop()
				} else {
					w.Net.CrashNode(cur.Node)
				}
				close(stopKA)
				stopKA = make(chan struct{})
				time.Sleep(3 * time.Second)
				w.Check("C10.other-sessions-resources-untouched")
				stranger := env.newClient("zz", 0)
				stranger.login("")
				if hbTimeout > 0 {
					keepAlive(stranger, make(chan struct{}))
				}
				for _, s := range set {
					// the heir still owns every name: a stranger must be refused
					rr, got := stranger.register(s.f)
					if got && mstr(rr, "error") == "" {
						viol("bystander", "resource-of-other-session-released-"+s.kind, "session A closed %s explicitly, session B registered the identical proxy, then A ended: a third session could register it too (%v)", s.kind, rr)
						stranger.CloseProxy(mstr(s.f, "proxy_name"))
					}
					switch s.kind {
					case "tcp":
						if res := env.probeTCP("10.0.0.1:20001", 8*time.Second); res.ServedBy != heir.Name+"/t1" {
							viol("bystander", "resource-of-other-session-released-tcp-port", "after A ended, B's tcp proxy no longer serves: %q %v", res.ServedBy, res.Err)
						}
					case "http":
						if sb, st, err := env.probeHTTP("a.example.test", "/x/1", 8*time.Second); sb != heir.Name+"/h1" {
							viol("bystander", "resource-of-other-session-released-http-route", "after A ended, B's http route no longer serves: %q status %d %v", sb, st, err)
						}
					}
				}
				cur = heir
			}
		}
	}

	// registrations that fail part-way release what they had already taken
	if w.KnobBool("partial", 70) {
		// (a) a later route of the registration conflicts (second custom domain, or the subdomain after the custom
		// domain), for every vhost-routed proxy type; afterwards the first route must be free for anybody, and once
		// the conflict is gone the identical registration must go through
		o := env.newClient("o", 0)
		o.login("")
		keepAlive(o, make(chan struct{}))
		ptyp := []string{"http", "http", "https", "tcpmux"}[w.Knob("partial.type", 0, 3)]
		viaSub := w.KnobBool("partial.conflict_on_subdomain", 35)
		mkp := func(name string, doms []string, sub string) M {
			f := M{"proxy_name": name, "proxy_type": ptyp}
			if len(doms) > 0 {
				f["custom_domains"] = doms
			}
			if sub != "" {
				f["subdomain"] = sub
			}
			if ptyp == "tcpmux" {
				f["multiplexer"] = "httpconnect"
			}
			return f
		}
		blk, full := mkp("blocker", []string{"p2.example.test"}, ""), mkp("pp", []string{"p1.example.test", "p2.example.test"}, "")
		if viaSub {
			blk, full = mkp("blocker", nil, "p2"), mkp("pp", []string{"p1.example.test"}, "p2")
		}
		if rr, got := o.register(blk); got && mstr(rr, "error") == "" {
			rr, got := cur.register(full)
			w.Check("C10.partial-failure-releases")
			w.Probe("release.partial_domain")
			w.Probe("release.partial_domain." + ptyp)
			if got && mstr(rr, "error") == "" {
				viol("partial", "duplicate-route-accepted", "%s proxy with a route already registered by another proxy was accepted", ptyp)
			} else {
				who := cur
				if w.KnobBool("partial.first_route_taken_by_other", 40) {
					who = o
				}
				rr, got := who.register(mkp("p1only", []string{"p1.example.test"}, ""))
				if !got || mstr(rr, "error") != "" {
					viol("partial", "first-domain-not-released", "%s registration [p1,p2] failed on p2; registering p1 alone afterwards was refused: %v", ptyp, rr)
				} else {
					who.CloseProxy("p1only")
					syncCtl(who)
					o.CloseProxy("blocker")
					syncCtl(o)
					rr, got := cur.register(full)
					if !got || mstr(rr, "error") != "" {
						viol("partial", "registration-refused-after-conflict-gone", "%s registration [p1,p2] failed on p2; after the conflicting proxy was closed the identical registration was refused: %v", ptyp, rr)
					} else {
						cur.CloseProxy("pp")
						syncCtl(cur)
					}
				}
			}
		}
		// (b) listen fails after the port has been acquired
		for _, typ := range []string{"tcp", "udp", "tcp-group"} {
			fails := 0
			target := "10.0.0.1:20007"
			if typ == "udp" {
				target = "udp/10.0.0.1:20007"
			}
			seen := 0
			w.Net.ListenFault = func(nd *simnet.Node, addr string) error {
				if addr != target {
					return nil
				}
				seen++
				if seen == 2 { // the first listen is the availability probe, the second the real one
					fails++
					return fmt.Errorf("injected listen failure")
				}
				return nil
			}
			f := M{"proxy_name": "lf-" + typ, "proxy_type": "tcp", "remote_port": 20007}
			if typ == "udp" {
				f["proxy_type"] = "udp"
			}
			if typ == "tcp-group" {
				f["group"], f["group_key"] = "LF", "k"
			}
			rr, got := cur.register(f)
			w.Net.ListenFault = nil
			if fails == 0 {
				continue
			}
			w.Check("C10.partial-failure-releases")
			w.Probe("release.partial_listen")
			if got && mstr(rr, "error") == "" {
				continue // the server coped with the failure some other way
			}
			rr, got = cur.register(f)
			if !got || mstr(rr, "error") != "" {
				viol("partial", "port-leaked-after-listen-failure-"+typ, "%s registration failed because listen failed after the port was acquired; the identical registration afterwards was refused: %v", typ, rr)
			} else {
				cur.CloseProxy(mstr(f, "proxy_name"))
				syncCtl(cur)
			}
		}
		// (c) the name is taken by somebody else while the registration is under way: the refused registration gives
		// back what it had taken and nothing of the winner's - the winner keeps name, port and service
		if w.KnobBool("partial.name_race", 60) {
			w.Probe("release.partial_name_race")
			// two allowed ports nobody holds at this point (a server-chosen port of the set may be anywhere)
			var freeP []int
			for p := 20005; p <= 20008 && len(freeP) < 2; p++ {
				if !env.frpsTCPPorts()[p] {
					freeP = append(freeP, p)
				}
			}
			rounds := w.KnobPick("partial.name_race_rounds", 1, 3, 6)
			if len(freeP) < 2 {
				freeP, rounds = []int{0, 0}, 0
			}
			pA, pB := freeP[0], freeP[1]
			for round := 0; round < rounds; round++ {
				name := fmt.Sprintf("nr%d", round)
				var wg sync.WaitGroup
				var r1, r2 M
				var g1, g2 bool
				wg.Add(2)
				go func() {
					defer wg.Done()
					r1, g1 = cur.register(M{"proxy_name": name, "proxy_type": "tcp", "remote_port": pA})
				}()
				go func() {
					defer wg.Done()
					r2, g2 = o.register(M{"proxy_name": name, "proxy_type": "tcp", "remote_port": pB})
				}()
				wg.Wait()
				ok1, ok2 := g1 && mstr(r1, "error") == "", g2 && mstr(r2, "error") == ""
				w.Check("C10.partial-failure-releases")
				if ok1 == ok2 {
					if ok1 {
						viol("partial", "name-given-twice", "two concurrent registrations of the name %s were both accepted", name)
					}
					break
				}
				win, lose, wport, lport := cur, o, pA, pB
				if ok2 {
					win, lose, wport, lport = o, cur, pB, pA
				}
				// the loser's port is free again, the winner's is bound and keeps its name
				if rr, got := lose.register(M{"proxy_name": name + "-other", "proxy_type": "tcp", "remote_port": lport}); !got || mstr(rr, "error") != "" {
					viol("partial", "port-leaked-after-name-conflict", "registration of %s refused because the name was taken meanwhile; its port %d is not free afterwards: %v", name, lport, rr)
				} else {
					lose.CloseProxy(name + "-other")
					syncCtl(lose)
				}
				if rr, got := lose.register(M{"proxy_name": name, "proxy_type": "tcp", "remote_port": lport}); got && mstr(rr, "error") == "" {
					viol("partial", "winner-lost-its-name", "two clients asked for the name %s at the same moment, one was refused; afterwards the same name was registered again while the winner's proxy (port %d) is still live", name, wport)
					lose.CloseProxy(name)
					syncCtl(lose)
				}
				if !env.frpsTCPPorts()[wport] {
					viol("partial", "winner-lost-its-port", "after a refused concurrent registration of the same name the winner's port %d is no longer bound", wport)
				}
				win.CloseProxy(name)
				syncCtl(win)
			}
		}
		checkBystander("after-partial")
	}
	w.SetSample(map[string]any{"proxies": kinds(set), "termination": term, "cycles": cycles})
	w.Nontrivial()
}

func kinds(set []relSpec) []string {
	var out []string
	for _, s := range set {
		out = append(out, s.kind)
	}
	return out
}
