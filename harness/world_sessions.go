package verifharness

import (
	"bytes"
	"fmt"
	"io"
	"net/http"
	"regexp"
	"sort"
	"sync"
	"time"
)

// World "sessions" (C12): proxy-name ownership across sessions, foreign close,
// re-login with the same run id (also several at once), late cleanup, run ids.

func init() { RegisterWorld("sessions", worldSessions) }

var runIDRe = regexp.MustCompile(`^[0-9a-f]{16}$`)

func worldSessions(w *World) {
	token := "sess-token"
	tcpMux := w.KnobBool("tcp_mux", 50)
	scfg := map[string]any{
		"bindAddr": "10.0.0.1", "bindPort": 7000,
		"auth":            map[string]any{"token": token},
		"transport":       map[string]any{"tcpMux": tcpMux, "heartbeatTimeout": -1},
		"allowPorts":      []map[string]any{{"start": 20000, "end": 20019}},
		"userConnTimeout": 3,
	}
	// optionally a server plugin is consulted for registrations and holds those of proxies called "slow-..." for a
	// few seconds: the session that sent one is busy, its teardown (when it is replaced meanwhile) takes that long
	stuckFor := time.Duration(0)
	if w.KnobBool("slow_plugin", 50) {
		stuckFor = time.Duration(w.KnobPick("slow_plugin_s", 2, 3, 5)) * time.Second
		restore := w.PlugN.Enter()
		pln, perr := w.Net.Listen("tcp", "10.0.4.1:9800")
		restore()
		if perr != nil {
			w.Fail("%v", perr)
		}
		w.PlugN.Go(func() {
			(&http.Server{Handler: http.HandlerFunc(func(rw http.ResponseWriter, req *http.Request) {
				body, _ := io.ReadAll(req.Body)
				if bytes.Contains(body, []byte(`"proxy_name":"slow-`)) {
					time.Sleep(stuckFor)
				}
				rw.Header().Set("Content-Type", "application/json")
				rw.Write([]byte(`{"reject":false,"unchange":true}`))
			})}).Serve(pln)
		})
		scfg["httpPlugins"] = []map[string]any{{"name": "slow", "addr": "10.0.4.1:9800", "path": "/handler", "ops": []string{"NewProxy"}}}
	}
	env := w.newLcEnv(scfg, token, PeerOpts{Server: "10.0.0.1:7000", Mux: tcpMux, Token: token})
	env.start()
	r := w.R
	viol := func(oracle, sig, f string, a ...any) { w.Violate("C12", oracle, sig, f, a...) }
	var history []string
	hist := func(f string, a ...any) {
		s := fmt.Sprintf(f, a...)
		history = append(history, s)
		w.Net.Logf("op %s", s)
	}

	type sess struct {
		c     *lcClient
		runID string
		live  bool
	}
	var sessions []*sess
	owner := map[string]*sess{} // proxy name -> owning session
	var runIDs []string
	names := []string{"n0", "n1", "n2", "n3", "n4", "n5"}
	portOfName := func(n string) int { return 20000 + int(n[1]-'0') }

	newLogin := func(user string) *sess {
		c := env.newClient(user, 1)
		resp, err := c.login("")
		if err != nil || mstr(resp, "error") != "" {
			w.Fail("login: %v %v", err, resp)
		}
		id := mstr(resp, "run_id")
		w.Check("C12.runid-format")
		if !runIDRe.MatchString(id) {
			viol("runid", "bad-format", "fresh login got run id %q (want 16 hex digits)", id)
		}
		for _, o := range runIDs {
			if o == id {
				viol("runid", "duplicate", "run id %q issued twice", id)
			}
		}
		runIDs = append(runIDs, id)
		s := &sess{c: c, runID: id, live: true}
		sessions = append(sessions, s)
		hist("login %s -> %s", c.Name, id)
		return s
	}
	liveSessions := func() []*sess {
		var out []*sess
		for _, s := range sessions {
			if s.live {
				out = append(out, s)
			}
		}
		return out
	}
	syncCtl := func(c *lcClient) {
		from := len(c.Inbox)
		c.Ping(true, token)
		c.WaitMsg(10*time.Second, func(m RecvMsg) bool { return m.Seq >= from && m.Type == tPong })
	}
	probeOwner := func(name string, when string) {
		s := owner[name]
		if s == nil {
			return
		}
		w.Check("C12.incumbent-serves")
		res := env.probeTCP(fmt.Sprintf("10.0.0.1:%d", portOfName(name)), 10*time.Second)
		// a work connection offered by a previous incarnation of the client (same run id) may have been pooled into
		// the new session and die with that incarnation; such a connection costs at most one user connection each
		for try := 0; try < 4 && res.ServedBy == "" && !res.Refused; try++ {
			res = env.probeTCP(fmt.Sprintf("10.0.0.1:%d", portOfName(name)), 10*time.Second)
		}
		// a work connection is attributed to a session by its run id alone, so a late connection opened by the
		// same client's previous transport identity legitimately serves for the new session
		ok := false
		for _, c := range env.clients {
			if c.RunID == s.runID && res.ServedBy == c.Name+"/"+name {
				ok = true
			}
		}
		if !ok {
			viol("ownership", "incumbent-not-serving-"+when, "%s: proxy %s is owned by session %s but a user connection was served by %q (%v); history: %v", when, name, s.c.Name, res.ServedBy, res.Err, history)
		}
	}

	nsess := w.KnobPick("nsessions", 2, 2, 3)
	for i := 0; i < nsess; i++ {
		newLogin(fmt.Sprintf("u%d", i))
	}
	nops := w.KnobPick("nops", 8, 16, 30)
	for i := 0; i < nops; i++ {
		ls := liveSessions()
		if len(ls) == 0 {
			newLogin("ux")
			continue
		}
		s := ls[r.Intn(len(ls))]
		if s.c.IsClosed() {
			viol("ownership", "session-closed-unexpectedly", "session %s was closed by the server; history: %v", s.c.Name, history)
			return
		}
		switch k := r.Intn(20); {
		case k < 7 && len(ls) >= 2 && r.Intn(3) == 0: // two sessions ask for the same free name at the same moment
			name := names[r.Intn(len(names))]
			if owner[name] != nil {
				continue
			}
			s2 := ls[r.Intn(len(ls))]
			for s2 == s {
				s2 = ls[r.Intn(len(ls))]
			}
			w.Probe("sessions.race_for_free_name")
			hist("race %s.reg(%s,port=%d) || %s.reg(%s,port=%d)", s.c.Name, name, portOfName(name), s2.c.Name, name, portOfName(name)+10)
			var wg sync.WaitGroup
			var r1, r2 M
			var g1, g2 bool
			wg.Add(2)
			go func() {
				defer wg.Done()
				r1, g1 = s.c.register(M{"proxy_name": name, "proxy_type": "tcp", "remote_port": portOfName(name)})
			}()
			go func() {
				defer wg.Done()
				r2, g2 = s2.c.register(M{"proxy_name": name, "proxy_type": "tcp", "remote_port": portOfName(name) + 10})
			}()
			wg.Wait()
			hist("  -> %s %s", jsonStr(r1), jsonStr(r2))
			w.Check("C12.name-unique")
			if !g1 || !g2 {
				viol("ownership", "no-reply", "no reply to one of two concurrent registrations of %s; history: %v", name, history)
				return
			}
			ok1, ok2 := mstr(r1, "error") == "", mstr(r2, "error") == ""
			switch {
			case ok1 && ok2:
				viol("ownership", "duplicate-name-accepted", "two concurrent registrations of the free name %s were both accepted; history: %v", name, history)
				return
			case !ok1 && !ok2:
				viol("ownership", "free-name-refused", "two concurrent registrations of the free name %s were both refused; history: %v", name, history)
				continue
			}
			win, lose, lport := s, s2, portOfName(name)+10
			if ok2 {
				win, lose, lport = s2, s, portOfName(name)
			}
			// the refused client retries, a third party tries too: the name has exactly one owner as long as it lives
			for a := 0; a < 1+r.Intn(3); a++ {
				who := lose
				if a > 0 && r.Intn(2) == 0 {
					who = ls[r.Intn(len(ls))]
				}
				if who == win {
					continue
				}
				rr, got := who.c.register(M{"proxy_name": name, "proxy_type": "tcp", "remote_port": lport})
				hist("%s.reg(%s,port=%d) again -> %s", who.c.Name, name, lport, jsonStr(rr))
				if got && mstr(rr, "error") == "" {
					viol("ownership", "duplicate-name-accepted", "proxy name %s is live in session %s (won a race for it) and was accepted again for session %s; history: %v", name, win.c.Name, who.c.Name, history)
					return
				}
			}
			if ok2 {
				// (the rest of this world expects every name on its home port)
				win.c.CloseProxy(name)
				syncCtl(win.c)
			} else {
				owner[name] = win
				probeOwner(name, "after-race-for-name")
			}
		case k < 7: // register
			name := names[r.Intn(len(names))]
			port := portOfName(name)
			attempts := 1
			if o := owner[name]; o != nil && r.Intn(3) > 0 {
				// a taken name asked for with another, free port: only the name can refuse it; a refused client retries
				port += 10
				attempts = 1 + r.Intn(3)
			}
			hist("%s.reg(%s,port=%d) x%d", s.c.Name, name, port, attempts)
			var resp M
			var got bool
			for a := 0; a < attempts; a++ {
				resp, got = s.c.register(M{"proxy_name": name, "proxy_type": "tcp", "remote_port": port})
				if !got || mstr(resp, "error") == "" {
					break
				}
			}
			w.Check("C12.name-unique")
			if !got {
				viol("ownership", "no-reply", "no reply to registration of %s; history: %v", name, history)
				return
			}
			ok := mstr(resp, "error") == ""
			hist("  -> %s", jsonStr(resp))
			if o := owner[name]; o != nil {
				if ok {
					viol("ownership", "duplicate-name-accepted", "proxy name %s is live in session %s and was accepted again for session %s; history: %v", name, o.c.Name, s.c.Name, history)
					return
				}
				probeOwner(name, "after-refused-duplicate")
			} else {
				if !ok {
					viol("ownership", "free-name-refused", "proxy name %s is free but registration was refused: %s; history: %v", name, mstr(resp, "error"), history)
				} else {
					owner[name] = s
				}
			}
		case k < 10: // close: own, foreign or unknown name
			name := names[r.Intn(len(names))]
			hist("%s.close(%s)", s.c.Name, name)
			s.c.CloseProxy(name)
			syncCtl(s.c)
			if owner[name] == s {
				delete(owner, name)
				w.Check("C12.close-own")
				// port must be free now: nothing listens
				if env.frpsTCPPorts()[portOfName(name)] {
					viol("ownership", "own-close-ineffective", "session %s closed its proxy %s but its port is still bound; history: %v", s.c.Name, name, history)
				}
			} else if owner[name] != nil {
				w.Probe("sessions.foreign_close")
				probeOwner(name, "after-foreign-close")
			}
		case k < 13: // probe
			var ns []string
			for n := range owner {
				ns = append(ns, n)
			}
			if len(ns) == 0 {
				continue
			}
			sort.Strings(ns)
			probeOwner(ns[r.Intn(len(ns))], "steady")
		case k < 17: // re-login with the same run id while the old connection is still open
			var mine []string
			for n, o := range owner {
				if o == s {
					mine = append(mine, n)
				}
			}
			sort.Strings(mine)
			nc := s.c.fresh()
			hist("%s relogin as %s with run id %s (old proxies %v)", s.c.Name, nc.Name, s.runID, mine)
			resp, err := nc.login(s.runID)
			if err != nil || mstr(resp, "error") != "" {
				viol("relogin", "relogin-refused", "re-login with own run id failed: %v %v; history: %v", err, resp, history)
				return
			}
			w.Check("C12.relogin-old-gone-at-ack")
			w.Probe("sessions.relogin")
			if got := mstr(resp, "run_id"); got != s.runID {
				viol("relogin", "runid-changed", "re-login with run id %s was answered with run id %s", s.runID, got)
			}
			// at the acknowledgement the previous session's proxies must be gone
			bound := env.frpsTCPPorts()
			for _, n := range mine {
				if bound[portOfName(n)] {
					viol("relogin", "old-proxy-alive-at-ack", "re-login acknowledged while proxy %s of the previous session is still bound; history: %v", n, history)
				}
				delete(owner, n)
			}
			old := s.c
			s.c = nc
			// own earlier registrations never block the new ones
			for _, n := range mine {
				rr, got := nc.register(M{"proxy_name": n, "proxy_type": "tcp", "remote_port": portOfName(n)})
				if !got || mstr(rr, "error") != "" {
					viol("relogin", "own-name-blocked-after-relogin", "after re-login the session's own earlier proxy %s could not be registered: %v; history: %v", n, rr, history)
				} else {
					owner[n] = s
				}
			}
			// the old control connection is closed by the server
			if !old.WaitClosed(10 * time.Second) {
				viol("relogin", "old-session-not-closed", "old control connection still open 10 s after re-login; history: %v", history)
			}
			// late cleanup of the old session must not remove the new one
			w.Sleep(time.Duration(r.Range(0, 3000)) * time.Millisecond)
			if nc.IsClosed() {
				viol("relogin", "new-session-removed-by-late-cleanup", "the new session was closed after the old one's teardown; history: %v", history)
				return
			}
			for _, n := range mine {
				if owner[n] == s {
					probeOwner(n, "after-relogin")
				}
			}
			// work-connection requests for the run id go to the newest session only: a work connection
			// offered with the run id must be started for the new session's proxies only (checked by probeOwner above)
		case k < 18 && k >= 17: // several re-logins at once
			var mine []string
			for n, o := range owner {
				if o == s {
					mine = append(mine, n)
				}
			}
			sort.Strings(mine)
			k := r.Range(2, 3)
			// with the slow plugin: the old session is busy in a registration when the re-logins arrive one after
			// the other, each while its predecessor is still waiting for the old session to go
			stuck := stuckFor > 0 && r.Intn(3) > 0
			hist("%s: %d concurrent re-logins with run id %s (old session stuck in a registration: %v)", s.c.Name, k, s.runID, stuck)
			w.Probe("sessions.concurrent_relogin")
			stagger := make([]time.Duration, k)
			if stuck {
				w.Probe("sessions.relogin_chain_behind_stuck_session")
				s.c.Send(tNewProxy, M{"proxy_name": fmt.Sprintf("slow-%d", i), "proxy_type": "tcp", "remote_port": 20019})
				time.Sleep(time.Duration(r.Range(100, 400)) * time.Millisecond)
				for j := 1; j < k; j++ {
					stagger[j] = stagger[j-1] + time.Duration(r.Range(50, 600))*time.Millisecond
				}
			}
			cands := make([]*lcClient, k)
			resps := make([]M, k)
			errs := make([]error, k)
			aliveAtAck := make([]string, k)
			var wg sync.WaitGroup
			for j := 0; j < k; j++ {
				cands[j] = s.c.fresh()
				wg.Add(1)
				go func(j int) {
					defer wg.Done()
					time.Sleep(stagger[j])
					resps[j], errs[j] = cands[j].login(s.runID)
					if errs[j] == nil && mstr(resps[j], "error") == "" {
						// acknowledged: at this very step the previous session's proxies must be gone
						bound := env.frpsTCPPorts()
						for _, n := range mine {
							if bound[portOfName(n)] {
								aliveAtAck[j] = n
							}
						}
					}
				}(j)
			}
			wg.Wait()
			w.Check("C12.relogin-old-gone-at-ack")
			for j, n := range aliveAtAck {
				if n != "" {
					viol("relogin", "old-proxy-alive-at-ack", "re-login %d of %d with one run id was acknowledged while proxy %s of the previous session is still bound (old session stuck in a registration: %v); history: %v", j+1, k, n, stuck, history)
				}
			}
			for _, n := range mine {
				delete(owner, n)
			}
			old := s.c
			w.Sleep(3 * time.Second)
			w.Check("C12.concurrent-relogin-one-survivor")
			var open []*lcClient
			for j, c := range cands {
				if errs[j] == nil && mstr(resps[j], "error") == "" && !c.IsClosed() {
					open = append(open, c)
				}
			}
			if !old.IsClosed() {
				viol("relogin", "old-session-not-closed", "old control connection still open after concurrent re-logins; history: %v", history)
			}
			if len(open) != 1 {
				viol("relogin", fmt.Sprintf("concurrent-relogin-%d-survivors", len(open)), "%d concurrent re-logins with one run id left %d open sessions (want exactly 1); history: %v", k, len(open), history)
				if len(open) == 0 {
					s.live = false
					continue
				}
			}
			s.c = open[0]
			// the run id designates the surviving session: it can register and serve
			name := ""
			for _, n := range names {
				if owner[n] == nil {
					name = n
					break
				}
			}
			if name != "" {
				rr, got := s.c.register(M{"proxy_name": name, "proxy_type": "tcp", "remote_port": portOfName(name)})
				if !got || mstr(rr, "error") != "" {
					viol("relogin", "survivor-cannot-register", "surviving session could not register %s: %v; history: %v", name, rr, history)
				} else {
					owner[name] = s
					probeOwner(name, "after-concurrent-relogin")
				}
			}
		case k < 19: // the connection drops while registrations are still in flight
			var free []string
			for _, n := range names {
				if owner[n] == nil {
					free = append(free, n)
				}
			}
			if len(free) == 0 {
				continue
			}
			k := r.Range(1, len(free))
			sent := free[:k]
			hist("%s sends %v and drops at once", s.c.Name, sent)
			w.Probe("sessions.drop_during_registration")
			for _, n := range sent {
				s.c.Send(tNewProxy, M{"proxy_name": n, "proxy_type": "tcp", "remote_port": portOfName(n)})
			}
			if d := r.Intn(4); d > 0 {
				time.Sleep(time.Duration(d) * time.Millisecond)
			}
			s.c.Drop()
			s.live = false
			var held []string
			for n, o := range owner {
				if o == s {
					held = append(held, n)
					delete(owner, n)
				}
			}
			// the end of the session is not acknowledged by any message: give the teardown a bounded time
			if !w.WaitUntil(5*time.Second, 50*time.Millisecond, func() bool {
				b := env.frpsTCPPorts()
				for _, n := range held {
					if b[portOfName(n)] {
						return false
					}
				}
				return true
			}) {
				viol("ownership", "proxies-survive-disconnect", "proxies %v still bound 5 s after their session disconnected; history: %v", held, history)
			}
			// the registrations may still be in flight when the client has gone: the server processes them when they
			// arrive and tears the session down when it reads the end of the stream. Until then a registration of the
			// dead session may legitimately exist for a moment, so the model waits for the server to have let go of the
			// dead client's transport before it reasons about these names again.
			w.WaitUntil(20*time.Second, 50*time.Millisecond, func() bool { return s.c.ServerGone() })
			time.Sleep(300 * time.Millisecond)
			// whatever became of the in-flight registrations, the names are free again shortly after the session ended
			ns := newLogin("ux")
			w.Check("C12.names-free-after-drop-during-registration")
			deadline := w.Net.Now() + 8*time.Second
			for _, n := range sent {
				for {
					rr, got := ns.c.register(M{"proxy_name": n, "proxy_type": "tcp", "remote_port": portOfName(n)})
					if got && mstr(rr, "error") == "" {
						owner[n] = ns
						break
					}
					if w.Net.Now() > deadline {
						viol("ownership", "name-blocked-by-dead-session", "session %s sent NewProxy for %s and dropped; 8 s later the name still cannot be registered: %v; history: %v", s.c.Name, n, rr, history)
						break
					}
					time.Sleep(250 * time.Millisecond)
				}
			}
		default: // disconnect for good, at an arbitrary point
			hist("%s.drop", s.c.Name)
			s.c.Drop()
			s.live = false
			var mine []string
			for n, o := range owner {
				if o == s {
					mine = append(mine, n)
					delete(owner, n)
				}
			}
			// names become free again within a bounded time
			w.Check("C12.names-free-after-disconnect")
			ok := w.WaitUntil(5*time.Second, 50*time.Millisecond, func() bool {
				b := env.frpsTCPPorts()
				for _, n := range mine {
					if b[portOfName(n)] {
						return false
					}
				}
				return true
			})
			if !ok {
				viol("ownership", "proxies-survive-disconnect", "proxies %v still bound 5 s after their session disconnected; history: %v", mine, history)
			}
		}
	}
	w.SetSample(map[string]any{"history": history, "run_ids": runIDs})
	w.Nontrivial()
}
