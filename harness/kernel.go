// Package verifharness hosts the simulated worlds. It is copied into the
// instrumented scratch copy of frp at check time. See /verif/DESIGN.md.
package verifharness

import (
	"bytes"
	"context"
	"encoding/json"
	"fmt"
	"net/http"
	"os"
	"path/filepath"
	"runtime"
	"sort"
	"strconv"
	"strings"
	"sync"
	"time"

	golog "github.com/fatedier/golib/log"

	"github.com/fatedier/frp/client"
	"github.com/fatedier/frp/pkg/config"
	v1 "github.com/fatedier/frp/pkg/config/v1"
	"github.com/fatedier/frp/pkg/config/v1/validation"
	frplog "github.com/fatedier/frp/pkg/util/log"
	"github.com/fatedier/frp/server"

	"verif/sim/simnet"
)

// RunInput is the per-run contract between simrun and the test binary.
type RunInput struct {
	World      string         `json:"world"`
	Property   string         `json:"property"`
	Seed       uint64         `json:"seed"`
	CryptoSeed uint64         `json:"crypto_seed,omitempty"`
	Tier       string         `json:"tier"`
	Faults     bool           `json:"faults"`
	Knobs      map[string]int `json:"knobs,omitempty"` // overrides
	Yield      *YieldInput    `json:"yield,omitempty"`
	KeepLog    bool           `json:"keep_log,omitempty"`
	CertDir    string         `json:"cert_dir,omitempty"`
	Out        string         `json:"out"`
}

type YieldInput struct {
	ParkProb    float64  `json:"park_prob"`
	GoschedProb float64  `json:"gosched_prob"`
	MaxActs     int      `json:"max_acts,omitempty"`
	Explicit    [][2]int `json:"explicit,omitempty"` // [index, action]
	UseExplicit bool     `json:"use_explicit,omitempty"`
}

type Violation struct {
	Property string  `json:"property"`
	Oracle   string  `json:"oracle"`
	Sig      string  `json:"sig"`
	Detail   string  `json:"detail"`
	At       float64 `json:"at"`
}

type Result struct {
	World      string         `json:"world"`
	Seed       uint64         `json:"seed"`
	Verdict    string         `json:"verdict"` // ok | violation | error
	Error      string         `json:"error,omitempty"`
	Violations []Violation    `json:"violations,omitempty"`
	LogHash    string         `json:"log_hash"`
	LogLen     int            `json:"log_len"`
	Steps      int            `json:"steps"`
	SimTime    float64        `json:"sim_time_s"`
	Counters   map[string]int `json:"counters"`
	Probes     map[string]int `json:"probes"`
	Knobs      map[string]int `json:"knobs"`
	Yields     int            `json:"yields"`
	YieldActs  int            `json:"yield_acts"`
	YieldTrace [][3]int       `json:"yield_trace,omitempty"`
	YieldSites int            `json:"yield_sites"`
	YieldPairs int            `json:"yield_pairs"`
	Sample     any            `json:"sample,omitempty"`
	Checks     map[string]int `json:"checks"` // oracle evaluations by name
	Log        []string       `json:"log,omitempty"`
	FrpLog     []string       `json:"frp_log,omitempty"`
	Nontrivial bool           `json:"nontrivial"`
}

// World is the per-run context.
type World struct {
	In   *RunInput
	Net  *simnet.Net
	R    *simnet.Rand // workload stream
	mu   sync.Mutex
	res  *Result
	sink *logSink

	Frps    *simnet.Node
	Backend *simnet.Node
	UserN   *simnet.Node
	PlugN   *simnet.Node

	ctx    context.Context
	cancel context.CancelFunc
}

var worlds = map[string]func(w *World){}

// RegisterWorld is called from init functions of world files.
func RegisterWorld(name string, f func(w *World)) { worlds[name] = f }

// Knob returns the named knob: the override if given, else a value in [lo,hi]
// drawn from a stream private to the knob name.
func (w *World) Knob(name string, lo, hi int) int {
	w.mu.Lock()
	defer w.mu.Unlock()
	if v, ok := w.res.Knobs[name]; ok {
		return v
	}
	v, ok := w.In.Knobs[name]
	if ok && (v < lo || v > hi) {
		ok = false
	}
	if !ok {
		v = simnet.NewRand(w.In.Seed, "knob:"+name).Range(lo, hi)
	}
	w.res.Knobs[name] = v
	return v
}

// KnobPick draws from an explicit list of values.
func (w *World) KnobPick(name string, vals ...int) int {
	w.mu.Lock()
	defer w.mu.Unlock()
	if v, ok := w.res.Knobs[name]; ok {
		return v
	}
	drawn := vals[simnet.NewRand(w.In.Seed, "knob:"+name).Intn(len(vals))]
	v, ok := w.In.Knobs[name]
	if ok {
		// an override (minimiser) outside the knob's domain is ignored, so every replayed world stays valid
		valid := false
		for _, x := range vals {
			if x == v {
				valid = true
			}
		}
		if !valid {
			ok = false
		}
	}
	if !ok {
		v = drawn
	}
	w.res.Knobs[name] = v
	return v
}

// KnobBool is a 0/1 knob with probability pct/100 of being 1.
func (w *World) KnobBool(name string, pct int) bool {
	w.mu.Lock()
	defer w.mu.Unlock()
	if v, ok := w.res.Knobs[name]; ok {
		return v != 0
	}
	v, ok := w.In.Knobs[name]
	if !ok {
		v = 0
		if simnet.NewRand(w.In.Seed, "knob:"+name).Intn(100) < pct {
			v = 1
		}
	}
	w.res.Knobs[name] = v
	return v != 0
}

// Violate records a property violation.
func (w *World) Violate(prop, oracle, sig, format string, a ...any) {
	w.mu.Lock()
	defer w.mu.Unlock()
	d := fmt.Sprintf(format, a...)
	if len(d) > 2000 {
		d = d[:2000] + "..."
	}
	for _, v := range w.res.Violations {
		if v.Property == prop && v.Oracle == oracle && v.Sig == sig {
			return
		}
	}
	w.res.Violations = append(w.res.Violations, Violation{prop, oracle, sig, d, w.Net.Now().Seconds()})
	// written through at once: if the process dies later in the run (a crash of frp is a finding of its own), what
	// the oracles had already established must not be lost with it
	if w.In.Out != "" {
		snap := *w.res
		snap.Verdict = "violation"
		if b, err := json.Marshal(&snap); err == nil {
			os.WriteFile(w.In.Out, b, 0o644)
		}
	}
	if os.Getenv("VERIF_DUMP_ON_VIOLATION") != "" && len(w.res.Violations) == 1 {
		buf := make([]byte, 16<<20)
		os.Stderr.Write(buf[:runtime.Stack(buf, true)])
	}
	w.Net.Logf("VIOLATION %s %s %s", prop, oracle, sig)
}

// Check counts one oracle evaluation.
func (w *World) Check(name string) {
	w.mu.Lock()
	w.res.Checks[name]++
	w.mu.Unlock()
}

// Probe bumps a reach probe.
func (w *World) Probe(name string) {
	w.mu.Lock()
	w.res.Probes[name]++
	w.mu.Unlock()
}

func (w *World) Nontrivial() {
	w.mu.Lock()
	w.res.Nontrivial = true
	w.mu.Unlock()
}

func (w *World) SetSample(s any) {
	w.mu.Lock()
	w.res.Sample = s
	w.mu.Unlock()
}

// Fail aborts the run as a harness error (never a violation).
func (w *World) Fail(format string, a ...any) {
	w.mu.Lock()
	if w.res.Error == "" {
		w.res.Error = fmt.Sprintf(format, a...)
	}
	w.mu.Unlock()
	panic(harnessAbort{})
}

type harnessAbort struct{}

// newSubRand derives a private stream for a helper goroutine.
func newSubRand(w *World, name string) *simnet.Rand { return simnet.NewRand(w.In.Seed, name) }

// ScratchDir returns a directory private to this run, next to its result file. (os.MkdirTemp draws its name from
// the runtime's seeded random stream: two processes replaying the same seed at the same time would collide, retry,
// and shift that stream - the one source of divergence the determinism self-test found after the ssh gateway was added.)
func (w *World) ScratchDir(name string) string {
	base := filepath.Dir(w.In.Out)
	if w.In.Out == "" {
		base = os.TempDir()
	}
	d := filepath.Join(base, "scratch-"+strings.TrimSuffix(filepath.Base(w.In.Out), ".json")+"-"+name)
	os.MkdirAll(d, 0o755)
	return d
}

// Sleep advances simulated time.
func (w *World) Sleep(d time.Duration) { time.Sleep(d) }

// WaitUntil polls cond every step until it holds or timeout elapses.
func (w *World) WaitUntil(timeout, step time.Duration, cond func() bool) bool {
	deadline := time.Now().Add(timeout)
	for {
		if cond() {
			return true
		}
		if !time.Now().Before(deadline) {
			return false
		}
		time.Sleep(step)
	}
}

// ---------------------------------------------------------------- frp log sink

type logSink struct {
	mu     sync.Mutex
	lines  []string
	keep   bool
	probes map[string]string // probe name -> substring
	w      *World
}

func (s *logSink) Write(p []byte) (int, error) {
	line := string(bytes.TrimRight(p, "\n"))
	s.mu.Lock()
	if s.keep || len(s.lines) < 4000 {
		s.lines = append(s.lines, fmt.Sprintf("%10.4f %s", s.w.Net.Now().Seconds(), stripTime(line)))
	}
	s.mu.Unlock()
	for name, sub := range logProbes {
		if strings.Contains(line, sub) {
			s.w.Probe(name)
		}
	}
	return len(p), nil
}

func stripTime(l string) string {
	// golib log lines start with "2000-01-01 00:00:00.000 "
	if len(l) > 24 && l[4] == '-' && l[7] == '-' {
		return l[24:]
	}
	return l
}

// logProbes maps reach-probe names to substrings of frp's own log lines.
var logProbes = map[string]string{
	"frps.pool_full":           "work connection pool is full",
	"frps.workconn_timeout":    "timeout trying to get work connection",
	"frps.heartbeat_timeout":   "heartbeat timeout",
	"frps.replaced":            "Replaced by client",
	"frps.get_workconn_pool":   "get work connection from pool",
	"frps.port_reserved":       "port reserved",
	"frps.login":               "client login info",
	"frpc.login_ok":            "login to server success",
	"frpc.reconnect":           "try to connect to server",
	"frpc.proxy_started":       "start proxy success",
	"frpc.proxy_start_err":     "start error",
	"frpc.heartbeat_timeout":   "heartbeat timeout",
	"frps.invalid_workconn":    "invalid NewWorkConn",
	"frps.invalid_ping":        "received invalid ping",
	"frps.panic_recovered":     "panic error",
	"frps.no_ctl_for_runid":    "No client control found",
	"frps.http_404":            "not found",
	"frps.visitor_err":         "register visitor conn error",
	"frps.newproxy_err":        "new proxy",
	"frps.ctl_exit":            "client exit success",
	"frps.workconn_registered": "new work connection registered",
}

func (w *World) FrpLogContains(sub string) bool {
	w.sink.mu.Lock()
	defer w.sink.mu.Unlock()
	for _, l := range w.sink.lines {
		if strings.Contains(l, sub) {
			return true
		}
	}
	return false
}

// ---------------------------------------------------------------- running frp

// Frps is a running server instance.
type Frps struct {
	Svc    *server.Service
	Cfg    *v1.ServerConfig
	Node   *simnet.Node
	cancel context.CancelFunc
	done   chan struct{}
}

// StartFrps builds a server config from documented JSON field names and runs it.
func (w *World) StartFrps(node *simnet.Node, cfgJSON map[string]any) (*Frps, error) {
	// the dashboard switches the server's in-memory statistics on: every proxy, connection and byte is then
	// accounted in tables shared by all sessions (C16 batches; the services world always has it)
	if _, has := cfgJSON["webServer"]; !has && w.In.Property == "C16" && w.KnobBool("frps_dashboard", 50) {
		cfgJSON["webServer"] = map[string]any{"addr": "10.0.0.1", "port": 7500}
		w.Probe("frps.dashboard_statistics")
	}
	b, _ := json.Marshal(cfgJSON)
	cfg := &v1.ServerConfig{}
	if err := config.LoadConfigure(b, cfg, true); err != nil {
		return nil, fmt.Errorf("load server config: %w", err)
	}
	cfg.Complete()
	if _, err := validation.ValidateServerConfig(cfg); err != nil {
		return nil, fmt.Errorf("validate server config: %w", err)
	}
	restore := node.Enter()
	defer restore()
	svc, err := server.NewService(cfg)
	if err != nil {
		return nil, err
	}
	ctx, cancel := context.WithCancel(context.Background())
	f := &Frps{Svc: svc, Cfg: cfg, Node: node, cancel: cancel, done: make(chan struct{})}
	node.Go(func() {
		svc.Run(ctx)
		close(f.done)
	})
	return f, nil
}

// Stop shuts the server down gracefully (context cancel).
func (f *Frps) Stop() {
	f.cancel()
}

// Frpc is a running client instance.
type Frpc struct {
	Svc    *client.Service
	Common *v1.ClientCommonConfig
	Node   *simnet.Node
	cancel context.CancelFunc
	Done   chan struct{}
	RunErr error
}

// LoadClientCfg parses a full client config (common + proxies + visitors) from JSON.
func LoadClientCfg(cfgJSON map[string]any) (*v1.ClientCommonConfig, []v1.ProxyConfigurer, []v1.VisitorConfigurer, error) {
	b, _ := json.Marshal(cfgJSON)
	all := v1.ClientConfig{}
	if err := config.LoadConfigure(b, &all, true); err != nil {
		return nil, nil, nil, fmt.Errorf("load client config: %w", err)
	}
	common := &all.ClientCommonConfig
	var pcs []v1.ProxyConfigurer
	var vcs []v1.VisitorConfigurer
	for _, c := range all.Proxies {
		pcs = append(pcs, c.ProxyConfigurer)
	}
	for _, c := range all.Visitors {
		vcs = append(vcs, c.VisitorConfigurer)
	}
	common.Complete()
	for _, c := range pcs {
		c.Complete(common.User)
	}
	for _, c := range vcs {
		c.Complete(common)
	}
	if _, err := validation.ValidateAllClientConfig(common, pcs, vcs); err != nil {
		return nil, nil, nil, fmt.Errorf("validate client config: %w", err)
	}
	return common, pcs, vcs, nil
}

// StartFrpc runs a client.
func (w *World) StartFrpc(node *simnet.Node, cfgJSON map[string]any) (*Frpc, error) {
	common, pcs, vcs, err := LoadClientCfg(cfgJSON)
	if err != nil {
		return nil, err
	}
	restore := node.Enter()
	defer restore()
	svc, err := client.NewService(client.ServiceOptions{Common: common, ProxyCfgs: pcs, VisitorCfgs: vcs})
	if err != nil {
		return nil, err
	}
	ctx, cancel := context.WithCancel(context.Background())
	c := &Frpc{Svc: svc, Common: common, Node: node, cancel: cancel, Done: make(chan struct{})}
	node.Go(func() {
		c.RunErr = svc.Run(ctx)
		close(c.Done)
	})
	return c, nil
}

func (c *Frpc) Stop() { c.cancel() }

// ---------------------------------------------------------------- run

func sortedKeys[M ~map[string]V, V any](m M) []string {
	var ks []string
	for k := range m {
		ks = append(ks, k)
	}
	sort.Strings(ks)
	return ks
}

// runWorld executes one world inside the bubble and returns the result.
func runWorld(in *RunInput) *Result {
	res := &Result{World: in.World, Seed: in.Seed, Verdict: "ok",
		Counters: map[string]int{}, Probes: map[string]int{}, Knobs: map[string]int{}, Checks: map[string]int{}}
	f, ok := worlds[in.World]
	if !ok {
		res.Verdict, res.Error = "error", "unknown world "+in.World
		return res
	}
	w := &World{In: in, res: res, R: simnet.NewRand(in.Seed, "workload")}

	// network knobs (swarm style)
	kr := func(name string, lo, hi int) int { return w.Knob("net."+name, lo, hi) }
	mss := w.KnobPick("net.mss", 1, 7, 64, 536, 1400, 1400, 1400, 9000, 65536)
	if in.Tier == "quick" && mss < 64 && w.Knob("net.tiny_ok", 0, 3) != 0 {
		mss = 1400
	}
	cfg := simnet.Config{
		MSS:         mss,
		TinyProb:    float64(w.KnobPick("net.tiny_pct", 0, 0, 1, 5)) / 100,
		Window:      w.KnobPick("net.window", 4096, 65536, 262144, 1<<20, 4<<20),
		BaseLatency: time.Duration(w.KnobPick("net.latency_ms", 0, 1, 5, 20, 80)) * time.Millisecond,
		Jitter:      time.Duration(w.KnobPick("net.jitter_ms", 0, 0, 1, 10)) * time.Millisecond,
		Batch:       float64(w.KnobPick("net.batch_pct", 0, 50, 90, 99)) / 100,
		MaxSteps:    kr("max_steps", 3_000_000, 3_000_000),
	}
	if in.Faults {
		cfg.SpikeProb = float64(w.KnobPick("net.spike_pm", 0, 0, 1, 5)) / 1000
		if mss < 64 {
			// a spike is drawn per segment and delays everything behind it: with byte-sized segments a few per mille mean
			// a path that carries less than 100 bytes per second, on which not even a login completes within its deadline
			cfg.SpikeProb = 0
		}
	}
	if w.Knob("net.const_latency", 0, 1) == 1 {
		cfg.ConstLatency = true
	}
	w.Net = simnet.New(in.Seed, cfg)
	w.Net.KeepLog = in.KeepLog
	w.Frps = w.Net.NewNode("frps", "10.0.0.1")
	w.Backend = w.Net.NewNode("backend", "10.0.2.1")
	w.UserN = w.Net.NewNode("user", "10.0.3.1")
	w.PlugN = w.Net.NewNode("plugin", "10.0.4.1")
	w.ctx, w.cancel = context.WithCancel(context.Background())

	// every plain http.Client in frp dials through the simulated network
	if tr, ok := http.DefaultTransport.(*http.Transport); ok {
		tr.DialContext = simnet.DialContext
		tr.Proxy = nil
	}

	// debugging aid: goroutine dump at a simulated instant (seconds)
	if at, err := strconv.ParseFloat(os.Getenv("VERIF_DUMP_AT"), 64); err == nil && at > 0 {
		go func() {
			time.Sleep(time.Duration(at * float64(time.Second)))
			buf := make([]byte, 16<<20)
			os.Stderr.Write(buf[:runtime.Stack(buf, true)])
		}()
	}
	// frp's logger -> memory
	w.sink = &logSink{w: w, keep: in.KeepLog}
	level := golog.DebugLevel
	if w.KnobPick("frp.loglevel", 0, 0, 1) == 1 {
		level = golog.TraceLevel
	}
	frplog.Logger = frplog.Logger.WithOptions(golog.WithOutput(w.sink), golog.WithLevel(level))

	if in.Yield != nil {
		p := simnet.YieldPolicy{ParkProb: in.Yield.ParkProb, GoschedProb: in.Yield.GoschedProb, MaxParks: in.Yield.MaxActs}
		if in.Yield.UseExplicit {
			p.Explicit = map[int]byte{}
			for _, e := range in.Yield.Explicit {
				p.Explicit[e[0]] = byte(e[1])
			}
		}
		w.Net.EnableYields(in.Seed, p)
	}

	go func() {
		defer w.Net.Finish()
		defer func() {
			if r := recover(); r != nil {
				if _, ok := r.(harnessAbort); ok {
					return
				}
				buf := make([]byte, 16384)
				buf = buf[:runtime.Stack(buf, false)]
				w.mu.Lock()
				if res.Error == "" {
					res.Error = fmt.Sprintf("harness panic: %v\n%s", r, buf)
				}
				w.mu.Unlock()
			}
		}()
		f(w)
	}()
	err := w.Net.Run()
	simnet.DisableYields()
	w.mu.Lock()
	defer w.mu.Unlock()
	if err != nil && res.Error == "" {
		res.Error = err.Error()
	}
	res.LogHash, res.LogLen = w.Net.LogHash()
	res.Steps = w.Net.Steps
	res.SimTime = w.Net.Now().Seconds()
	for k, v := range w.Net.Counters {
		res.Counters[k] = v
	}
	res.Yields, res.YieldActs = simnet.YieldStats()
	res.YieldTrace = simnet.YieldTrace
	res.YieldSites = len(simnet.YieldSites)
	res.YieldPairs = len(simnet.YieldPairs)
	if len(res.Violations) > 0 {
		res.Verdict = "violation"
	} else if res.Error != "" {
		res.Verdict = "error"
	}
	if in.KeepLog || res.Verdict != "ok" {
		res.Log = w.Net.LogLines
		w.sink.mu.Lock()
		res.FrpLog = w.sink.lines
		if len(res.FrpLog) > 3000 {
			res.FrpLog = res.FrpLog[len(res.FrpLog)-3000:]
		}
		w.sink.mu.Unlock()
	}
	return res
}

func writeResult(in *RunInput, res *Result) {
	b, _ := json.Marshal(res)
	if in.Out == "" {
		os.Stdout.Write(append(b, '\n'))
		return
	}
	os.WriteFile(in.Out, b, 0o644)
}

func sortedInts(m map[int]bool) []int {
	var ks []int
	for k := range m {
		ks = append(ks, k)
	}
	sort.Ints(ks)
	return ks
}
