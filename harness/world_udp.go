package verifharness

import (
	"bytes"
	"encoding/binary"
	"fmt"
	"net"
	"strings"
	"sync"
	"sync/atomic"
	"time"

	"verif/sim/simnet"
)

// World "udp" (C03): udp and sudp tunnels preserve datagram payloads, boundaries
// and reply addressing.

func init() { RegisterWorld("udp", worldUDP) }

func worldUDP(w *World) {
	token := "udp-token"
	r := w.R
	viol := func(oracle, sig, f string, a ...any) { w.Violate("C03", oracle, sig, f, a...) }
	tcpMux := w.KnobBool("tcp_mux", 60)
	sudp := w.KnobBool("sudp", 35)
	enc, comp := w.KnobBool("enc", 40), w.KnobBool("comp", 40)
	pktSize := w.KnobPick("udp_packet_size", 1500, 1500, 512, 4000, 7000)
	scfg := map[string]any{
		"bindAddr": "10.0.0.1", "bindPort": 7000, "udpPacketSize": pktSize,
		"auth":       map[string]any{"token": token},
		"transport":  map[string]any{"tcpMux": tcpMux},
		"allowPorts": []map[string]any{{"start": 20100, "end": 20109}},
	}
	if _, err := w.StartFrps(w.Frps, scfg); err != nil {
		w.Fail("frps: %v", err)
	}
	tr := map[string]any{"useEncryption": enc, "useCompression": comp}
	var px map[string]any
	public := "10.0.0.1:20100"
	if sudp {
		px = map[string]any{"name": "u", "type": "sudp", "localIP": "127.0.0.1", "localPort": 9200, "secretKey": "sk", "transport": tr}
		public = "10.0.1.2:6100"
	} else {
		px = map[string]any{"name": "u", "type": "udp", "localIP": "127.0.0.1", "localPort": 9200, "remotePort": 20100, "transport": tr}
	}
	tlsOn := w.KnobBool("tls", 50)
	ctr := map[string]any{"tcpMux": tcpMux, "connectServerLocalIP": "10.0.1.1", "tls": map[string]any{"enable": tlsOn}, "poolCount": w.KnobPick("pool", 0, 1, 2)}
	c1 := w.Net.NewNode("frpc1", "10.0.1.1")
	if _, err := w.StartFrpc(c1, map[string]any{"serverAddr": "10.0.0.1", "serverPort": 7000, "loginFailExit": false, "udpPacketSize": pktSize,
		"auth": map[string]any{"token": token}, "transport": ctr, "proxies": []map[string]any{px}}); err != nil {
		w.Fail("frpc: %v", err)
	}
	if sudp {
		ctr2 := map[string]any{}
		for k, v := range ctr {
			ctr2[k] = v
		}
		ctr2["connectServerLocalIP"] = "10.0.1.2"
		c2 := w.Net.NewNode("frpc2", "10.0.1.2")
		if _, err := w.StartFrpc(c2, map[string]any{"serverAddr": "10.0.0.1", "serverPort": 7000, "loginFailExit": false, "udpPacketSize": pktSize,
			"auth": map[string]any{"token": token}, "transport": ctr2,
			"visitors": []map[string]any{{"name": "uv", "type": "sudp", "serverName": "u", "secretKey": "sk", "bindAddr": "10.0.1.2", "bindPort": 6100,
				"transport": map[string]any{"useEncryption": w.KnobBool("venc", 40), "useCompression": w.KnobBool("vcomp", 40)}}}}); err != nil {
			w.Fail("visitor frpc: %v", err)
		}
	}

	// observation points
	var mu sync.Mutex
	deliveredPublic := map[string]int{} // payloads that really reached the public socket
	backendGot := map[string]int{}
	backendSent := map[string]int{}   // replies the backend sent
	repliesAtFrpc := map[string]int{} // replies that really reached the client's local sockets
	var legFaultsOff atomic.Bool
	userLeg := w.In.Faults
	lossP, dupP, reoP := 0.0, 0.0, 0.0
	if userLeg {
		lossP = float64(w.KnobPick("udp.loss_pct", 0, 5, 20)) / 100
		dupP = float64(w.KnobPick("udp.dup_pct", 0, 5, 20)) / 100
		reoP = float64(w.KnobPick("udp.reorder_pct", 0, 10, 30)) / 100
	}
	fr := simnet.NewRand(w.In.Seed, "udpfault")
	simnet.UDPSendHook = func(from *net.UDPAddr, to string, data []byte) (int, time.Duration, bool) {
		// faults only on the user -> public endpoint leg and the backend -> client leg
		fromUser := strings.HasPrefix(from.IP.String(), "10.0.3.")
		fromBackend := from.Port == 9200
		if !(fromUser || fromBackend) || !userLeg || legFaultsOff.Load() {
			return 1, 0, true
		}
		copies, extra := 1, time.Duration(0)
		if fr.Chance(lossP) {
			copies = 0
			w.Net.CountLocked("fault.udp_loss", 1)
		} else if fr.Chance(dupP) {
			copies = 2
			w.Net.CountLocked("fault.udp_dup", 1)
		}
		if fr.Chance(reoP) {
			extra = time.Duration(fr.Range(1, 60)) * time.Millisecond
			w.Net.CountLocked("fault.udp_reorder", 1)
		}
		return copies, extra, true
	}
	simnet.UDPDeliverHook = func(to string, from *net.UDPAddr, data []byte) {
		mu.Lock()
		defer mu.Unlock()
		if to == public {
			deliveredPublic[string(data)]++
		} else if from.Port == 9200 {
			repliesAtFrpc[string(data)]++
		}
	}

	// a transient failure of the client's DialUDP towards the backend (socket exhaustion, route flap) when a new user
	// appears: that user's datagram may be lost, nothing sent after the fault has cleared may be
	dialFaultAt := time.Duration(-1)
	if w.KnobBool("udp_dial_fault", 30) {
		skip := w.Knob("udp_dial_fault_skip", 0, 3) // let this many dials through first
		left := 1
		w.Net.UDPDialFault = func(nd *simnet.Node, raddr string) error {
			if nd.Name != "frpc1" || !strings.HasSuffix(raddr, ":9200") || left == 0 {
				return nil
			}
			if skip > 0 {
				skip--
				return nil
			}
			left--
			dialFaultAt = w.Net.Now()
			return fmt.Errorf("injected: too many open files")
		}
	}

	// backend: reply = 'R' + reversed payload
	bconn, err := simnet.ListenUDP("udp", &net.UDPAddr{IP: net.ParseIP("127.0.0.1"), Port: 9200})
	if err != nil {
		w.Fail("backend: %v", err)
	}
	mkReply := func(p []byte) []byte {
		out := make([]byte, len(p)+1)
		out[0] = 'R'
		for i := range p {
			out[1+i] = p[len(p)-1-i]
		}
		return out
	}
	w.Backend.Go(func() {
		buf := make([]byte, 65536)
		for {
			n, addr, err := bconn.ReadFromUDP(buf)
			if err != nil {
				return
			}
			p := append([]byte{}, buf[:n]...)
			mu.Lock()
			backendGot[string(p)]++
			mu.Unlock()
			rep := mkReply(p)
			if len(rep) <= pktSize {
				mu.Lock()
				backendSent[string(rep)]++
				mu.Unlock()
				if len(p) >= 4 && binary.BigEndian.Uint32(p[0:4])&0xFFFF0000 == 0xC0E00000 {
					// the long conversation's backend thinks for a while before it answers
					go func() { time.Sleep(400 * time.Millisecond); bconn.WriteToUDP(rep, addr) }()
					continue
				}
				bconn.WriteToUDP(rep, addr)
			}
		}
	})

	ready := w.WaitUntil(60*time.Second, 100*time.Millisecond, func() bool {
		if !w.FrpLogContains("[u] start proxy success") {
			return false
		}
		for _, a := range w.Net.BoundUDP() {
			if a == public {
				return true
			}
		}
		return false
	})
	if !ready {
		viol("startup", "proxy-not-up", "udp proxy not usable 60 s after start")
		return
	}
	time.Sleep(time.Second)

	nusers := w.KnobPick("nusers", 1, 2, 4, 6)
	per := w.KnobPick("per_user", 1, 5, 20, 60)
	type sent struct {
		payload []byte
		at      time.Duration
	}
	type ures struct {
		sent    []sent
		got     map[string]int
		gotAt   map[string]time.Duration
		foreign []string
	}
	results := make([]*ures, nusers)
	maxPayload := pktSize
	if maxPayload > 7000 {
		maxPayload = 7000
	}
	if w.Net.Cfg().MSS < 64 && maxPayload > 600 {
		maxPayload = 600 // byte-sized TCP segments on the work connection: keep the run within the step budget
	}
	var wg sync.WaitGroup
	pubAddr, _ := simnet.ResolveUDPAddr("udp", public)
	for u := 0; u < nusers; u++ {
		u := u
		results[u] = &ures{got: map[string]int{}, gotAt: map[string]time.Duration{}}
		ur := simnet.NewRand(w.In.Seed, fmt.Sprintf("udpuser%d", u))
		conn, err := simnet.ListenUDP("udp", &net.UDPAddr{IP: net.ParseIP(fmt.Sprintf("10.0.3.%d", 40+u))})
		if err != nil {
			w.Fail("user socket: %v", err)
		}
		wg.Add(2)
		stop := make(chan struct{})
		w.UserN.Go(func() { // receiver
			defer wg.Done()
			buf := make([]byte, 65536)
			for {
				conn.SetReadDeadline(time.Now().Add(500 * time.Millisecond))
				n, from, err := conn.ReadFromUDP(buf)
				if err != nil {
					select {
					case <-stop:
						return
					default:
						continue
					}
				}
				p := string(buf[:n])
				mu.Lock()
				results[u].got[p]++
				if _, ok := results[u].gotAt[p]; !ok {
					results[u].gotAt[p] = w.Net.Now()
				}
				if from.String() != public {
					results[u].foreign = append(results[u].foreign, from.String())
				}
				mu.Unlock()
			}
		})
		w.UserN.Go(func() { // sender
			defer wg.Done()
			for i := 0; i < per; i++ {
				n := 12
				switch ur.Intn(6) {
				case 0:
					n = 12
				case 1:
					n = 12 + ur.Intn(100)
				case 5:
					n = maxPayload // exactly the configured packet size (its reply would be too long: the backend stays silent)
				case 2:
					n = maxPayload - 1 // the reply is one byte longer
				default:
					n = 12 + ur.Intn(maxPayload-12)
				}
				p := genStream(ur, n, ur.Intn(4))
				binary.BigEndian.PutUint32(p[0:4], 0xC0DE0000|uint32(u))
				binary.BigEndian.PutUint32(p[4:8], uint32(i))
				mu.Lock()
				results[u].sent = append(results[u].sent, sent{p, w.Net.Now()})
				mu.Unlock()
				conn.WriteToUDP(p, pubAddr)
				time.Sleep(time.Duration(ur.Range(5, 120)) * time.Millisecond)
			}
			time.Sleep(6 * time.Second)
			close(stop)
		})
	}
	// work-connection replacement in the middle of the flow
	pooledMayBeDead := false
	// (the connection in use, not an idle pooled one: the loss of those cannot be noticed before they are used and
	// would be paid for by datagrams sent long after the faults have stopped)
	if w.In.Faults && !tcpMux && w.KnobBool("reset_workconn", 60) {
		w.Net.At(time.Duration(r.Range(200, 1500))*time.Millisecond, "reset-udp-workconn", func() {
			ids := w.Net.PairsMatching(func(link string, id int) bool { return strings.HasPrefix(link, "frpc1>10.0.0.1:7000") })
			for i := len(ids) - 1; i >= 1; i-- {
				if tlsOn || w.Net.Pair(ids[i]).Sent[1] > 0 {
					w.Net.ResetPair(ids[i])
					pooledMayBeDead = pooledMayBeDead || tlsOn
					break
				}
			}
		})
	}
	wg.Wait()

	// recovery phase: the faults have stopped (and a replaced work connection has long been re-established); new
	// users now send a few small datagrams far apart. Whatever happened before, this is light load on a healthy
	// tunnel: every datagram reaches the backend and every reply its user.
	type rsent struct {
		payload []byte
		at      time.Duration
	}
	var recSent [][]rsent
	var recGot []map[string]int
	recCheck := false
	if w.KnobBool("recovery_phase", 70) {
		legFaultsOff.Store(true)
		w.Net.SetSpikeProb(0)
		// the first phase may have offered more than the simulated path carries: wait until the path has drained
		// (no bytes in flight between the clients and the server for two seconds running)
		betweenClientsAndServer := func(link string) bool { return strings.Contains(link, ">10.0.0.1:7000") }
		quiet := 0
		drained := w.WaitUntil(10*time.Minute, 500*time.Millisecond, func() bool {
			if w.Net.PendingBytes(betweenClientsAndServer) == 0 {
				quiet++
			} else {
				quiet = 0
			}
			return quiet >= 4
		})
		if !drained {
			w.Probe("udp.path_never_drained")
		}
		// the last fault may be the loss of the work connection in use while the tunnel is idle. (Idle pooled
		// connections are left alone: without multiplexing nobody can notice their loss before they are used, so the
		// first datagrams afterwards would legitimately pay for it.) The connection in use is the one on which the
		// server has sent something; with TLS every connection carries handshake bytes of the server, so no reset then.
		if drained && w.In.Faults && !tcpMux && !tlsOn && w.KnobBool("idle_reset_workconns", 50) {
			time.Sleep(time.Duration(r.Range(1, 5)) * time.Second)
			ids := w.Net.PairsMatching(func(link string, id int) bool { return strings.HasPrefix(link, "frpc1>10.0.0.1:7000") })
			for _, id := range ids[min(1, len(ids)):] {
				if w.Net.Pair(id).Sent[1] > 0 {
					w.Net.ResetPair(id)
					w.Probe("udp.idle_workconn_reset")
				}
			}
		}
		// (sudp sets up a work connection per visitor connection, on demand: a pooled connection that died unnoticed
		// is found out by the first datagrams)
		recCheck = drained && !(sudp && pooledMayBeDead)
		time.Sleep(time.Duration(r.Range(3, 20)) * time.Second)
		nrec := w.KnobPick("recovery_users", 1, 2, 3)
		recSent = make([][]rsent, nrec)
		recGot = make([]map[string]int, nrec)
		var wg2 sync.WaitGroup
		for u := 0; u < nrec; u++ {
			u := u
			recGot[u] = map[string]int{}
			ur := simnet.NewRand(w.In.Seed, fmt.Sprintf("udprecover%d", u))
			conn, err := simnet.ListenUDP("udp", &net.UDPAddr{IP: net.ParseIP(fmt.Sprintf("10.0.3.%d", 80+u))})
			if err != nil {
				w.Fail("user socket: %v", err)
			}
			stop := make(chan struct{})
			wg2.Add(2)
			w.UserN.Go(func() {
				defer wg2.Done()
				buf := make([]byte, 65536)
				for {
					conn.SetReadDeadline(time.Now().Add(500 * time.Millisecond))
					n, _, err := conn.ReadFromUDP(buf)
					if err != nil {
						select {
						case <-stop:
							return
						default:
							continue
						}
					}
					mu.Lock()
					recGot[u][string(buf[:n])]++
					mu.Unlock()
				}
			})
			w.UserN.Go(func() {
				defer wg2.Done()
				k := ur.Range(2, 6)
				for i := 0; i < k; i++ {
					p := genStream(ur, 12+ur.Intn(150), ur.Intn(4))
					binary.BigEndian.PutUint32(p[0:4], 0xC0DF0000|uint32(u))
					binary.BigEndian.PutUint32(p[4:8], uint32(i))
					mu.Lock()
					recSent[u] = append(recSent[u], rsent{p, w.Net.Now()})
					mu.Unlock()
					conn.WriteToUDP(p, pubAddr)
					time.Sleep(time.Duration(ur.Range(300, 1500)) * time.Millisecond)
				}
				time.Sleep(10 * time.Second)
				close(stop)
			})
		}
		wg2.Wait()
	}

	// a long conversation: one user keeps talking to a backend that takes its time, for longer than any idle timer on
	// the path (a request every few hundred milliseconds for 40-70 s). No fault, light load: every reply arrives.
	var longSent [][]byte
	var longAt []time.Duration
	longGot := map[string]int{}
	if !w.In.Faults && w.KnobBool("long_conversation", 25) {
		w.Probe("udp.long_conversation")
		lr := simnet.NewRand(w.In.Seed, "udplong")
		conn, err := simnet.ListenUDP("udp", &net.UDPAddr{IP: net.ParseIP("10.0.3.90")})
		if err != nil {
			w.Fail("user socket: %v", err)
		}
		stop := make(chan struct{})
		var lwg sync.WaitGroup
		lwg.Add(1)
		w.UserN.Go(func() {
			defer lwg.Done()
			buf := make([]byte, 65536)
			for {
				conn.SetReadDeadline(time.Now().Add(500 * time.Millisecond))
				n, _, err := conn.ReadFromUDP(buf)
				if err != nil {
					select {
					case <-stop:
						return
					default:
						continue
					}
				}
				mu.Lock()
				longGot[string(buf[:n])]++
				mu.Unlock()
			}
		})
		total := time.Duration(lr.Range(40, 70)) * time.Second
		t0 := w.Net.Now()
		for i := 0; w.Net.Now()-t0 < total; i++ {
			p := genStream(lr, 16+lr.Intn(100), lr.Intn(4))
			binary.BigEndian.PutUint32(p[0:4], 0xC0E00000)
			binary.BigEndian.PutUint32(p[4:8], uint32(i))
			mu.Lock()
			longSent = append(longSent, p)
			longAt = append(longAt, w.Net.Now())
			mu.Unlock()
			conn.WriteToUDP(p, pubAddr)
			time.Sleep(time.Duration(lr.Range(200, 450)) * time.Millisecond)
		}
		time.Sleep(8 * time.Second)
		close(stop)
		lwg.Wait()
		conn.Close()
	}

	mu.Lock()
	defer mu.Unlock()
	if len(longSent) > 0 {
		w.Check("C03.long-conversation")
		missing := 0
		first := -1
		for i, p := range longSent {
			if dialFaultAt >= 0 && longAt[i] > dialFaultAt-time.Second && longAt[i] < dialFaultAt+time.Second {
				continue // sent around the injected dial failure: may be lost
			}
			if longGot[string(mkReply(p))] == 0 {
				missing++
				if first < 0 {
					first = i
				}
			}
		}
		if missing > 0 {
			viol("delivery", "reply-lost-in-long-conversation", "one user sent %d small datagrams over %d s to a backend that answers each after 400 ms; %d replies never arrived, the first one to request %d (sudp=%v mux=%v)", len(longSent), len(longSent)/3, missing, first, sudp, tcpMux)
		}
	}
	// 1. what the backend got is what was really delivered to the public endpoint: never corrupted, truncated, merged, split, duplicated
	w.Check("C03.backend-payloads")
	for p, n := range backendGot {
		d := deliveredPublic[p]
		if d == 0 {
			kind := "altered"
			for q := range deliveredPublic {
				if len(q) > len(p) && strings.HasPrefix(q, p) {
					kind = "truncated"
				} else if len(p) > len(q) && strings.HasPrefix(p, q) {
					kind = "merged"
				}
			}
			viol("payload", "backend-got-"+kind+"-datagram", "the backend received a %d-byte datagram that no user sent (%s); packet size %d enc=%v comp=%v sudp=%v", len(p), kind, pktSize, enc, comp, sudp)
		} else if n > d {
			viol("payload", "backend-got-duplicate", "a datagram delivered %d time(s) to the public endpoint reached the backend %d times", d, n)
		}
	}
	// 2. replies: identical payload, to the asking user only
	w.Check("C03.reply-addressing")
	for u, res := range results {
		mine := map[string]bool{}
		for _, s := range res.sent {
			mine[string(mkReply(s.payload))] = true
		}
		for p, n := range res.got {
			if !mine[p] {
				owner := -1
				if len(p) >= 9 {
					tail := []byte(p[len(p)-8:])
					// the reply is the reversed request: the user id is in its last bytes
					id := binary.BigEndian.Uint32([]byte{tail[7], tail[6], tail[5], tail[4]})
					if id&0xFFFF0000 == 0xC0DE0000 {
						owner = int(id & 0xFFFF)
					}
				}
				if owner >= 0 && owner != u && backendSent[p] > 0 {
					viol("reply", "reply-delivered-to-wrong-user", "user %d received the reply to a datagram of user %d", u, owner)
				} else {
					viol("reply", "reply-altered", "user %d received a %d-byte datagram that is the reply to none of its requests", u, len(p))
				}
				continue
			}
			if n > repliesAtFrpc[p] {
				viol("reply", "reply-duplicated", "user %d received a reply %d times; it reached the client %d time(s)", u, n, repliesAtFrpc[p])
			}
		}
		if len(res.foreign) > 0 {
			viol("reply", "reply-from-wrong-address", "user %d received datagrams from %v instead of the public endpoint %s", u, res.foreign[0], public)
		}
	}
	// 3. light load without faults: everything arrives
	// "light load" also means that the offered bytes (about doubled by the message encoding) stay well below what the
	// simulated path between client and server can carry (window / round-trip time): beyond that, drops are overload
	lastPhase1 := time.Duration(0)
	for _, res := range results {
		for _, s := range res.sent {
			if s.at > lastPhase1 {
				lastPhase1 = s.at
			}
		}
	}
	light := !w.In.Faults && nusers*per <= 60
	if cfg := w.Net.Cfg(); light && cfg.BaseLatency+cfg.Jitter > 0 {
		rate := float64(cfg.Window) / (2 * (cfg.BaseLatency + cfg.Jitter).Seconds())
		offered, first, last := 0.0, time.Duration(-1), time.Duration(0)
		for _, res := range results {
			for _, s := range res.sent {
				offered += float64(len(s.payload))
				if first < 0 || s.at < first {
					first = s.at
				}
				if s.at > last {
					last = s.at
				}
			}
		}
		if span := (last - first).Seconds() + 1; 2*offered/span > rate/4 {
			light = false
			w.Probe("udp.not_light_for_this_path")
		}
	}
	if light {
		w.Check("C03.light-load-delivery")
		for u, res := range results {
			for _, s := range res.sent {
				rep := string(mkReply(s.payload))
				if dialFaultAt >= 0 && s.at > dialFaultAt-time.Second && s.at < dialFaultAt+time.Second {
					continue // sent around the injected dial failure: may be lost
				}
				if backendGot[string(s.payload)] == 0 {
					viol("delivery", "datagram-lost-at-light-load", "user %d's %d-byte datagram never reached the backend (packet size %d, enc=%v comp=%v sudp=%v, %d users x %d datagrams)", u, len(s.payload), pktSize, enc, comp, sudp, nusers, per)
					break
				}
				if len(rep) <= pktSize && res.got[rep] == 0 {
					viol("delivery", "reply-lost-at-light-load", "the reply to user %d's %d-byte datagram never arrived", u, len(s.payload))
					break
				}
			}
		}
	}
	// 4. after the faults: light load on a healthy tunnel
	if len(recSent) > 0 && recCheck {
		w.Check("C03.delivery-after-faults")
		for u, ss := range recSent {
			for _, s := range ss {
				if dialFaultAt >= 0 && s.at > dialFaultAt-time.Second && s.at < dialFaultAt+time.Second {
					continue
				}
				if backendGot[string(s.payload)] == 0 {
					viol("recovery", "datagram-lost-after-faults-stopped", "a %d-byte datagram of a new user, sent %v after the last datagram of the first phase on an idle tunnel, never reached the backend (sudp=%v mux=%v faults=%v)", len(s.payload), (s.at - lastPhase1).Round(time.Second), sudp, tcpMux, w.In.Faults)
					break
				}
				if recGot[u][string(mkReply(s.payload))] == 0 {
					viol("recovery", "reply-lost-after-faults-stopped", "the reply to a %d-byte datagram of a new user on an idle tunnel never arrived (sudp=%v mux=%v faults=%v)", len(s.payload), sudp, tcpMux, w.In.Faults)
					break
				}
			}
		}
	}
	w.SetSample(map[string]any{"users": nusers, "per_user": per, "packet_size": pktSize, "sudp": sudp, "enc": enc, "comp": comp, "backend_got": len(backendGot)})
	w.Nontrivial()
	_ = bytes.Equal
}
