package verifharness

import (
	"bufio"
	"encoding/base64"
	"fmt"
	"sort"
	"strings"
	"time"

	"verif/sim/simnet"
)

// World "routes" (C06, C07): vhost routing against a reference most-specific
// matcher, and password protection of routes, under register/close/re-register
// histories and keep-alive reuse. Scripted clients own the routes; each stamps
// its identity on every answer and records what it was asked.

func init() { RegisterWorld("routes", worldRoutes) }

type route struct {
	name     string // proxy name
	kind     string // http | https | tcpmux
	host     string // registered host pattern
	loc      string
	user     string // routeByHTTPUser
	authUser string
	authPwd  string
	owner    *lcClient
}

func (r *route) id() string { return r.owner.Name + "/" + r.name }

// refMatch implements the statement: exact host before wildcard, longer wildcard suffix before shorter,
// catch-all last; within a host the request user's routes before unrestricted ones; longest location prefix.
func refMatch(routes []*route, kind, host, path, user string) *route {
	h := strings.ToLower(host)
	if i := strings.LastIndex(h, ":"); i >= 0 && !strings.Contains(h[i:], "]") {
		h = h[:i]
	}
	h = strings.TrimSuffix(h, ".")
	var patterns []string
	patterns = append(patterns, h)
	labels := strings.Split(h, ".")
	for len(labels) >= 3 {
		labels[0] = "*"
		patterns = append(patterns, strings.Join(labels, "."))
		labels = labels[1:]
	}
	patterns = append(patterns, "*")
	users := []string{user}
	if user != "" {
		users = append(users, "")
	}
	for _, p := range patterns {
		for _, u := range users {
			var best *route
			for _, r := range routes {
				if r.kind != kind || strings.ToLower(r.host) != p || r.user != u {
					continue
				}
				if kind == "http" && !strings.HasPrefix(path, r.loc) {
					continue
				}
				if best == nil || len(r.loc) > len(best.loc) {
					best = r
				}
			}
			if best != nil {
				return best
			}
		}
	}
	return nil
}

func basic(u, p string) string {
	return "Basic " + base64.StdEncoding.EncodeToString([]byte(u+":"+p))
}

func worldRoutes(w *World) {
	token := "routes-token"
	tcpMux := w.KnobBool("tcp_mux", 50)
	share := w.KnobBool("vhost_shares_bind_port", 30)
	vport := 8080
	if share {
		vport = 7000
	}
	scfg := map[string]any{
		"bindAddr": "10.0.0.1", "bindPort": 7000, "vhostHTTPPort": vport, "vhostHTTPSPort": 8443, "tcpmuxHTTPConnectPort": 7005,
		"auth":            map[string]any{"token": token},
		"transport":       map[string]any{"tcpMux": tcpMux, "heartbeatTimeout": -1},
		"userConnTimeout": 3,
	}
	env := w.newLcEnv(scfg, token, PeerOpts{Server: "10.0.0.1:7000", Mux: tcpMux, Token: token})
	env.httpPort, env.httpsPort, env.muxPort = vport, 8443, 7005
	env.start()
	r := w.R
	prop := w.In.Property
	if prop != "C07" {
		prop = "C06"
	}
	viol := func(p, oracle, sig, f string, a ...any) { w.Violate(p, oracle, sig, f, a...) }
	var history []string
	hist := func(f string, a ...any) {
		s := fmt.Sprintf(f, a...)
		history = append(history, s)
		if len(history) > 60 {
			history = history[1:]
		}
		w.Net.Logf("op %s", s)
	}

	nclients := w.KnobPick("nclients", 1, 2, 3)
	var clients []*lcClient
	for i := 0; i < nclients; i++ {
		c := env.newClient("", 1)
		if rr, err := c.login(""); err != nil || mstr(rr, "error") != "" {
			w.Fail("login: %v %v", err, rr)
		}
		clients = append(clients, c)
	}
	hosts := []string{"www.site.example.test", "*.site.example.test", "*.example.test", "*", "api.site.example.test", "WWW.Other.Example.test"}
	locs := []string{"", "/", "/a", "/ab", "/a/b", "/a/b/c"}
	rusers := []string{"", "", "alice", "bob"}
	var live []*route
	nextName := 0
	syncCtl := func(c *lcClient) {
		from := len(c.Inbox)
		c.Ping(true, token)
		c.WaitMsg(10*time.Second, func(m RecvMsg) bool { return m.Seq >= from && m.Type == tPong })
	}
	removedAt := map[string]int{} // route id -> number of requests seen by that owner/proxy at removal
	seenCount := func(c *lcClient, name string) int {
		c.smu.Lock()
		defer c.smu.Unlock()
		n := 0
		for _, s := range c.HTTPSeen {
			if s.Proxy == name {
				n++
			}
		}
		return n
	}

	register := func() {
		c := clients[r.Intn(len(clients))]
		kind := []string{"http", "http", "http", "https", "tcpmux"}[r.Intn(5)]
		rt := &route{name: fmt.Sprintf("r%d", nextName), kind: kind, host: hosts[r.Intn(len(hosts))], owner: c}
		nextName++
		// one proxy may hold several routes: several hosts and, for http, several locations (every combination is a route)
		rhosts := []string{rt.host}
		if r.Intn(3) == 0 {
			for n := r.Range(1, 2); n > 0; n-- {
				h := hosts[r.Intn(len(hosts))]
				dupHost := false
				for _, o := range rhosts {
					dupHost = dupHost || strings.EqualFold(o, h)
				}
				if !dupHost {
					rhosts = append(rhosts, h)
				}
			}
		}
		rlocs := []string{""}
		f := M{"proxy_name": rt.name, "proxy_type": kind, "custom_domains": rhosts}
		switch kind {
		case "http":
			rt.loc = locs[r.Intn(len(locs))]
			rlocs = []string{rt.loc}
			if rt.loc != "" && r.Intn(3) == 0 {
				if l2 := locs[1+r.Intn(len(locs)-1)]; l2 != rt.loc {
					rlocs = append(rlocs, l2)
				}
			}
			rt.user = rusers[r.Intn(len(rusers))]
			if rt.loc != "" {
				f["locations"] = rlocs
			}
			if rt.user != "" {
				f["route_by_http_user"] = rt.user
			}
			if r.Intn(3) == 0 {
				rt.authUser, rt.authPwd = "alice", "s3cret-"+randToken(r, 4)
				if rt.user != "" {
					rt.authUser = rt.user
				}
				f["http_user"], f["http_pwd"] = rt.authUser, rt.authPwd
			}
		case "tcpmux":
			f["multiplexer"] = "httpconnect"
			rt.user = rusers[r.Intn(len(rusers))]
			if rt.user != "" {
				f["route_by_http_user"] = rt.user
			}
			if r.Intn(3) == 0 {
				rt.authUser, rt.authPwd = "alice", "m-"+randToken(r, 4)
				if rt.user != "" {
					rt.authUser = rt.user
				}
				f["http_user"], f["http_pwd"] = rt.authUser, rt.authPwd
			}
		}
		var rts []*route
		for _, h := range rhosts {
			for _, l := range rlocs {
				cp := *rt
				cp.host, cp.loc = h, l
				rts = append(rts, &cp)
			}
		}
		if len(rts) > 1 {
			w.Probe("routes.multi_route_proxy")
		}
		// duplicate (host, location, user) triple?
		dup := false
		for _, o := range live {
			for _, n := range rts {
				if o.kind == kind && strings.EqualFold(o.host, n.host) && o.loc == n.loc && o.user == n.user {
					dup = true
				}
			}
		}
		hist("%s.reg(%s %s hosts=%v locs=%q user=%q auth=%v)", c.Name, rt.name, kind, rhosts, rlocs, rt.user, rt.authUser != "")
		rr, got := c.register(f)
		ok := got && mstr(rr, "error") == ""
		w.Check("C06.duplicate-triple-refused")
		if dup && ok {
			viol("C06", "register", "duplicate-route-accepted", "a route among (%v x %q, user %q) of kind %s is already registered and the registration was accepted; history: %v", rhosts, rlocs, rt.user, kind, history)
		}
		if !dup && !ok {
			viol("C06", "register", "free-route-refused", "routes (%v x %q, user %q) of kind %s are all free but the registration was refused: %v; history: %v", rhosts, rlocs, rt.user, kind, rr, history)
		}
		if ok && !dup {
			live = append(live, rts...)
		} else if ok {
			c.CloseProxy(rt.name)
			syncCtl(c)
		}
	}
	unregister := func() {
		if len(live) == 0 {
			return
		}
		i := r.Intn(len(live))
		rt := live[i]
		hist("%s.close(%s)", rt.owner.Name, rt.name)
		rt.owner.CloseProxy(rt.name)
		syncCtl(rt.owner) // acknowledged-ordered: a later message on the same control connection has been answered
		removedAt[rt.id()] = seenCount(rt.owner, rt.name)
		// the proxy goes with all its routes
		kept := live[:0]
		for _, o := range live {
			if o.id() != rt.id() {
				kept = append(kept, o)
			}
		}
		live = kept
	}

	// keep-alive user connections to the http vhost port
	type kconn struct {
		c  *simnet.Conn
		br *bufio.Reader
	}
	var pool []*kconn
	var h2sess *h2cUpgradeSession
	httpReq := func() {
		hostChoices := []string{"www.site.example.test", "WWW.SITE.example.test", "www.site.example.test:8080", "www.site.example.test.", "api.site.example.test", "x.site.example.test",
			"deep.x.site.example.test", "foo.example.test", "unknown.test", "www.other.example.test", "site.example.test"}
		host := hostChoices[r.Intn(len(hostChoices))]
		// host spellings that a lenient normaliser may turn into a registered name in more than one step. Where they are
		// routed is left open here; what is demanded is C07 only: no protected backend without its credentials
		exotic := r.Intn(8) == 0
		if exotic {
			hn := []string{"www.site.example.test", "api.site.example.test", "x.site.example.test", "site.example.test", "www.other.example.test"}[r.Intn(5)]
			host = []string{hn + "..", hn + "..:8080", "[" + hn + ":80]:8080", "[" + hn + ".:80]:8080", hn + ".:80.", hn + ":80:8080"}[r.Intn(6)]
			w.Probe("routes.exotic_host_spelling")
		}
		// (dot segments are not resolved by the vhost: a location matches the request target as sent, and the
		// credential check must use the very route the request is forwarded to)
		path := []string{"/", "/a", "/ab", "/a/b", "/a/b/c/d", "/abc", "/zzz", "/a/bb", "/a/../zzz", "/a/b/../../x", "/a/./b", "/a/b/..", "/a/b/../c"}[r.Intn(13)]
		absolute := r.Intn(4) == 0
		var hs []string
		authUser, authPwd, proxyUser, proxyPwd := "", "", "", ""
		// credentials: none, right for some live route, wrong password, other user's
		var prot []*route
		for _, rt := range live {
			if rt.kind == "http" && rt.authUser != "" {
				prot = append(prot, rt)
			}
		}
		switch r.Intn(6) {
		case 0, 1:
		case 2:
			if len(prot) > 0 {
				p := prot[r.Intn(len(prot))]
				authUser, authPwd = p.authUser, p.authPwd
			}
		case 3:
			if len(prot) > 0 {
				p := prot[r.Intn(len(prot))]
				authUser, authPwd = p.authUser, p.authPwd+"x"
			}
		case 4:
			authUser, authPwd = rusers[r.Intn(len(rusers))], "guess"
		default:
			authUser, authPwd = "bob", ""
		}
		if absolute && r.Intn(2) == 0 {
			proxyUser, proxyPwd = authUser, authPwd
			authUser, authPwd = "", ""
			if r.Intn(3) == 0 && len(prot) > 0 {
				// Proxy-Authorization names a protected user-routed route, with a wrong password
				p := prot[r.Intn(len(prot))]
				proxyUser, proxyPwd = p.authUser, "wrong"
			}
		}
		if authUser != "" || authPwd != "" {
			hs = append(hs, []string{"Authorization", "authorization", "AUTHORIZATION"}[r.Intn(3)]+": "+basic(authUser, authPwd))
		}
		if proxyUser != "" || proxyPwd != "" {
			hs = append(hs, "Proxy-Authorization: "+basic(proxyUser, proxyPwd))
		} else if absolute && r.Intn(2) == 0 {
			// a Proxy-Authorization header that yields no user at all
			hs = append(hs, "Proxy-Authorization: "+[]string{"Bearer abcdef", "Basic !!!notbase64", "Basic " + base64.StdEncoding.EncodeToString([]byte(":onlypw")),
				"Basic " + base64.StdEncoding.EncodeToString([]byte("nocolon")), "basic", ""}[r.Intn(6)])
		}
		// method and a few headers that special-case handling likes to key on
		method := []string{"GET", "GET", "GET", "GET", "OPTIONS", "OPTIONS", "POST", "PUT", "DELETE", "PATCH"}[r.Intn(10)]
		if k := r.Intn(8); k < 3 {
			hs = append(hs, []string{"Access-Control-Request-Method: POST", "Origin: http://evil.example.test", "X-Requested-With: XMLHttpRequest"}[k])
			if k == 0 && r.Intn(2) == 0 {
				hs = append(hs, "Origin: http://app.example.test", "Access-Control-Request-Headers: authorization")
			}
		}
		if method != "GET" && method != "OPTIONS" && method != "DELETE" {
			hs = append(hs, "Content-Length: 0")
		}
		marker := fmt.Sprintf("m%d", r.U64())
		target := path
		if absolute {
			target = "http://" + host + path
		}
		// the request user frp routes by: Authorization's user, or for absolute-form requests Proxy-Authorization's
		reqUser := authUser
		if absolute && proxyUser != "" {
			reqUser = proxyUser
		}
		want := refMatch(live, "http", host, path, reqUser)
		// request form: HTTP/1.1 on a keep-alive connection (mostly), HTTP/1.0 on a connection of its own, or HTTP/2
		// over clear text with prior knowledge (the vhost wraps its handler with h2c)
		form := []string{"1.1", "1.1", "1.1", "1.1", "1.0", "h2c", "h2c-upgrade", "h2c-upgrade"}[r.Intn(8)]
		ver := "1.0"
		if exotic {
			// on a connection of its own (a refusal may close it), as HTTP/1.0 or as HTTP/1.1 with Connection: close
			form = "1.0"
			want = nil
			if r.Intn(2) == 0 {
				ver = "1.1"
				hs = append(hs, "Connection: close")
			}
		}
		if strings.HasPrefix(form, "h2c") && absolute {
			form = "1.1" // HTTP/2 has no absolute-form targets
		}
		if form == "h2c" && share {
			// on a port shared with the control protocol the first bytes decide who gets the connection, and the
			// HTTP/2 preface is not among the HTTP methods recognised there: only the upgrade form can be used
			form = "h2c-upgrade"
		}
		var got *rawMsg
		switch form {
		case "h2c":
			w.Probe("routes.form_h2c")
			var hh [][2]string
			hh = append(hh, [2]string{"X-Marker", marker})
			for _, h := range hs {
				if i := strings.Index(h, ": "); i > 0 {
					hh = append(hh, [2]string{h[:i], h[i+2:]})
				}
			}
			st, sb, err := h2cGet(fmt.Sprintf("10.0.3.%d", 230+r.Intn(10)), fmt.Sprintf("10.0.0.1:%d", vport), method, host, target, hh, 20*time.Second)
			if err != nil {
				hist("GET(h2c) %s host=%s -> error %v", target, host, err)
				if want != nil && want.authUser == "" {
					viol("C06", "route", "matched-request-not-served", "h2c GET %s Host %s user %q matches route %s but got no answer: %v; history: %v", target, host, reqUser, want.id(), err, history)
				}
				return
			}
			got = &rawMsg{Status: st}
			if sb != "" {
				got.Headers = append(got.Headers, hdr{"X-Served-By", sb})
			}
		case "h2c-upgrade":
			// HTTP/2 over clear text obtained with the HTTP/1.1 Upgrade mechanism: the first request of the session is
			// an HTTP/1.1 request that asks for the switch, the following ones are streams of the same connection
			var hh [][2]string
			hh = append(hh, [2]string{"X-Marker", marker})
			for _, h := range hs {
				if i := strings.Index(h, ": "); i > 0 {
					hh = append(hh, [2]string{h[:i], h[i+2:]})
				}
			}
			var resp *h2Resp
			var err error
			if h2sess == nil {
				w.Probe("routes.form_h2c_upgrade_first")
				h2sess, resp, err = h2cUpgrade(fmt.Sprintf("10.0.3.%d", 240+r.Intn(10)), fmt.Sprintf("10.0.0.1:%d", vport), method, host, target, hh, 20*time.Second)
			} else {
				w.Probe("routes.form_h2c_upgrade_next")
				resp, err = h2sess.Do(method, host, target, hh, 20*time.Second)
				if err != nil || r.Intn(4) == 0 {
					h2sess.Close()
					h2sess = nil
				}
			}
			if resp == nil {
				hist("GET(%s) %s host=%s -> error %v", form, target, host, err)
				if want != nil && want.authUser == "" {
					viol("C06", "route", "matched-request-not-served", "GET %s Host %s user %q on an h2c connection (HTTP/1.1 upgrade) matches route %s but got no answer: %v; history: %v", target, host, reqUser, want.id(), err, history)
				}
				return
			}
			got = &rawMsg{Status: resp.Status}
			if resp.ServedBy != "" {
				got.Headers = append(got.Headers, hdr{"X-Served-By", resp.ServedBy})
			}
		case "1.0":
			w.Probe("routes.form_http10")
			c, err := simnet.DialFrom(fmt.Sprintf("10.0.3.%d", 220+r.Intn(10)), fmt.Sprintf("10.0.0.1:%d", vport), 10*time.Second)
			if err != nil {
				viol("C06", "connect", "vhost-port-refused", "%v", err)
				return
			}
			fmt.Fprintf(c, "%s %s HTTP/%s\r\nHost: %s\r\nX-Marker: %s\r\n%s\r\n", method, target, ver, host, marker, strings.Join(append(hs, ""), "\r\n"))
			c.SetReadDeadline(time.Now().Add(20 * time.Second))
			var err2 error
			got, err2 = readRawMsg(bufio.NewReader(c), false, false)
			c.Close()
			if err2 != nil && got == nil {
				hist("GET(1.0) %s host=%s -> error %v", target, host, err2)
				if want != nil && want.authUser == "" {
					viol("C06", "route", "matched-request-not-served", "HTTP/1.0 GET %s Host %s user %q matches route %s but got no answer: %v; history: %v", target, host, reqUser, want.id(), err2, history)
				}
				return
			}
		default:
			// pick or open a keep-alive connection
			var kc *kconn
			if len(pool) > 0 && r.Intn(3) != 0 {
				kc = pool[r.Intn(len(pool))]
			} else {
				ip := fmt.Sprintf("10.0.3.%d", 30+len(pool)%200)
				c, err := simnet.DialFrom(ip, fmt.Sprintf("10.0.0.1:%d", vport), 10*time.Second)
				if err != nil {
					viol("C06", "connect", "vhost-port-refused", "%v", err)
					return
				}
				kc = &kconn{c, bufio.NewReader(c)}
				pool = append(pool, kc)
			}
			fmt.Fprintf(kc.c, "%s %s HTTP/1.1\r\nHost: %s\r\nX-Marker: %s\r\n%s\r\n", method, target, host, marker, strings.Join(append(hs, ""), "\r\n"))
			kc.c.SetReadDeadline(time.Now().Add(20 * time.Second))
			var err error
			got, err = readRawMsg(kc.br, false, false)
			if err != nil && got == nil {
				// drop the connection from the pool
				for i, p := range pool {
					if p == kc {
						pool = append(pool[:i], pool[i+1:]...)
						break
					}
				}
				kc.c.Close()
				hist("GET %s host=%s -> error %v", target, host, err)
				if want != nil && want.authUser == "" {
					viol("C06", "route", "matched-request-not-served", "GET %s Host %s user %q matches route %s but got no answer: %v; history: %v", target, host, reqUser, want.id(), err, history)
				}
				return
			}
		}
		served := strings.Join(got.get("X-Served-By"), ",")
		hist("%s(%s) %s host=%s user=%q abs=%v auth=%q/%q proxyauth=%q -> %d %s", method, form, target, host, reqUser, absolute, authUser, authPwd, proxyUser, got.Status, served)
		// who saw the marker?
		var sawBy []string
		var sawRoute *route
		all := append([]*route{}, live...)
		for _, c := range env.clients {
			c.smu.Lock()
			for _, s := range c.HTTPSeen {
				if strings.Contains(s.Head, "X-Marker: "+marker) {
					sawBy = append(sawBy, c.Name+"/"+s.Proxy)
				}
			}
			c.smu.Unlock()
		}
		for _, rt := range all {
			for _, sb := range sawBy {
				if sb == rt.id() {
					sawRoute = rt
				}
			}
		}
		w.Check("C06.most-specific-route")
		credOK := func(rt *route) bool {
			return (authUser == rt.authUser && authPwd == rt.authPwd) || (proxyUser == rt.authUser && proxyPwd == rt.authPwd)
		}
		// C07: a protected backend saw the request only if it carried the exact credentials
		if sawRoute != nil && sawRoute.authUser != "" {
			w.Check("C07.protected-backend-reached-only-with-credentials")
			if !credOK(sawRoute) {
				viol("C07", "auth", "protected-route-reached-without-credentials", "request %s Host %s (absolute-form=%v, Authorization %q:%q, Proxy-Authorization %q:%q) reached protected route %s (needs %q:%q); history: %v",
					target, host, absolute, authUser, authPwd, proxyUser, proxyPwd, sawRoute.id(), sawRoute.authUser, sawRoute.authPwd, history)
			}
		}
		if exotic {
			return
		}
		if len(sawBy) > 0 && sawRoute == nil {
			// seen by a proxy that is not live: a former owner
			viol("C06", "route", "request-reached-removed-route", "request %s Host %s was served by %v which is not a live route; history: %v", target, host, sawBy, history)
			return
		}
		if want == nil {
			if len(sawBy) > 0 {
				viol("C06", "route", "unmatched-request-reached-backend", "request %s Host %s user %q matches no route but reached %v; history: %v", target, host, reqUser, sawBy, history)
			} else if got.Status != 404 && got.Status != 401 {
				viol("C06", "route", "unmatched-request-not-refused", "request %s Host %s matches no route but got status %d; history: %v", target, host, got.Status, history)
			}
			return
		}
		if want.authUser != "" && !credOK(want) {
			w.Check("C07.challenge")
			if len(sawBy) > 0 {
				return // already reported above if it reached a protected backend; reaching another route is a routing matter
			}
			if got.Status != 401 && got.Status != 407 && got.Status != 404 {
				viol("C07", "auth", "no-challenge", "request to protected route %s without valid credentials got status %d", want.id(), got.Status)
			}
			return
		}
		if len(sawBy) == 0 {
			viol("C06", "route", "matched-request-not-delivered", "request %s Host %s user %q matches route %s (host %s loc %q user %q) but reached no backend (status %d); history: %v", target, host, reqUser, want.id(), want.host, want.loc, want.user, got.Status, history)
			return
		}
		if sawRoute.id() != want.id() {
			viol("C06", "route", "wrong-route", "request %s Host %s user %q must go to %s (host %s loc %q user %q) but was served by %s (host %s loc %q user %q); history: %v",
				target, host, reqUser, want.id(), want.host, want.loc, want.user, sawRoute.id(), sawRoute.host, sawRoute.loc, sawRoute.user, history)
		}
	}
	sniReq := func() {
		host := []string{"www.site.example.test", "api.site.example.test", "x.site.example.test", "foo.example.test", "unknown.test", "WWW.Other.Example.test"}[r.Intn(6)]
		want := refMatch(live, "https", host, "", "")
		w.Check("C06.sni-route")
		conn, err := simnet.DialFrom("10.0.3.250", "10.0.0.1:8443", 10*time.Second)
		if err != nil {
			return
		}
		defer conn.Close()
		conn.Write(clientHelloFor(strings.ToLower(host)))
		conn.SetReadDeadline(time.Now().Add(8 * time.Second))
		br := bufio.NewReader(conn)
		line, _ := br.ReadString('\n')
		served := ""
		if strings.HasPrefix(line, "ID ") {
			served = strings.TrimSpace(line[3:])
		}
		hist("SNI %s -> %q", host, served)
		if want == nil && served != "" {
			viol("C06", "route", "unmatched-sni-reached-backend", "ClientHello for %s matches no https route but reached %s; history: %v", host, served, history)
		}
		if want != nil && served != want.id() {
			viol("C06", "route", "wrong-sni-route", "ClientHello for %s must go to %s (host %s) but was served by %q; history: %v", host, want.id(), want.host, served, history)
		}
	}
	connectReq := func() {
		host := []string{"www.site.example.test", "api.site.example.test:443", "x.site.example.test", "foo.example.test", "unknown.test"}[r.Intn(5)]
		var prot []*route
		for _, rt := range live {
			if rt.kind == "tcpmux" && rt.authUser != "" {
				prot = append(prot, rt)
			}
		}
		pu, pp := "", ""
		switch r.Intn(5) {
		case 0:
			if len(prot) > 0 {
				pu, pp = prot[0].authUser, prot[0].authPwd
			}
		case 1:
			if len(prot) > 0 {
				pu, pp = prot[0].authUser, "wrong"
			}
		case 2:
			pu, pp = rusers[r.Intn(len(rusers))], "x"
		}
		want := refMatch(live, "tcpmux", host, "", pu)
		w.Check("C06.connect-route")
		conn, err := simnet.DialFrom("10.0.3.251", "10.0.0.1:7005", 10*time.Second)
		if err != nil {
			return
		}
		defer conn.Close()
		h := ""
		if pu != "" || pp != "" {
			h = "Proxy-Authorization: " + basic(pu, pp) + "\r\n"
		}
		hp := host
		if !strings.Contains(hp, ":") {
			hp += ":443"
		}
		fmt.Fprintf(conn, "CONNECT %s HTTP/1.1\r\nHost: %s\r\n%s\r\n", hp, hp, h)
		conn.SetReadDeadline(time.Now().Add(8 * time.Second))
		br := bufio.NewReader(conn)
		served := ""
		for i := 0; i < 40; i++ {
			line, err := br.ReadString('\n')
			if strings.HasPrefix(line, "ID ") {
				served = strings.TrimSpace(line[3:])
				break
			}
			if err != nil {
				break
			}
		}
		hist("CONNECT %s user=%q -> %q", host, pu, served)
		if want == nil && served != "" {
			viol("C06", "route", "unmatched-connect-reached-backend", "CONNECT %s (user %q) matches no tcpmux route but reached %s; history: %v", host, pu, served, history)
		}
		if served != "" {
			var sr *route
			for _, rt := range live {
				if rt.id() == served {
					sr = rt
				}
			}
			if sr != nil && sr.authUser != "" {
				w.Check("C07.protected-backend-reached-only-with-credentials")
				if pu != sr.authUser || pp != sr.authPwd {
					viol("C07", "auth", "protected-tcpmux-reached-without-credentials", "CONNECT %s with Proxy-Authorization %q:%q reached protected route %s (needs %q:%q); history: %v", host, pu, pp, served, sr.authUser, sr.authPwd, history)
				}
			}
		}
		if want != nil && (want.authUser == "" || (pu == want.authUser && pp == want.authPwd)) && served != want.id() {
			viol("C06", "route", "wrong-connect-route", "CONNECT %s (user %q) must go to %s (host %s user %q) but was served by %q; history: %v", host, pu, want.id(), want.host, want.user, served, history)
		}
	}

	// handoverPending: a route changes hands while a request for it is still waiting for a work connection of the old
	// owner, which hands that connection in late - after it has given the route up and somebody else has taken it.
	// What becomes of the waiting request is open; every request sent afterwards belongs to the new owner.
	handN := 0
	handoverPending := func() {
		if len(clients) < 2 {
			return
		}
		handN++
		a, b := clients[r.Intn(len(clients))], (*lcClient)(nil)
		for _, c := range clients {
			if c != a {
				b = c
			}
		}
		// two fresh routes of a: "warm" only serves to take a's pooled work connection away (and keep it, idle, under its
		// own route), so that the request for "hand" really has to wait for a work connection
		warmHost, handHost := fmt.Sprintf("warm%d.hand.test", handN), fmt.Sprintf("hand%d.hand.test", handN)
		warm := &route{name: fmt.Sprintf("r%d", nextName), kind: "http", host: warmHost, owner: a}
		hand := &route{name: fmt.Sprintf("r%d", nextName+1), kind: "http", host: handHost, owner: a}
		nextName += 2
		// optionally the routes of this step are bandwidth-limited on the server side: one more wrapper around every
		// work connection, which has to go when the route goes like everything else
		limited := w.KnobBool("handover.server_side_limit", 50)
		lim := func(f M) M {
			if limited {
				f["bandwidth_limit"], f["bandwidth_limit_mode"] = "1MB", "server"
			}
			return f
		}
		for _, x := range []*route{warm, hand} {
			if rr, got := a.register(lim(M{"proxy_name": x.name, "proxy_type": "http", "custom_domains": []string{x.host}})); !got || mstr(rr, "error") != "" {
				viol("C06", "register", "free-route-refused", "fresh route %s refused: %v; history: %v", x.host, rr, history)
				return
			}
			live = append(live, x)
		}
		w.Probe("routes.handover_with_pending_request")
		hist("handover of %s (host %s) from %s to %s with a request pending", hand.name, hand.host, a.Name, b.Name)
		if limited {
			w.Probe("routes.handover_of_limited_route")
			env.probeHTTP(handHost, "/first", 8*time.Second) // an answered request: its connection may now idle in the vhost's pool
		}
		a.smu.Lock()
		a.WorkMode, a.LateBy = wmLate, 1500*time.Millisecond
		a.smu.Unlock()
		env.probeHTTP(warmHost, "/", 8*time.Second) // takes the pooled work connection; its replacement will be late
		pending := make(chan struct{})
		pendingServedBy := ""
		go func() {
			defer close(pending)
			pendingServedBy, _, _ = env.probeHTTP(handHost, "/pending", 10*time.Second)
		}()
		time.Sleep(300 * time.Millisecond)
		a.CloseProxy(hand.name)
		syncCtl(a)
		removedAt[hand.id()] = -1 // (a request in flight at the removal may still arrive: not judged by the end-of-run count)
		kept := live[:0]
		for _, o := range live {
			if o.id() != hand.id() {
				kept = append(kept, o)
			}
		}
		live = kept
		nb := &route{name: fmt.Sprintf("r%d", nextName), kind: "http", host: handHost, owner: b}
		nextName++
		nf := lim(M{"proxy_name": nb.name, "proxy_type": "http", "custom_domains": []string{nb.host}})
		if r.Intn(2) == 0 {
			// the new owner protects the route: the waiting request, admitted when the route was open, carries nothing
			nb.authUser, nb.authPwd = "carol", "pw-"+randToken(r, 4)
			nf["http_user"], nf["http_pwd"] = nb.authUser, nb.authPwd
		}
		rr, got := b.register(nf)
		reset := func() {
			<-pending
			a.smu.Lock()
			a.WorkMode = wmGood
			a.smu.Unlock()
		}
		if !got || mstr(rr, "error") != "" {
			viol("C06", "register", "free-route-refused", "route %s was closed by its owner (acknowledged) and then refused to another proxy: %v; history: %v", nb.host, rr, history)
			reset()
			return
		}
		live = append(live, nb)
		reset()
		if nb.authUser != "" {
			w.Check("C07.protected-backend-reached-only-with-credentials")
			if pendingServedBy == nb.id() {
				viol("C07", "auth", "protected-route-reached-without-credentials", "a request without credentials was waiting for a work connection of the unprotected owner of %s when the route went to %s, which protects it with %q:%q: the request was delivered to the new owner's backend; history: %v", nb.host, nb.id(), nb.authUser, nb.authPwd, history)
			}
		}
		time.Sleep(2 * time.Second)
		w.Check("C06.requests-after-handover-go-to-new-owner")
		for j := 0; j < 3; j++ {
			az := ""
			if nb.authUser != "" {
				az = basic(nb.authUser, nb.authPwd)
			}
			sb, st, err := env.probeHTTPAuth(nb.host, "/after", az, 8*time.Second)
			if sb != nb.id() {
				viol("C06", "route", "request-reached-former-owner-after-handover", "route %s went from %s to %s while a request was waiting for a work connection, which the former owner handed in late; request %d sent afterwards was served by %q (status %d, %v), want %s; history: %v",
					nb.host, hand.id(), nb.id(), j+1, sb, st, err, nb.id(), history)
				break
			}
		}
	}
	nops := w.KnobPick("nops", 12, 25, 50, 90)
	for i := 0; i < nops; i++ {
		for _, c := range clients {
			if c.IsClosed() {
				viol("C06", "route", "session-closed-unexpectedly", "session %s closed; history: %v", c.Name, history)
				return
			}
		}
		switch k := r.Intn(20); {
		case k < 5 || len(live) < 2:
			register()
		case k < 8:
			if r.Intn(4) == 0 {
				handoverPending()
			} else {
				unregister()
			}
		case k < 17:
			httpReq()
		case k < 18:
			sniReq()
		default:
			connectReq()
		}
	}
	// after everything: no removed route has been contacted since its removal was acknowledged
	w.Check("C06.removed-route-silent")
	for _, c := range env.clients {
		names := map[string]bool{}
		c.smu.Lock()
		for _, s := range c.HTTPSeen {
			names[s.Proxy] = true
		}
		c.smu.Unlock()
		var ns []string
		for n := range names {
			ns = append(ns, n)
		}
		sort.Strings(ns)
		for _, n := range ns {
			id := c.Name + "/" + n
			if at, ok := removedAt[id]; ok && at >= 0 {
				if now := seenCount(c, n); now > at {
					viol("C06", "route", "request-reached-removed-route", "route %s saw %d request(s) after its removal had been acknowledged; history: %v", id, now-at, history)
				}
			}
		}
	}
	for _, kc := range pool {
		kc.c.Close()
	}
	if h2sess != nil {
		h2sess.Close()
	}
	w.SetSample(map[string]any{"routes_registered": nextName, "ops": nops, "history_tail": history})
	w.Nontrivial()
}
