package verifharness

import (
	"bytes"
	"crypto/tls"
	"fmt"
	"sync"
	"time"

	"verif/sim/simnet"
)

// World "httpplugins" (C02): the http2http, http2https, https2http and https2https client plugins carry requests
// and responses unchanged apart from the declared rewrites (Host rewrite, request headers to set, X-Forwarded-For
// extended by the user's address).

func init() { RegisterWorld("httpplugins", worldHTTPPlugins) }

func worldHTTPPlugins(w *World) {
	hw := &httpWorld{w: w, cases: map[int]*httpCase{}}
	if w.In.CertDir == "" {
		w.Fail("no cert dir")
	}
	cd := w.In.CertDir
	token := "hp-token"
	kind := []string{"http2http", "http2https", "https2http", "https2https"}[w.Knob("plugin", 0, 3)]
	userHTTPS := kind == "https2http" || kind == "https2https"
	backendHTTPS := kind == "http2https" || kind == "https2https"
	front := "http" // proxy type in front of the plugin
	if userHTTPS {
		front = "https"
	} else if w.KnobBool("front_tcp", 40) {
		front = "tcp"
	}
	tcpMux := w.KnobBool("tcp_mux", 60)
	scfg := map[string]any{"bindAddr": "10.0.0.1", "bindPort": 7000, "vhostHTTPPort": 8080, "vhostHTTPSPort": 8443,
		"auth": map[string]any{"token": token}, "transport": map[string]any{"tcpMux": tcpMux},
		"allowPorts": []map[string]any{{"start": 20000, "end": 20009}}}
	// C05 batch: everything that crosses the path between frpc and frps is recorded
	var tap *simnet.Tap
	if w.In.Property == "C05" {
		tap = w.Net.TapListener("10.0.0.1:7000", 64<<20)
	}
	if _, err := w.StartFrps(w.Frps, scfg); err != nil {
		w.Fail("frps: %v", err)
	}
	rewriteHost := ""
	if w.KnobBool("host_rewrite", 50) {
		rewriteHost = "rewritten.internal"
	}
	setReq := w.KnobBool("request_headers_set", 50)
	plug := map[string]any{"type": kind, "localAddr": "127.0.0.1:9100"}
	if rewriteHost != "" {
		plug["hostHeaderRewrite"] = rewriteHost
	}
	if setReq {
		plug["requestHeaders"] = map[string]any{"set": map[string]string{"X-From-Frp": "yes", "X-Hdr-0": "overridden", "x-hdr-1": "forced"}}
	}
	if userHTTPS {
		plug["crtPath"], plug["keyPath"] = cd+"/server.crt", cd+"/server.key"
		plug["enableHTTP2"] = false
	}
	enc, comp := w.KnobBool("enc", 40), w.KnobBool("comp", 40)
	hw.pluginStreamWrapped = enc || comp
	hw.frontVhost = front == "http"
	px := map[string]any{"name": "web", "type": front, "plugin": plug,
		"transport": map[string]any{"useEncryption": enc, "useCompression": comp}}
	addr := "10.0.0.1:8080"
	switch front {
	case "tcp":
		px["remotePort"] = 20001
		addr = "10.0.0.1:20001"
	case "https":
		px["customDomains"] = []string{"a.example.test"}
		addr = "10.0.0.1:8443"
	default:
		px["customDomains"] = []string{"a.example.test"}
	}
	c1 := w.Net.NewNode("frpc1", "10.0.1.1")
	if _, err := w.StartFrpc(c1, map[string]any{"serverAddr": "10.0.0.1", "serverPort": 7000, "loginFailExit": false,
		"auth":      map[string]any{"token": token},
		"transport": map[string]any{"tcpMux": tcpMux, "connectServerLocalIP": "10.0.1.1", "tls": map[string]any{"enable": w.KnobBool("tls", 50)}, "poolCount": w.KnobPick("pool", 0, 1, 3)},
		"proxies":   []map[string]any{px}}); err != nil {
		w.Fail("frpc: %v", err)
	}
	if userHTTPS {
		hw.userTLS = &tls.Config{InsecureSkipVerify: true, ServerName: "a.example.test", NextProtos: []string{"http/1.1"}}
	}
	if backendHTTPS {
		cert, err := tls.LoadX509KeyPair(cd+"/server.crt", cd+"/server.key")
		if err != nil {
			w.Fail("%v", err)
		}
		hw.backendTLS = &tls.Config{Certificates: []tls.Certificate{cert}, NextProtos: []string{"http/1.1"}}
	}
	// X-Forwarded-For: the user's address is appended by the http vhost of frps (front http) or by the
	// https2http(s) plugins themselves; behind a plain tcp proxy nobody knows it is HTTP before the plugin
	if front == "tcp" {
		hw.xffMode = 1
	}
	ln, err := w.Net.Listen("tcp", "127.0.0.1:9100")
	if err != nil {
		w.Fail("%v", err)
	}
	w.Backend.Go(func() {
		for {
			c, err := ln.Accept()
			if err != nil {
				return
			}
			go hw.backendConn(c, "web")
		}
	})
	if !w.WaitUntil(60*time.Second, 100*time.Millisecond, func() bool { return w.FrpLogContains("[web] start proxy success") }) {
		hw.viol("startup", "proxy-not-up", "%s proxy with plugin %s not registered within 60 s", front, kind)
		return
	}
	time.Sleep(300 * time.Millisecond)
	maxBody := 64 << 10
	if w.In.Tier == "thorough" {
		maxBody = 1 << 20
	}
	if m := w.Net.Cfg().MSS; m < 64 {
		maxBody = 2048
	}
	nconn := w.KnobPick("nconns", 1, 2, 3)
	var wg sync.WaitGroup
	cid := 0
	for ci := 0; ci < nconn; ci++ {
		nreq := w.KnobPick(fmt.Sprintf("conn%d.nreq", ci), 1, 2, 4, 8)
		var cs []*httpCase
		for j := 0; j < nreq; j++ {
			cs = append(cs, hw.genCase(cid, simnet.NewRand(w.In.Seed, fmt.Sprintf("case%d", cid)), maxBody))
			cid++
		}
		ip := fmt.Sprintf("10.0.3.%d", 20+ci)
		wg.Add(1)
		w.UserN.Go(func() {
			defer wg.Done()
			hw.userConn(addr, ip, cs, rewriteHost, setReq, false)
		})
	}
	done := make(chan struct{})
	go func() { wg.Wait(); close(done) }()
	select {
	case <-done:
	case <-time.After(10 * time.Minute):
		hw.viol("progress", "stall", "http traffic through plugin %s did not finish within 10 simulated minutes", kind)
		return
	}
	if tap != nil {
		// a proxy that asks for encryption gets it whatever plugin serves it: no request or response text on the path
		time.Sleep(time.Second)
		var wire []byte
		for _, id := range tap.Conns() {
			wire = append(wire, tap.Stream(id, 0)...)
			wire = append(wire, 0)
			wire = append(wire, tap.Stream(id, 1)...)
			wire = append(wire, 0)
		}
		tlsOn := w.KnobBool("tls", 50)
		w.Probe("wire.client_plugin_proxy")
		if enc || tlsOn {
			w.Check("C05.proxy-encryption-hides-payload")
			for _, mk := range []string{"X-Case", "HTTP/1.1", "a.example.test"} {
				if bytes.Contains(wire, []byte(mk)) {
					w.Violate("C05", "encryption", "payload-in-clear-with-proxy-encryption", "%s proxy served by client plugin %s with useEncryption=%v (transport tls=%v): request/response text (%q) crossed the path between frpc and frps in clear", front, kind, enc, tlsOn, mk)
					break
				}
			}
		}
	}
	w.SetSample(map[string]any{"plugin": kind, "front": front, "cases": cid, "rewrite_host": rewriteHost, "set_req": setReq})
	w.Nontrivial()
}
