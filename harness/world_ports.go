package verifharness

import (
	"fmt"
	"net"
	"sort"
	"strings"
	"sync"
	"time"

	"verif/sim/simnet"
)

// World "ports" (C09): scripted clients register/close tcp and udp proxies with
// every kind of port request against a reference allocator; after every
// acknowledged step what frps has really bound is compared with the model.

func init() { RegisterWorld("ports", worldPorts) }

type pmProxy struct {
	name    string
	owner   *lcClient
	proto   string
	port    int
	group   string
	reqPort int
}

type pmGroup struct {
	key     string
	reqPort int
	port    int
	members map[string]*pmProxy
}

type portsModel struct {
	allowed  map[int]bool
	squat    map[string]bool // "tcp/port"
	live     map[string]*pmProxy
	reserved map[string]int  // proto/name -> last port
	ambig    map[string]bool // proto/name -> last registration joined an existing group (no port of its own)
	groups   map[string]*pmGroup
	quota    int
}

func (m *portsModel) owned(proto string, port int) bool {
	for _, p := range m.live {
		if p.proto == proto && p.port == port {
			return true
		}
	}
	return false
}

func (m *portsModel) sessionPorts(c *lcClient) int {
	n := 0
	for _, p := range m.live {
		if p.owner == c {
			n++
		}
	}
	return n
}

func (m *portsModel) freeUsable(proto string) (usable, squatted int) {
	for p := range m.allowed {
		if m.owned(proto, p) {
			continue
		}
		if m.squat[fmt.Sprintf("%s/%d", proto, p)] {
			squatted++
		} else {
			usable++
		}
	}
	return
}

func worldPorts(w *World) {
	token := "ports-token"
	tcpMux := w.KnobBool("tcp_mux", 50)
	quota := w.KnobPick("max_ports_per_client", 0, 0, 1, 2, 3)
	// allowPorts: from a single port to a few ranges
	var ranges []map[string]any
	allowed := map[int]bool{}
	switch w.Knob("allow_shape", 0, 3) {
	case 0:
		ranges = append(ranges, map[string]any{"single": 20000})
		allowed[20000] = true
	case 1:
		ranges = append(ranges, map[string]any{"start": 20000, "end": 20002})
		for p := 20000; p <= 20002; p++ {
			allowed[p] = true
		}
	case 2:
		ranges = append(ranges, map[string]any{"start": 20000, "end": 20001}, map[string]any{"single": 20010})
		allowed[20000], allowed[20001], allowed[20010] = true, true, true
	default:
		ranges = append(ranges, map[string]any{"start": 20000, "end": 20007})
		for p := 20000; p <= 20007; p++ {
			allowed[p] = true
		}
	}
	scfg := map[string]any{
		"bindAddr": "10.0.0.1", "bindPort": 7000,
		"auth":              map[string]any{"token": token},
		"transport":         map[string]any{"tcpMux": tcpMux, "heartbeatTimeout": -1},
		"allowPorts":        ranges,
		"maxPortsPerClient": quota,
		"userConnTimeout":   3,
	}
	env := w.newLcEnv(scfg, token, PeerOpts{Server: "10.0.0.1:7000", Mux: tcpMux, Token: token})
	env.start()
	m := &portsModel{allowed: allowed, squat: map[string]bool{}, live: map[string]*pmProxy{}, reserved: map[string]int{}, ambig: map[string]bool{}, groups: map[string]*pmGroup{}, quota: quota}

	nclients := w.KnobPick("nclients", 1, 2, 2, 3)
	var clients []*lcClient
	for i := 0; i < nclients; i++ {
		c := env.newClient("", 1)
		if r, err := c.login(""); err != nil || mstr(r, "error") != "" {
			w.Fail("login: %v %v", err, r)
		}
		clients = append(clients, c)
	}
	r := w.R
	allowedList := make([]int, 0)
	for p := range allowed {
		allowedList = append(allowedList, p)
	}
	sort.Ints(allowedList)
	names := []string{"a", "b", "c", "d", "e"}
	nops := w.KnobPick("nops", 6, 12, 24, 40)
	viol := func(oracle, sig, f string, a ...any) { w.Violate("C09", oracle, sig, f, a...) }
	var history []string
	hist := func(f string, a ...any) {
		s := fmt.Sprintf(f, a...)
		history = append(history, s)
		w.Net.Logf("op %s", s)
	}

	pickPort := func() int {
		switch r.Intn(10) {
		case 0:
			return 0
		case 1:
			return 0
		case 2:
			return 19999
		case 3:
			return r.Pick(-1, 65536, 70000, 0x10000+20000)
		case 4:
			return 20100
		default:
			return allowedList[r.Intn(len(allowedList))]
		}
	}

	// sync: a later message on the same control connection has been answered
	syncCtl := func(c *lcClient) {
		if c.IsClosed() {
			return
		}
		from := len(c.Inbox)
		c.Ping(true, token)
		c.WaitMsg(10*time.Second, func(m RecvMsg) bool { return m.Seq >= from && m.Type == tPong })
	}

	checkInv := func(after string) {
		w.Check("C09.bound-equals-model")
		wantTCP, wantUDP := map[int]bool{}, map[int]bool{}
		for _, p := range m.live {
			if p.proto == "tcp" {
				wantTCP[p.port] = true
			} else {
				wantUDP[p.port] = true
			}
		}
		cmp := func(proto string, got, want map[int]bool) {
			for p := range got {
				if !m.allowed[p] {
					viol("bound", proto+"-port-outside-allowPorts", "after %s: frps is bound to %s port %d which is outside allowPorts %v; history: %v", after, proto, p, allowedList, history)
				} else if !want[p] {
					viol("bound", proto+"-port-bound-without-owner", "after %s: frps is bound to %s port %d but no live proxy owns it; history: %v", after, proto, p, history)
				}
			}
			for p := range want {
				if !got[p] {
					viol("bound", proto+"-owned-port-not-bound", "after %s: live proxy owns %s port %d but frps is not bound to it; history: %v", after, proto, p, history)
				}
			}
		}
		cmp("tcp", env.frpsTCPPorts(), wantTCP)
		cmp("udp", env.frpsUDPPorts(), wantUDP)
		// the server's own tables: in use = bound, and nothing bound is listed as free
		for proto, bound := range map[string]map[int]bool{"tcp": env.frpsTCPPorts(), "udp": env.frpsUDPPorts()} {
			used, free, ok := env.portAccounting(proto)
			if !ok {
				continue
			}
			w.Check("C09.accounting-equals-bound")
			for p := range bound {
				if !used[p] {
					viol("accounting", proto+"-bound-port-not-accounted", "after %s: frps is bound to %s port %d but its table of ports in use does not list it (free list has it: %v); history: %v", after, proto, p, free[p], history)
				} else if free[p] {
					viol("accounting", proto+"-bound-port-listed-free", "after %s: %s port %d is bound and in use but also on the free list; history: %v", after, proto, p, history)
				}
			}
			for p := range used {
				if !bound[p] {
					viol("accounting", proto+"-accounted-port-not-bound", "after %s: the table of ports in use lists %s port %d but frps is not bound to it; history: %v", after, proto, p, history)
				}
			}
		}
		if m.quota > 0 {
			for _, c := range clients {
				if n := m.sessionPorts(c); n > m.quota {
					viol("quota", "session-over-quota", "after %s: session %s holds %d ports, quota %d; history: %v", after, c.Name, n, m.quota, history)
				}
			}
		}
	}

	// expected outcome of a registration per the reference allocator
	type expect struct {
		mustFail, mustSucceed bool
		why                   string
		port                  int // required port on success (0 = any allowed free)
	}
	decide := func(c *lcClient, name, proto string, port int, group, key string) expect {
		if _, ok := m.live[name]; ok {
			return expect{mustFail: true, why: "name already live"}
		}
		if port < 0 || port > 65535 {
			return expect{mustFail: true, why: "port out of range"}
		}
		if m.quota > 0 && m.sessionPorts(c)+1 > m.quota {
			return expect{mustFail: true, why: "over quota"}
		}
		if group != "" && proto == "tcp" {
			if g, ok := m.groups[group]; ok && len(g.members) > 0 {
				if g.key != key {
					return expect{mustFail: true, why: "wrong group key"}
				}
				if g.reqPort != port {
					return expect{mustFail: true, why: "different group port"}
				}
				return expect{mustSucceed: true, port: g.port, why: "join"}
			}
		}
		if port != 0 {
			if !m.allowed[port] {
				return expect{mustFail: true, why: "not allowed"}
			}
			if m.owned(proto, port) {
				return expect{mustFail: true, why: "already owned"}
			}
			if m.squat[fmt.Sprintf("%s/%d", proto, port)] {
				return expect{mustFail: true, why: "unavailable (squatted)"}
			}
			return expect{mustSucceed: true, port: port, why: "free"}
		}
		usable, squatted := m.freeUsable(proto)
		if usable == 0 {
			return expect{mustFail: true, why: "no usable port"}
		}
		e := expect{why: "server-chosen"}
		if squatted == 0 {
			e.mustSucceed = true
		}
		if prev, ok := m.reserved[proto+"/"+name]; ok && !m.ambig[proto+"/"+name] && m.allowed[prev] && !m.owned(proto, prev) && !m.squat[fmt.Sprintf("%s/%d", proto, prev)] {
			e.port = prev
			e.mustSucceed = true
		}
		return e
	}

	apply := func(c *lcClient, name, proto string, port int, group, key string, resp M, got bool, ex expect) {
		w.Check("C09.registration-outcome")
		desc := fmt.Sprintf("%s reg %s %s port=%d group=%q", c.Name, name, proto, port, group)
		if !got {
			if c.IsClosed() {
				viol("outcome", "session-killed-by-registration", "%s: control connection closed instead of a reply; history: %v", desc, history)
			} else {
				viol("outcome", "no-reply", "%s: no NewProxyResp within 30 s; history: %v", desc, history)
			}
			return
		}
		errStr := mstr(resp, "error")
		if errStr != "" {
			if ex.mustSucceed {
				viol("outcome", "refused-"+strings.ReplaceAll(ex.why, " ", "-"), "%s refused (%s) although the model says it must succeed (%s); history: %v", desc, errStr, ex.why, history)
			}
			return
		}
		rp := portOf(mstr(resp, "remote_addr"))
		if ex.mustFail {
			viol("outcome", "accepted-"+strings.ReplaceAll(ex.why, " ", "-"), "%s accepted with %q although it must be refused (%s); history: %v", desc, mstr(resp, "remote_addr"), ex.why, history)
		}
		if ex.port != 0 && rp != ex.port && !ex.mustFail {
			viol("outcome", "wrong-port-"+strings.ReplaceAll(ex.why, " ", "-"), "%s: reported port %d, expected %d (%s); history: %v", desc, rp, ex.port, ex.why, history)
		}
		px := &pmProxy{name: name, owner: c, proto: proto, port: rp, group: group, reqPort: port}
		m.live[name] = px
		if g := m.groups[group]; group != "" && proto == "tcp" && g != nil && len(g.members) > 0 {
			// a member that joins an existing group shares the port the group's first member was given; the allocator
			// handed nothing to this name, so "its previous port" is not defined by the statement: no specific port
			// is demanded the next time this name asks for a server-chosen one
			m.ambig[proto+"/"+name] = true
		} else {
			m.reserved[proto+"/"+name] = rp
			delete(m.ambig, proto+"/"+name)
		}
		if group != "" && proto == "tcp" {
			g := m.groups[group]
			if g == nil || len(g.members) == 0 {
				g = &pmGroup{key: key, reqPort: port, port: rp, members: map[string]*pmProxy{}}
				m.groups[group] = g
			}
			g.members[name] = px
		}
	}

	unlive := func(name string) {
		p := m.live[name]
		if p == nil {
			return
		}
		delete(m.live, name)
		if p.group != "" {
			if g := m.groups[p.group]; g != nil {
				delete(g.members, name)
			}
		}
	}

	doReg := func(c *lcClient, name, proto string, port int, group, key string) {
		f := M{"proxy_name": name, "proxy_type": proto, "remote_port": port}
		if group != "" {
			f["group"], f["group_key"] = group, key
		}
		ex := decide(c, name, proto, port, group, key)
		hist("%s.reg(%s,%s,%d,%s)", c.Name, name, proto, port, group)
		resp, got := c.register(f)
		apply(c, name, proto, port, group, key, resp, got, ex)
		hist("  -> %s", jsonStr(resp))
	}

	// directed prelude: a name that was given a server-chosen port asks again while nothing at all is free (every
	// allowed port is owned by others or squatted) and is refused; once the ports are free again it asks a third
	// time - its previous port is free, so that is the port it must get
	if w.KnobBool("reservation_outlives_refusal", 35) {
		w.Probe("ports.reservation_outlives_refusal")
		proto := "tcp"
		if w.KnobBool("reservation.udp", 30) {
			proto = "udp"
		}
		x, occ := clients[0], clients[len(clients)-1]
		doReg(x, "resv", proto, 0, "", "")
		if m.live["resv"] != nil {
			hist("%s.close(resv)", x.Name)
			x.CloseProxy("resv")
			syncCtl(x)
			unlive("resv")
			checkInv("close")
			occupy := m.quota == 0 && w.KnobBool("reservation.occupy", 60)
			for i, port := range allowedList {
				if occupy {
					doReg(occ, fmt.Sprintf("occ%d", i), proto, port, "", "")
				} else {
					m.squat[fmt.Sprintf("%s/%d", proto, port)] = true
					w.Net.SquatPort(proto, fmt.Sprintf("10.0.0.1:%d", port), true)
					w.Net.Count("fault.squat", 1)
					hist("squat %s/%d", proto, port)
				}
			}
			for j := 0; j < w.KnobPick("reservation.refusals", 1, 1, 2); j++ {
				doReg(x, "resv", proto, 0, "", "")
			}
			checkInv("refused")
			for i, port := range allowedList {
				if occupy {
					name := fmt.Sprintf("occ%d", i)
					if m.live[name] != nil {
						hist("%s.close(%s)", occ.Name, name)
						occ.CloseProxy(name)
						unlive(name)
					}
				} else {
					delete(m.squat, fmt.Sprintf("%s/%d", proto, port))
					w.Net.SquatPort(proto, fmt.Sprintf("10.0.0.1:%d", port), false)
					hist("unsquat %s/%d", proto, port)
				}
			}
			syncCtl(occ)
			checkInv("released")
			doReg(x, "resv", proto, 0, "", "")
			checkInv("reg")
			if w.KnobBool("reservation.close_again", 50) && m.live["resv"] != nil {
				hist("%s.close(resv)", x.Name)
				x.CloseProxy("resv")
				syncCtl(x)
				unlive("resv")
			}
		}
	}

	for i := 0; i < nops; i++ {
		c := clients[r.Intn(len(clients))]
		if c.IsClosed() {
			viol("outcome", "session-lost", "session %s was closed by the server; history: %v", c.Name, history)
			return
		}
		switch k := r.Intn(20); {
		case k < 9: // register
			name := names[r.Intn(len(names))]
			proto := "tcp"
			if r.Intn(4) == 0 {
				proto = "udp"
			}
			group, key := "", ""
			if proto == "tcp" && r.Intn(4) == 0 {
				group = r.PickStr("g1", "g2")
				key = r.PickStr("k1", "k1", "k2")
			}
			doReg(c, name, proto, pickPort(), group, key)
			checkInv("reg")
		case k < 13: // close (own, foreign or unknown)
			name := names[r.Intn(len(names))]
			hist("%s.close(%s)", c.Name, name)
			c.CloseProxy(name)
			syncCtl(c)
			if p := m.live[name]; p != nil && p.owner == c {
				unlive(name)
			}
			checkInv("close")
		case k < 15: // squat / unsquat
			proto := r.PickStr("tcp", "tcp", "udp")
			p := allowedList[r.Intn(len(allowedList))]
			key := fmt.Sprintf("%s/%d", proto, p)
			if m.squat[key] {
				delete(m.squat, key)
				w.Net.SquatPort(proto, fmt.Sprintf("10.0.0.1:%d", p), false)
				hist("unsquat %s", key)
			} else if !m.owned(proto, p) {
				m.squat[key] = true
				w.Net.SquatPort(proto, fmt.Sprintf("10.0.0.1:%d", p), true)
				w.Net.Count("fault.squat", 1)
				hist("squat %s", key)
			}
		case k < 17: // drop the session and log in again
			// in a third of the drops registrations are still in flight when the connection goes away: whatever the
			// server does with them, nothing of a dead session may stay bound
			if r.Intn(3) == 0 {
				var sentNames []string
				for j := 0; j < r.Range(1, 3); j++ {
					name := names[r.Intn(len(names))]
					if m.live[name] != nil {
						continue
					}
					port := pickPort()
					if port <= 0 || !m.allowed[port] {
						port = 0
					}
					c.Send(tNewProxy, M{"proxy_name": name, "proxy_type": "tcp", "remote_port": port})
					m.ambig["tcp/"+name] = true // the dying session may or may not have been given a port under this name
					sentNames = append(sentNames, name)
				}
				hist("%s sends NewProxy for %v and drops at once", c.Name, sentNames)
				w.Probe("ports.drop_during_registration")
				if d := r.Intn(3); d > 0 {
					time.Sleep(time.Duration(d) * time.Millisecond)
				}
			}
			hist("%s.drop+relogin", c.Name)
			c.Drop()
			w.WaitUntil(20*time.Second, 50*time.Millisecond, func() bool { return c.ServerGone() })
			time.Sleep(300 * time.Millisecond)
			for n, p := range m.live {
				if p.owner == c {
					unlive(n)
				}
			}
			nc := c.fresh()
			if rr, err := nc.login(""); err != nil || mstr(rr, "error") != "" {
				viol("outcome", "relogin-failed", "login after drop failed: %v %v", err, rr)
				return
			}
			for j := range clients {
				if clients[j] == c {
					clients[j] = nc
				}
			}
			// the old session's teardown is not acknowledged by any message: allow a bounded settling time
			w.WaitUntil(5*time.Second, 50*time.Millisecond, func() bool {
				for proto, got := range map[string]map[int]bool{"tcp": env.frpsTCPPorts(), "udp": env.frpsUDPPorts()} {
					for p := range got {
						if !m.owned(proto, p) {
							return false
						}
					}
				}
				return true
			})
			checkInv("drop")
		case k < 19: // probe a live tcp proxy; or users of a live udp proxy send datagrams of any size, empty ones too
			var cands, ucands []*pmProxy
			for _, p := range m.live {
				if p.proto == "tcp" {
					cands = append(cands, p)
				} else if p.proto == "udp" {
					ucands = append(ucands, p)
				}
			}
			if len(ucands) > 0 && r.Intn(2) == 0 {
				sort.Slice(ucands, func(a, b int) bool { return ucands[a].name < ucands[b].name })
				p := ucands[r.Intn(len(ucands))]
				if uc, err := simnet.ListenUDP("udp", &net.UDPAddr{IP: net.ParseIP("10.0.3.200")}); err == nil {
					to := &net.UDPAddr{IP: net.ParseIP("10.0.0.1"), Port: p.port}
					for _, n := range []int{r.Range(1, 100), 0, r.Range(1, 1400), 0}[:r.Range(1, 4)] {
						uc.WriteToUDP(make([]byte, n), to)
					}
					uc.Close()
				}
				w.Probe("ports.udp_user_datagrams")
				hist("datagrams to udp :%d", p.port)
				if r.Intn(3) == 0 {
					// the owner closes the proxy while user datagrams keep arriving
					w.Probe("ports.udp_close_under_traffic")
					stopTraffic := make(chan struct{})
					var twg sync.WaitGroup
					twg.Add(1)
					port := p.port
					go func() {
						defer twg.Done()
						uc, err := simnet.ListenUDP("udp", &net.UDPAddr{IP: net.ParseIP("10.0.3.201")})
						if err != nil {
							return
						}
						defer uc.Close()
						to := &net.UDPAddr{IP: net.ParseIP("10.0.0.1"), Port: port}
						for i := 0; i < 400; i++ {
							select {
							case <-stopTraffic:
								return
							default:
							}
							uc.WriteToUDP([]byte("x"), to)
							time.Sleep(time.Duration(1+i%3) * 300 * time.Microsecond)
						}
					}()
					time.Sleep(time.Duration(r.Range(1, 30)) * time.Millisecond)
					hist("%s.close(%s) under traffic", p.owner.Name, p.name)
					p.owner.CloseProxy(p.name)
					syncCtl(p.owner)
					unlive(p.name)
					close(stopTraffic)
					twg.Wait()
					checkInv("close-under-udp-traffic")
					continue
				}
				time.Sleep(200 * time.Millisecond)
				checkInv("after-udp-traffic")
				continue
			}
			if len(cands) == 0 {
				continue
			}
			sort.Slice(cands, func(a, b int) bool { return cands[a].name < cands[b].name })
			p := cands[r.Intn(len(cands))]
			w.Check("C09.reported-address-serves")
			res := env.probeTCP(fmt.Sprintf("10.0.0.1:%d", p.port), 10*time.Second)
			hist("probe :%d -> %s %v", p.port, res.ServedBy, res.Err)
			if res.ServedBy == "" {
				viol("truthful", "reported-address-not-serving", "proxy %s reported port %d but a user connection there got %v; history: %v", p.name, p.port, res.Err, history)
			} else {
				ok := res.ServedBy == p.owner.Name+"/"+p.name
				if p.group != "" {
					if g := m.groups[p.group]; g != nil {
						for _, q := range g.members {
							if res.ServedBy == q.owner.Name+"/"+q.name {
								ok = true
							}
						}
					}
				}
				if !ok {
					viol("truthful", "reported-address-serves-other-proxy", "port %d was reported for %s/%s but a user connection there was served by %s; history: %v", p.port, p.owner.Name, p.name, res.ServedBy, history)
				}
			}
		default: // two clients race for the same free port
			if len(clients) < 2 {
				continue
			}
			var free []int
			for _, p := range allowedList {
				if !m.owned("tcp", p) && !m.squat[fmt.Sprintf("tcp/%d", p)] {
					free = append(free, p)
				}
			}
			var fn []string
			for _, n := range names {
				if m.live[n] == nil {
					fn = append(fn, n)
				}
			}
			if len(free) == 0 || len(fn) < 2 {
				continue
			}
			port := free[r.Intn(len(free))]
			c1, c2 := clients[0], clients[1]
			if m.quota > 0 && (m.sessionPorts(c1)+1 > m.quota || m.sessionPorts(c2)+1 > m.quota) {
				continue
			}
			hist("race %s.reg(%s) || %s.reg(%s) port %d", c1.Name, fn[0], c2.Name, fn[1], port)
			var wg sync.WaitGroup
			var r1, r2 M
			var g1, g2 bool
			wg.Add(2)
			go func() {
				defer wg.Done()
				r1, g1 = c1.register(M{"proxy_name": fn[0], "proxy_type": "tcp", "remote_port": port})
			}()
			go func() {
				defer wg.Done()
				r2, g2 = c2.register(M{"proxy_name": fn[1], "proxy_type": "tcp", "remote_port": port})
			}()
			wg.Wait()
			w.Check("C09.concurrent-exclusive")
			w.Probe("ports.race")
			s1 := g1 && mstr(r1, "error") == ""
			s2 := g2 && mstr(r2, "error") == ""
			hist("  -> %v %v", jsonStr(r1), jsonStr(r2))
			if s1 && s2 {
				viol("exclusive", "two-owners-one-port", "two concurrent registrations both obtained tcp port %d; history: %v", port, history)
			}
			if !s1 && !s2 {
				viol("outcome", "refused-free-under-race", "two concurrent registrations for free port %d were both refused: %v %v; history: %v", port, r1, r2, history)
			}
			if s1 {
				m.live[fn[0]] = &pmProxy{name: fn[0], owner: c1, proto: "tcp", port: port, reqPort: port}
				m.reserved["tcp/"+fn[0]] = port
				delete(m.ambig, "tcp/"+fn[0])
			}
			if s2 {
				m.live[fn[1]] = &pmProxy{name: fn[1], owner: c2, proto: "tcp", port: port, reqPort: port}
				m.reserved["tcp/"+fn[1]] = port
				delete(m.ambig, "tcp/"+fn[1])
			}
			checkInv("race")
		}
	}
	w.SetSample(map[string]any{"history": history})
	w.Nontrivial()
}
