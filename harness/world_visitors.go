package verifharness

import (
	"bytes"
	"encoding/json"
	"fmt"
	"io"
	"net"
	"time"

	libio "github.com/fatedier/golib/io"
)

// World "visitors" (C08): secret proxies admit only visitors holding the key and
// an allowed user.

func init() { RegisterWorld("visitors", worldVisitors) }

type secretProxy struct {
	name       string
	typ        string
	sk         string
	allowUsers []string // as configured (nil = default: owner's user only)
	owner      *lcClient
	enc, comp  bool
	live       bool
}

func (p *secretProxy) allowed(user string) bool {
	au := p.allowUsers
	if len(au) == 0 {
		au = []string{p.owner.user}
	}
	for _, u := range au {
		if u == user || u == "*" {
			return true
		}
	}
	return false
}

func worldVisitors(w *World) {
	token := "vis-token"
	tcpMux := w.KnobBool("tcp_mux", 50)
	scfg := map[string]any{
		"bindAddr": "10.0.0.1", "bindPort": 7000,
		"auth":            map[string]any{"token": token},
		"transport":       map[string]any{"tcpMux": tcpMux, "heartbeatTimeout": -1},
		"userConnTimeout": 3,
		// terse or detailed error texts: a refusal is an error reply either way
		"detailedErrorsToClient": w.KnobBool("detailed_errors", 50),
	}
	env := w.newLcEnv(scfg, token, PeerOpts{Server: "10.0.0.1:7000", Mux: tcpMux, Token: token})
	env.start()
	r := w.R
	viol := func(oracle, sig, f string, a ...any) { w.Violate("C08", oracle, sig, f, a...) }

	users := []string{"alice", "bob", "", "carol"}
	// owners
	var owners []*lcClient
	for i := 0; i < 2; i++ {
		c := env.newClient(users[i], 1)
		if rr, err := c.login(""); err != nil || mstr(rr, "error") != "" {
			w.Fail("owner login: %v %v", err, rr)
		}
		owners = append(owners, c)
	}
	// visitors' sessions (one per user)
	vis := map[string]*lcClient{}
	for _, u := range users {
		c := env.newClient(u, 0)
		if rr, err := c.login(""); err != nil || mstr(rr, "error") != "" {
			w.Fail("visitor login: %v %v", err, rr)
		}
		vis[u] = c
	}
	var proxies []*secretProxy
	np := w.KnobPick("nproxies", 1, 2, 3)
	for i := 0; i < np; i++ {
		p := &secretProxy{name: fmt.Sprintf("sp%d", i), typ: []string{"stcp", "stcp", "sudp", "xtcp"}[r.Intn(4)], sk: fmt.Sprintf("secret-%d-%x", i, r.U64()), owner: owners[r.Intn(len(owners))]}
		switch r.Intn(4) {
		case 0:
			p.allowUsers = nil
		case 1:
			p.allowUsers = []string{"*"}
		case 2:
			p.allowUsers = []string{users[r.Intn(len(users))]}
		default:
			p.allowUsers = []string{"bob", "carol"}
		}
		p.enc, p.comp = r.Bool(), r.Bool()
		f := M{"proxy_name": p.name, "proxy_type": p.typ, "sk": p.sk, "use_encryption": p.enc, "use_compression": p.comp}
		if p.allowUsers != nil {
			f["allow_users"] = p.allowUsers
		}
		if rr, got := p.owner.register(f); !got || mstr(rr, "error") != "" {
			w.Fail("register %s: %v", p.name, rr)
		}
		p.live = true
		proxies = append(proxies, p)
	}
	syncCtl := func(c *lcClient) {
		from := len(c.Inbox)
		c.Ping(true, token)
		c.WaitMsg(10*time.Second, func(m RecvMsg) bool { return m.Seq >= from && m.Type == tPong })
	}
	ownerSaw := func(p *secretProxy) int {
		p.owner.smu.Lock()
		defer p.owner.smu.Unlock()
		n := 0
		for _, s := range p.owner.Starts {
			if s.Proxy == p.name {
				n++
			}
		}
		return n
	}
	ownerSids := func(p *secretProxy) int {
		// NatHoleSid messages arrive on work connections of xtcp proxies; count StartWorkConn-less work conns is hard,
		// so count NatHoleResp/any nathole traffic on the owner's control instead
		n := 0
		p.owner.mu.Lock()
		for _, m := range p.owner.Inbox {
			if m.Type == tNatHoleResp {
				n++
			}
		}
		p.owner.mu.Unlock()
		return n
	}

	nattempts := w.KnobPick("nattempts", 6, 14, 30)
	for i := 0; i < nattempts; i++ {
		p := proxies[r.Intn(len(proxies))]
		user := users[r.Intn(len(users))]
		v := vis[user]
		ts := time.Now().Unix() + int64(r.Range(-5000, 5000))
		keyOK := r.Intn(3) != 0
		sign := authKey(p.sk, ts)
		if !keyOK {
			switch r.Intn(3) {
			case 0:
				sign = authKey("wrong-secret", ts)
			case 1:
				sign = authKey(p.sk, ts+1)
			default:
				sign = ""
			}
		}
		runID := v.RunID
		runIDKind := r.Intn(6)
		effUser := user
		switch runIDKind {
		case 0:
			runID = "" // legacy visitors without run id: the visitor's user is empty
			effUser = ""
		case 1:
			runID = fmt.Sprintf("%016x", r.U64()) // unknown
		case 2:
			runID = owners[0].RunID // someone else's session
			effUser = owners[0].user
		}
		name := p.name
		if r.Intn(8) == 0 {
			name = "no-such-proxy"
		}
		// occasionally close / re-open the proxy around the attempt
		if r.Intn(10) == 0 && p.live {
			p.owner.CloseProxy(p.name)
			syncCtl(p.owner)
			p.live = false
		} else if !p.live && r.Intn(2) == 0 {
			f := M{"proxy_name": p.name, "proxy_type": p.typ, "sk": p.sk, "use_encryption": p.enc, "use_compression": p.comp}
			if p.allowUsers != nil {
				f["allow_users"] = p.allowUsers
			}
			if rr, got := p.owner.register(f); got && mstr(rr, "error") == "" {
				p.live = true
			}
		}
		mustAdmit := keyOK && name == p.name && p.live && runIDKind != 1 && p.allowed(effUser)
		mayAdmit := mustAdmit
		before := ownerSaw(p)

		if p.typ == "xtcp" && r.Intn(2) == 0 {
			// NAT hole request on the visitor's control connection
			pre := r.Intn(2) == 0
			w.Check("C08.nathole-admission")
			from := len(v.Inbox)
			tid := fmt.Sprintf("t%d", i)
			v.Send(tNatHoleVisitor, M{"transaction_id": tid, "proxy_name": name, "pre_check": pre, "protocol": "quic",
				"sign_key": sign, "timestamp": ts, "mapped_addrs": []string{"1.2.3.4:5000", "1.2.3.4:5001"}, "assisted_addrs": []string{"10.0.1.9:5000"}})
			m, ok := v.WaitMsg(8*time.Second, func(m RecvMsg) bool { return m.Seq >= from && m.Type == tNatHoleResp })
			allowedUser := name == p.name && p.live && p.allowed(user)
			if pre {
				// pre-check does not carry a meaningful signature: only existence and allowed user are decided
				if ok {
					rr := M{}
					json.Unmarshal(m.Body, &rr)
					if mstr(rr, "error") == "" && !allowedUser {
						viol("nathole", "precheck-passed-disallowed-user", "pre-check for %s by user %q passed although allowed users are %v (owner user %q)", name, user, p.allowUsers, p.owner.user)
					}
				}
				continue
			}
			admit := keyOK && allowedUser
			time.Sleep(500 * time.Millisecond)
			// an admitted request makes the owner receive a session id over a work connection (it then times out, as our
			// owner does not answer); a refused one yields an immediate error response to the visitor
			gotErr := false
			if ok {
				rr := M{}
				json.Unmarshal(m.Body, &rr)
				gotErr = mstr(rr, "error") != ""
			}
			sawSid := natSidSeen(p.owner, p.name)
			if !admit {
				if sawSid > 0 {
					viol("nathole", "session-for-unauthorised-visitor", "NAT-hole request for %s (key ok=%v, user %q, allowed %v, owner user %q) reached the proxy's owner", name, keyOK, user, p.allowUsers, p.owner.user)
				} else if !gotErr {
					viol("nathole", "no-error-for-unauthorised-visitor", "NAT-hole request for %s (key ok=%v, user %q allowed=%v) got no error response", name, keyOK, user, allowedUser)
				}
			}
			resetNatSid(p.owner)
			_ = ownerSids
			continue
		}
		if p.typ == "sudp" || p.typ == "xtcp" {
			// visitor connections exist for stcp and sudp; xtcp is only reached through NAT-hole requests
			if p.typ == "xtcp" {
				continue
			}
		}
		// NewVisitorConn on a fresh connection
		w.Check("C08.visitor-admission")
		venc, vcomp := r.Bool(), r.Bool()
		conn, err := v.Connect()
		if err != nil {
			continue
		}
		writeMsg(conn, tNewVisitorConn, M{"run_id": runID, "proxy_name": name, "sign_key": sign, "timestamp": ts, "use_encryption": venc, "use_compression": vcomp})
		conn.SetReadDeadline(time.Now().Add(10 * time.Second))
		typ, body, err := readFrame(conn)
		conn.SetReadDeadline(time.Time{})
		rr := M{}
		json.Unmarshal(body, &rr)
		admitted := err == nil && typ == tNewVisitorConnResp && mstr(rr, "error") == ""
		desc := fmt.Sprintf("visitor conn for %s(%s) key ok=%v run-id kind=%d user=%q allowUsers=%v owner user=%q live=%v", name, p.typ, keyOK, runIDKind, effUser, p.allowUsers, p.owner.user, p.live)
		if admitted && !mayAdmit {
			viol("visitor", "unauthorised-visitor-admitted", "%s was admitted", desc)
		}
		if !admitted && mustAdmit {
			viol("visitor", "authorised-visitor-refused", "%s was refused: %v %v", desc, rr, err)
		}
		if !admitted {
			time.Sleep(300 * time.Millisecond)
			if ownerSaw(p) != before {
				viol("visitor", "refused-request-reached-owner", "%s was refused but the owner received a work-connection start", desc)
			}
			conn.Close()
			continue
		}
		if p.typ == "stcp" {
			// admitted stream is byte-transparent whatever each side declares
			w.Check("C08.admitted-stream-transparent")
			var rwc io.ReadWriteCloser = conn
			if venc {
				rwc, _ = libio.WithEncryption(rwc, []byte(p.sk))
			}
			if vcomp {
				rwc = libio.WithCompression(rwc)
			}
			payload := genStream(r, r.Range(1, 30000), r.Intn(4))
			done := make(chan error, 1)
			go func() {
				// the owner's work side speaks through the proxy's own encryption/compression; our scripted owner
				// does not implement those, so only plain proxies are exercised end to end here
				buf := make([]byte, len("ID "+p.owner.Name+"/"+p.name+"\n")+len(payload))
				conn.SetReadDeadline(time.Now().Add(20 * time.Second))
				_, err := io.ReadFull(rwc, buf)
				if err == nil && !bytes.HasSuffix(buf, payload) {
					err = fmt.Errorf("echo differs")
				}
				done <- err
			}()
			if !p.enc && !p.comp {
				rwc.Write(payload)
				if err := <-done; err != nil {
					viol("visitor", "admitted-stream-not-transparent", "%s: venc=%v vcomp=%v: %v", desc, venc, vcomp, err)
				}
			}
		}
		conn.Close()
		// let the owner's side of this admitted connection be recorded before the next attempt samples it
		w.WaitUntil(3*time.Second, 50*time.Millisecond, func() bool { return ownerSaw(p) > before })
	}
	// bystander effect: owners still alive
	for _, o := range owners {
		if o.IsClosed() {
			viol("visitor", "owner-session-closed", "owner session %s was closed during visitor traffic", o.Name)
		}
	}
	w.SetSample(map[string]any{"proxies": len(proxies), "attempts": nattempts})
	w.Nontrivial()
}

// natSidSeen counts NatHoleSid messages an owner received on its work connections for the proxy.
func natSidSeen(o *lcClient, proxy string) int {
	o.smu.Lock()
	defer o.smu.Unlock()
	return o.natSids
}

func resetNatSid(o *lcClient) {
	o.smu.Lock()
	o.natSids = 0
	o.smu.Unlock()
}

var _ = net.IPv4len
