package verifharness

import (
	"bytes"
	"encoding/binary"
	"encoding/json"
	"fmt"
	"net"
	"sort"
	"time"

	"verif/sim/simnet"
)

// World "codec" (C17): wire stability of the control protocol seen from an
// independent implementation, and framing faults against a live listener.

func init() { RegisterWorld("codec", worldCodec) }

// released JSON field names per message type
var wireKeys = map[byte][]string{
	tLogin:              {"version", "hostname", "os", "arch", "user", "privilege_key", "timestamp", "run_id", "metas", "client_spec", "pool_count"},
	tLoginResp:          {"version", "run_id", "error"},
	tNewProxy:           {"proxy_name", "proxy_type", "use_encryption", "use_compression", "bandwidth_limit", "bandwidth_limit_mode", "group", "group_key", "metas", "annotations", "remote_port", "custom_domains", "subdomain", "locations", "http_user", "http_pwd", "host_header_rewrite", "headers", "response_headers", "route_by_http_user", "sk", "allow_users", "multiplexer"},
	tNewProxyResp:       {"proxy_name", "remote_addr", "error"},
	tCloseProxy:         {"proxy_name"},
	tNewWorkConn:        {"run_id", "privilege_key", "timestamp"},
	tReqWorkConn:        {},
	tStartWorkConn:      {"proxy_name", "src_addr", "dst_addr", "src_port", "dst_port", "error"},
	tNewVisitorConn:     {"run_id", "proxy_name", "sign_key", "timestamp", "use_encryption", "use_compression"},
	tNewVisitorConnResp: {"proxy_name", "error"},
	tPing:               {"privilege_key", "timestamp"},
	tPong:               {"error"},
	tUDPPacket:          {"c", "l", "r"},
	tNatHoleVisitor:     {"transaction_id", "proxy_name", "pre_check", "protocol", "sign_key", "timestamp", "mapped_addrs", "assisted_addrs"},
	tNatHoleClient:      {"transaction_id", "proxy_name", "sid", "mapped_addrs", "assisted_addrs"},
	tNatHoleResp:        {"transaction_id", "sid", "protocol", "candidate_addrs", "assisted_addrs", "detect_behavior", "error"},
	tNatHoleSid:         {"transaction_id", "sid", "response", "nonce"},
	tNatHoleReport:      {"sid", "success"},
}

// checkWireFrame validates one frame frp emitted against the released protocol.
func checkWireFrame(w *World, prop string, typ byte, body []byte, where string) {
	w.Check(prop + ".wire-frame")
	keys, ok := wireKeys[typ]
	if !ok {
		w.Violate(prop, "wire", "unregistered-type-byte", "%s: frp emitted a frame with unregistered type byte %q", where, typ)
		return
	}
	if len(body) > maxMsgLen {
		w.Violate(prop, "wire", "frame-too-long", "%s: frp emitted a %d byte body for type %q", where, len(body), typ)
	}
	var m map[string]json.RawMessage
	if err := json.Unmarshal(body, &m); err != nil {
		w.Violate(prop, "wire", "body-not-json-object", "%s: type %q body is not a JSON object: %v", where, typ, err)
		return
	}
	allowed := map[string]bool{}
	for _, k := range keys {
		allowed[k] = true
	}
	var unknown []string
	for k := range m {
		if !allowed[k] {
			unknown = append(unknown, k)
		}
	}
	if len(unknown) > 0 {
		sort.Strings(unknown)
		w.Violate(prop, "wire", fmt.Sprintf("unreleased-field-%c", typ), "%s: type %q carries fields %v that are not part of the released protocol", where, typ, unknown)
	}
}

func worldCodec(w *World) {
	token := "codec-token"
	tcpMux := w.KnobBool("tcp_mux", 40)
	scfg := map[string]any{
		"bindAddr": "10.0.0.1", "bindPort": 7000,
		"auth":            map[string]any{"token": token},
		"transport":       map[string]any{"tcpMux": tcpMux, "heartbeatTimeout": -1},
		"allowPorts":      []map[string]any{{"start": 20000, "end": 20009}},
		"userConnTimeout": 3,
	}
	env := w.newLcEnv(scfg, token, PeerOpts{Server: "10.0.0.1:7000", Mux: tcpMux, Token: token})
	env.start()
	r := w.R
	viol := func(oracle, sig, f string, a ...any) { w.Violate("C17", oracle, sig, f, a...) }

	honest := env.newClient("honest", 1)
	if rr, err := honest.login(""); err != nil || mstr(rr, "error") != "" {
		viol("interop", "login-not-understood", "a login encoded by the independent codec was not accepted: %v %v", err, rr)
		return
	}
	if rr, got := honest.register(M{"proxy_name": "hp", "proxy_type": "tcp", "remote_port": 20000}); !got || mstr(rr, "error") != "" {
		viol("interop", "newproxy-not-understood", "NewProxy encoded by the independent codec was not accepted: %v", rr)
		return
	}
	checkHonest := func(when string) {
		w.Check("C17.other-sessions-unaffected")
		res := env.probeTCP("10.0.0.1:20000", 10*time.Second)
		if honest.IsClosed() || res.ServedBy != honest.Name+"/hp" {
			viol("isolation", "other-session-affected-"+when, "%s: the honest session no longer serves (%q %v closed=%v)", when, res.ServedBy, res.Err, honest.IsClosed())
		}
	}
	checkHonest("baseline")
	// every frame frps sent so far follows the released wire format
	monitor := func(c *lcClient) {
		c.mu.Lock()
		msgs := append([]RecvMsg{}, c.Inbox...)
		c.mu.Unlock()
		c.smu.Lock()
		msgs = append(msgs, c.WorkFrames...)
		c.smu.Unlock()
		for _, m := range msgs {
			checkWireFrame(w, "C17", m.Type, m.Body, "frps -> "+c.Name)
		}
	}

	// a transport-level connection on which raw bytes can be written
	rawConn := func() (net.Conn, *lcClient) {
		c := env.newClient("raw", 0)
		conn, err := c.Connect()
		if err != nil {
			return nil, c
		}
		return conn, c
	}
	loginFrame := func() []byte {
		ts := time.Now().Unix()
		b, _ := json.Marshal(M{"version": "0.62.0", "user": "chunky", "timestamp": ts, "privilege_key": authKey(token, ts), "pool_count": 0})
		f := make([]byte, 9+len(b))
		f[0] = tLogin
		binary.BigEndian.PutUint64(f[1:9], uint64(len(b)))
		copy(f[9:], b)
		return f
	}
	closedWithin := func(conn net.Conn, d time.Duration) (bool, time.Duration, string) {
		t0 := w.Net.Now()
		conn.SetReadDeadline(time.Now().Add(d))
		typ, body, err := readFrame(conn)
		el := w.Net.Now() - t0
		if err == nil {
			return false, el, fmt.Sprintf("got a reply %q %s", typ, body)
		}
		if ne, ok := err.(net.Error); ok && ne.Timeout() {
			return false, el, "still open"
		}
		return true, el, err.Error()
	}

	ncases := w.KnobPick("ncases", 6, 12, 24)
	for i := 0; i < ncases; i++ {
		switch k := r.Intn(10); k {
		case 0: // arbitrary chunking of a valid login, down to one byte per write
			w.Check("C17.chunked-login-accepted")
			conn, _ := rawConn()
			if conn == nil {
				continue
			}
			f := loginFrame()
			for off := 0; off < len(f); {
				n := 1 + r.Intn(r.Pick(1, 1, 3, 17, 200))
				if off+n > len(f) {
					n = len(f) - off
				}
				conn.Write(f[off : off+n])
				off += n
				if r.Intn(4) == 0 {
					time.Sleep(time.Duration(r.Range(1, 300)) * time.Millisecond)
				}
			}
			conn.SetReadDeadline(time.Now().Add(15 * time.Second))
			typ, body, err := readFrame(conn)
			rr := M{}
			json.Unmarshal(body, &rr)
			if err != nil || typ != tLoginResp || mstr(rr, "error") != "" {
				viol("framing", "chunked-login-refused", "a valid login written in small chunks was not accepted: %v %q %s", err, typ, body)
			} else {
				checkWireFrame(w, "C17", typ, body, "LoginResp")
			}
			conn.Close()
		case 1: // EOF at an arbitrary offset of a valid frame
			w.Check("C17.truncated-frame")
			conn, _ := rawConn()
			if conn == nil {
				continue
			}
			f := loginFrame()
			cut := r.Intn(len(f))
			conn.Write(f[:cut])
			if sc, ok := conn.(*simnet.Conn); ok && r.Intn(2) == 0 {
				sc.CloseWrite()
				if ok, el, how := closedWithin(conn, 15*time.Second); !ok {
					viol("framing", "truncated-frame-kept-open", "frame cut at offset %d then EOF: connection %s after %v", cut, how, el)
				}
			} else if cut > 0 && r.Intn(2) == 0 {
				// the peer stalls in the middle of its first message: disconnected in bounded time, not held for ever
				w.Check("C17.stalled-first-message")
				if ok, el, how := closedWithin(conn, 60*time.Second); !ok {
					viol("framing", "stalled-first-message-kept-open", "first message cut at offset %d of %d, then silence: connection %s after %v", cut, len(f), how, el)
				}
			}
			conn.Close()
		case 2: // unknown type byte
			w.Check("C17.unknown-type")
			conn, _ := rawConn()
			if conn == nil {
				continue
			}
			tb := byte(r.Intn(256))
			if _, known := wireKeys[tb]; known {
				tb = 'Z'
			}
			writeFrame(conn, tb, []byte(`{}`))
			if ok, el, how := closedWithin(conn, 12*time.Second); !ok {
				viol("framing", "unknown-type-not-closed", "frame with unknown type byte %#x: connection %s after %v", tb, how, el)
			}
			conn.Close()
		case 3: // negative or oversized length: must be refused without waiting for the announced body
			w.Check("C17.bad-length-refused-without-body")
			conn, _ := rawConn()
			if conn == nil {
				continue
			}
			var l uint64
			switch r.Intn(4) {
			case 0:
				l = maxMsgLen + 1
			case 1:
				l = 1 << 40
			case 2:
				l = ^uint64(0) // -1
			default:
				l = 1 << 63
			}
			h := make([]byte, 9)
			h[0] = []byte{tLogin, tNewWorkConn, tNewVisitorConn}[r.Intn(3)]
			binary.BigEndian.PutUint64(h[1:], l)
			conn.Write(h)
			// send a little of the "body": a decoder that reads past the header would wait for more
			conn.Write([]byte(`{"version":`))
			ok, el, how := closedWithin(conn, 9*time.Second)
			if !ok {
				viol("framing", "bad-length-waits-for-body", "header announcing length %d: connection %s after %v (the server waits for the announced body)", int64(l), how, el)
			} else if el > 2*time.Second {
				viol("framing", "bad-length-closed-late", "header announcing length %d: closed only after %v", int64(l), el)
			}
			conn.Close()
		case 4: // malformed body with a plausible length
			w.Check("C17.malformed-body")
			conn, _ := rawConn()
			if conn == nil {
				continue
			}
			bodies := []string{`{`, `[]`, `"x"`, `{"version":1}`, `{"pool_count":"x"}`, `{"timestamp":1e400}`, "\xff\xfe\x00", `{"metas":{"a":1}}`, `null`}
			writeFrame(conn, tLogin, []byte(bodies[r.Intn(len(bodies))]))
			if ok, el, how := closedWithin(conn, 12*time.Second); !ok && how == "still open" {
				viol("framing", "malformed-body-kept-open", "malformed login body: connection %s after %v", how, el)
			}
			conn.Close()
		case 5: // bad frames on an established, encrypted control connection kill that session only
			w.Check("C17.bad-frame-on-session")
			c := env.newClient("victim", 0)
			if rr, err := c.login(""); err != nil || mstr(rr, "error") != "" {
				continue
			}
			switch r.Intn(3) {
			case 0:
				c.SendRawFrame('Z', []byte(`{}`))
			case 1:
				h := make([]byte, 9)
				h[0] = tPing
				binary.BigEndian.PutUint64(h[1:], 1<<30)
				c.rw.Write(h)
			default:
				c.SendRawFrame(tNewProxy, []byte(`{"proxy_name":`))
			}
			if !c.WaitClosed(12 * time.Second) {
				viol("framing", "bad-frame-session-kept", "a session that sent a malformed frame on its control connection is still open after 12 s")
			}
			monitor(c)
			c.Drop()
		case 6: // golden client->server frames are understood
			w.Check("C17.golden-frames-understood")
			c := env.newClient("golden", 0)
			if rr, err := c.login(""); err != nil || mstr(rr, "error") != "" {
				viol("interop", "login-not-understood", "login refused: %v %v", err, rr)
				continue
			}
			port := 20001 + r.Intn(8)
			rr, got := c.NewProxy(M{"proxy_name": fmt.Sprintf("g%d", i), "proxy_type": "tcp", "use_encryption": false, "use_compression": false,
				"bandwidth_limit": "1MB", "bandwidth_limit_mode": "client", "metas": M{"k": "v"}, "annotations": M{"a": "b"}, "remote_port": port}, 10*time.Second)
			if !got || (mstr(rr, "error") != "" && mstr(rr, "remote_addr") == "") && !env.frpsTCPPorts()[port] {
				// a port conflict with an earlier case is fine; anything else means the frame was not understood
				if got && mstr(rr, "error") != "" && (containsStr(mstr(rr, "error"), "port") || containsStr(mstr(rr, "error"), "exist")) {
				} else {
					viol("interop", "newproxy-not-understood", "golden NewProxy frame not understood: %v", rr)
				}
			}
			from := len(c.Inbox)
			c.Send(tPing, M{"privilege_key": authKey(token, 1), "timestamp": 1})
			if _, ok := c.WaitMsg(10*time.Second, func(m RecvMsg) bool { return m.Seq >= from && m.Type == tPong }); !ok {
				viol("interop", "ping-not-understood", "golden Ping frame got no Pong")
			}
			c.Send(tCloseProxy, M{"proxy_name": fmt.Sprintf("g%d", i)})
			c.Send(tNatHoleReport, M{"sid": "nosuch", "success": true})
			c.Send(tNatHoleClient, M{"transaction_id": "t", "proxy_name": "x", "sid": "nosuch", "mapped_addrs": []string{"1.2.3.4:1"}, "assisted_addrs": []string{}})
			from = len(c.Inbox)
			c.Send(tNatHoleVisitor, M{"transaction_id": "tv", "proxy_name": "nosuch", "pre_check": true, "protocol": "quic", "sign_key": "", "timestamp": 1, "mapped_addrs": []string{}, "assisted_addrs": []string{}})
			if _, ok := c.WaitMsg(10*time.Second, func(m RecvMsg) bool { return m.Seq >= from && m.Type == tNatHoleResp }); !ok {
				viol("interop", "natholevisitor-not-understood", "golden NatHoleVisitor frame got no NatHoleResp")
			}
			monitor(c)
			c.Drop()
		case 7: // nothing is read past the first frame: what follows it in the same write belongs to the next layer
			w.Check("C17.first-frame-not-overread")
			conn, _ := rawConn()
			if conn == nil {
				continue
			}
			var tail bytes.Buffer
			cw := newCtlCipher(&bufOnlyConn{Conn: conn, w: &tail}, token)
			pts := time.Now().Unix()
			writeMsg(cw, tPing, M{"privilege_key": authKey(token, pts), "timestamp": pts}) // IV + encrypted Ping, into the buffer
			all := append(loginFrame(), tail.Bytes()...)
			conn.Write(all) // one write: Login, then the beginning of the encrypted control stream
			conn.SetReadDeadline(time.Now().Add(15 * time.Second))
			typ, body, err := readFrame(conn)
			rr := M{}
			json.Unmarshal(body, &rr)
			if err != nil || typ != tLoginResp || mstr(rr, "error") != "" {
				viol("framing", "pipelined-login-refused", "a login followed at once by the control stream was not accepted: %v %q %s", err, typ, body)
				conn.Close()
				continue
			}
			cr := newCtlCipher(conn, token)
			got := false
			for k := 0; k < 6 && !got; k++ { // the server may send ReqWorkConn first
				t2, _, err := readFrame(cr)
				if err != nil {
					break
				}
				got = t2 == tPong
			}
			if !got {
				viol("framing", "bytes-after-first-frame-consumed", "Login and the first %d bytes of the control stream were written together; the login was accepted but the Ping that followed it was never answered: the server read past the first frame", tail.Len())
			}
			conn.Close()
		case 8: // a first message that looks like the start of a TLS handshake and then stalls
			w.Check("C17.stalled-tls-first-message")
			w.Probe("codec.stalled_tls_hello")
			raw, err := simnet.DialFrom("10.0.5.9", "10.0.0.1:7000", 10*time.Second)
			if err != nil {
				continue
			}
			hello := clientHelloFor("frps.example.test")
			cut := r.Range(10, len(hello)-1)
			if r.Intn(3) == 0 {
				cut = r.Range(10, 16)
			}
			var first []byte
			if r.Intn(2) == 0 {
				first = []byte{0x17} // the head byte frp's own TLS announces itself with
			}
			raw.Write(append(first, hello[:cut]...))
			t0 := w.Net.Now()
			// meanwhile everybody else is served as usual, peers that speak TLS included
			for j := 0; j < r.Range(1, 3); j++ {
				tp := w.NewPeer(fmt.Sprintf("tls%d-%d", i, j), fmt.Sprintf("10.0.6.%d", 1+(i*4+j)%250), PeerOpts{Server: "10.0.0.1:7000", Mux: tcpMux, Token: token, TLS: true, CustomByte: r.Intn(2) == 0})
				t1 := w.Net.Now()
				rr, err := tp.Login("tlsuser", "", 0)
				if err != nil || mstr(rr, "error") != "" {
					viol("isolation", "tls-peers-held-up-by-stalled-hello", "while a connection that sent %d bytes of a TLS hello stays silent, a TLS login of another peer failed after %v: %v %v", cut, w.Net.Now()-t1, err, rr)
					tp.Drop()
					break
				}
				tp.Drop()
			}
			checkHonest("during-stalled-tls-hello")
			left := 60*time.Second - (w.Net.Now() - t0)
			if left < time.Second {
				left = time.Second
			}
			raw.SetReadDeadline(time.Now().Add(left))
			if _, err := raw.Read(make([]byte, 64)); err != nil {
				if ne, ok := err.(net.Error); ok && ne.Timeout() {
					viol("framing", "stalled-tls-first-message-kept-open", "%d bytes of a TLS hello, then silence: the connection is still open after 60 s", cut)
				}
			}
			raw.Close()
		default:
			checkHonest("mid")
		}
	}
	checkHonest("after")
	monitor(honest)
	// datagram frames: a udp proxy owned by a scripted (released-protocol) client; payload lengths of every residue
	// modulo 3, because the content travels base64-encoded
	if w.KnobBool("udp_frames", 60) {
		w.Check("C17.udp-frames-interoperate")
		uc := env.newClient("udpc", 1)
		uc.UDPEcho = true
		if rr, err := uc.login(""); err == nil && mstr(rr, "error") == "" {
			if rr, got := uc.register(M{"proxy_name": "ud", "proxy_type": "udp", "remote_port": 20009}); got && mstr(rr, "error") == "" {
				usock, err := simnet.ListenUDP("udp", &net.UDPAddr{IP: net.ParseIP("10.0.3.77")})
				if err == nil {
					pub, _ := simnet.ResolveUDPAddr("udp", "10.0.0.1:20009")
					ur := newSubRand(w, "udpframes")
					want := map[string]bool{}
					for n := 1; n <= 8; n++ {
						p := make([]byte, ur.Range(1, 40))
						ur.Fill(p)
						p[0] = byte(n)
						want[string(append([]byte{'R'}, p...))] = true
						usock.WriteToUDP(p, pub)
						time.Sleep(150 * time.Millisecond)
					}
					got := map[string]bool{}
					buf := make([]byte, 2048)
					for len(got) < len(want) {
						usock.SetReadDeadline(time.Now().Add(5 * time.Second))
						n, _, err := usock.ReadFromUDP(buf)
						if err != nil {
							break
						}
						got[string(buf[:n])] = true
					}
					usock.Close()
					uc.smu.Lock()
					bad, seen := append([]string{}, uc.UDPBad...), len(uc.UDPGot)
					uc.smu.Unlock()
					if len(bad) > 0 {
						viol("wire", "udp-content-not-released-encoding", "a released peer cannot decode the content of %d datagram frame(s) frps sent (padded standard base64 expected): %v", len(bad), bad[0])
					} else if seen == 0 {
						viol("interop", "udp-frames-not-received", "no datagram frame reached the scripted owner of the udp proxy")
					} else {
						miss := 0
						for k := range want {
							if !got[k] {
								miss++
							}
						}
						if miss > 0 {
							viol("interop", "udp-replies-not-understood", "%d of %d replies sent as released-format datagram frames never reached the user", miss, len(want))
						}
					}
				}
				monitor(uc)
			}
		}
		uc.Drop()
	}
	// work-connection frames
	honest.smu.Lock()
	n := len(honest.Starts)
	honest.smu.Unlock()
	if n == 0 {
		viol("interop", "startworkconn-not-seen", "no StartWorkConn frame was decodable on the honest client's work connections")
	}
	w.SetSample(map[string]any{"cases": ncases, "mux": tcpMux})
	w.Nontrivial()
}

func containsStr(s, sub string) bool {
	return len(sub) == 0 || (len(s) >= len(sub) && (func() bool {
		for i := 0; i+len(sub) <= len(s); i++ {
			if s[i:i+len(sub)] == sub {
				return true
			}
		}
		return false
	})())
}

// bufOnlyConn diverts writes into a buffer (reads still come from the connection).
type bufOnlyConn struct {
	net.Conn
	w *bytes.Buffer
}

func (b *bufOnlyConn) Write(p []byte) (int, error) { return b.w.Write(p) }
