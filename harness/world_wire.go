package verifharness

import (
	"bufio"
	"bytes"
	"crypto/tls"
	"crypto/x509"
	"encoding/base64"
	"encoding/hex"
	"fmt"
	"io"
	"net"
	"os"
	"strings"
	"sync"
	"time"

	"verif/sim/simnet"
)

// World "wire" (C05): configured encryption really protects the wire; TLS identity rules.

func init() { RegisterWorld("wire", worldWire) }

func marker(w *World, name string) string {
	r := simnet.NewRand(w.In.Seed, "marker:"+name)
	b := make([]byte, 18)
	r.Fill(b)
	return "MK" + name + hex.EncodeToString(b)
}

func worldWire(w *World) {
	if w.KnobBool("policy_scenario", 40) {
		wirePolicy(w)
		return
	}
	viol := func(oracle, sig, f string, a ...any) { w.Violate("C05", oracle, sig, f, a...) }
	r := w.R
	token := marker(w, "tok")
	if w.KnobBool("no_token", 20) {
		token = "" // no shared token configured (the default): the registrations' secrets are owed the same protection
	}
	sk := marker(w, "sk")
	httpPwd := marker(w, "pw")
	payloadMk := marker(w, "pay")
	nameMk := strings.ToLower(marker(w, "nm"))
	tlsOn := w.KnobBool("tls", 55)
	custom := w.KnobBool("tls_custom_first_byte", 40)
	tcpMux := w.KnobBool("tcp_mux", 60)
	proto := []string{"tcp", "tcp", "websocket", "quic"}[w.Knob("protocol", 0, 3)]
	enc := w.KnobBool("proxy_enc", 50)
	comp := w.KnobBool("proxy_comp", 30)
	scfg := map[string]any{"bindAddr": "10.0.0.1", "bindPort": 7000, "vhostHTTPPort": 8080,
		"auth": map[string]any{"token": token}, "transport": map[string]any{"tcpMux": tcpMux},
		"allowPorts": []map[string]any{{"start": 20000, "end": 20009}}}
	if w.In.CertDir != "" && w.KnobBool("frps_cert_files", 70) {
		scfg["transport"].(map[string]any)["tls"] = map[string]any{"certFile": w.In.CertDir + "/server.crt", "keyFile": w.In.CertDir + "/server.key"}
	}
	tap := w.Net.TapListener("10.0.0.1:7000", 64<<20)
	// QUIC: the clients reach the server's quic port; what crosses the path are datagrams, all of them recorded.
	// QUIC carries its own TLS 1.3, whatever transport.tls says: nothing may be readable.
	srvPort := 7000
	var qmu sync.Mutex
	var quicWire bytes.Buffer
	if proto == "quic" {
		scfg["quicBindPort"] = 7001
		srvPort = 7001
		tlsOn = true
		simnet.UDPDeliverHook = func(to string, from *net.UDPAddr, data []byte) {
			if to == "10.0.0.1:7001" || (from != nil && from.String() == "10.0.0.1:7001") {
				qmu.Lock()
				quicWire.Write(data)
				quicWire.WriteByte(0)
				qmu.Unlock()
			}
		}
	}
	if _, err := w.StartFrps(w.Frps, scfg); err != nil {
		w.Fail("frps: %v", err)
	}
	ptr := map[string]any{"useEncryption": enc, "useCompression": comp}
	// a bandwidth limit adds another wrapper around the work connection on the client or the server side:
	// whatever else is stacked there, the encryption must stay in the stack
	if lim := w.Knob("bandwidth_limit_mode", 0, 2); lim > 0 {
		ptr["bandwidthLimit"] = "1MB"
		ptr["bandwidthLimitMode"] = []string{"", "client", "server"}[lim]
	}
	proxies := []map[string]any{
		{"name": nameMk + "-tcp", "type": "tcp", "localIP": "127.0.0.1", "localPort": 9600, "remotePort": 20001, "transport": ptr},
		{"name": nameMk + "-stcp", "type": "stcp", "localIP": "127.0.0.1", "localPort": 9600, "secretKey": sk, "transport": ptr},
		{"name": nameMk + "-http", "type": "http", "localIP": "127.0.0.1", "localPort": 9600, "customDomains": []string{nameMk + ".example.test"}, "httpUser": "u", "httpPassword": httpPwd, "transport": ptr},
	}
	ctr := map[string]any{"protocol": proto, "tcpMux": tcpMux, "connectServerLocalIP": "10.0.1.1", "poolCount": w.KnobPick("pool", 0, 1, 2),
		"tls": map[string]any{"enable": tlsOn, "disableCustomTLSFirstByte": !custom}}
	c1 := w.Net.NewNode("frpc1", "10.0.1.1")
	if _, err := w.StartFrpc(c1, map[string]any{"serverAddr": "10.0.0.1", "serverPort": srvPort, "loginFailExit": false, "user": "usr",
		"auth": map[string]any{"token": token}, "transport": ctr, "proxies": proxies}); err != nil {
		w.Fail("frpc: %v", err)
	}
	ctr2 := map[string]any{}
	for k, v := range ctr {
		ctr2[k] = v
	}
	ctr2["connectServerLocalIP"] = "10.0.1.2"
	c2 := w.Net.NewNode("frpc2", "10.0.1.2")
	if _, err := w.StartFrpc(c2, map[string]any{"serverAddr": "10.0.0.1", "serverPort": srvPort, "loginFailExit": false, "user": "usr",
		"auth": map[string]any{"token": token}, "transport": ctr2,
		"visitors": []map[string]any{{"name": "v", "type": "stcp", "serverName": nameMk + "-stcp", "secretKey": sk, "bindAddr": "10.0.1.2", "bindPort": 6600,
			"transport": map[string]any{"useEncryption": enc, "useCompression": false}}}}); err != nil {
		w.Fail("visitor frpc: %v", err)
	}
	// echo backend that also speaks minimal HTTP
	ln, _ := w.Net.Listen("tcp", "127.0.0.1:9600")
	w.Backend.Go(func() {
		for {
			c, err := ln.Accept()
			if err != nil {
				return
			}
			go func() {
				defer c.Close()
				br := bufio.NewReader(c)
				pk, _ := br.Peek(4)
				if string(pk) == "GET " {
					for {
						l, err := br.ReadString('\n')
						if err != nil || l == "\r\n" {
							break
						}
					}
					body := "http-ok " + payloadMk
					fmt.Fprintf(c, "HTTP/1.1 200 OK\r\nContent-Length: %d\r\nConnection: close\r\n\r\n%s", len(body), body)
					return
				}
				io.Copy(c, br)
			}()
		}
	})
	name := "usr." + nameMk
	if !w.WaitUntil(60*time.Second, 100*time.Millisecond, func() bool {
		return w.FrpLogContains("["+name+"-tcp] start proxy success") && w.FrpLogContains("["+name+"-stcp] start proxy success") && w.FrpLogContains("["+name+"-http] start proxy success")
	}) {
		viol("startup", "proxy-not-up", "proxies not up in 60 s (tls=%v custom=%v proto=%s mux=%v)", tlsOn, custom, proto, tcpMux)
		return
	}
	time.Sleep(time.Second)
	// traffic carrying the payload marker in both directions
	echo := func(addr string) bool {
		conn, err := simnet.DialFrom("10.0.3.70", addr, 10*time.Second)
		if err != nil {
			return false
		}
		defer conn.Close()
		msg := []byte(strings.Repeat(payloadMk+"|", r.Range(1, 40)))
		conn.Write(msg)
		conn.SetReadDeadline(time.Now().Add(20 * time.Second))
		buf := make([]byte, len(msg))
		_, err = io.ReadFull(conn, buf)
		return err == nil && bytes.Equal(buf, msg)
	}
	okT := echo("10.0.0.1:20001")
	okS := echo("10.0.1.2:6600")
	okH := false
	if conn, err := simnet.DialFrom("10.0.3.71", "10.0.0.1:8080", 10*time.Second); err == nil {
		fmt.Fprintf(conn, "GET /%s HTTP/1.1\r\nHost: %s.example.test\r\nAuthorization: Basic %s\r\nX-Pay: %s\r\nConnection: close\r\n\r\n", payloadMk, nameMk,
			base64.StdEncoding.EncodeToString([]byte("u:"+httpPwd)), payloadMk)
		conn.SetReadDeadline(time.Now().Add(20 * time.Second))
		b, _ := io.ReadAll(conn)
		okH = bytes.Contains(b, []byte("http-ok "+payloadMk))
		conn.Close()
	}
	if !okT || !okS || !okH {
		viol("traffic", "tunnel-not-working", "traffic through the tunnels failed (tcp=%v stcp=%v http=%v; tls=%v enc=%v comp=%v proto=%s mux=%v)", okT, okS, okH, tlsOn, enc, comp, proto, tcpMux)
		// what did cross the path is searched all the same
	}
	time.Sleep(2 * time.Second)
	// everything that crossed the path between the clients and the server
	var all bytes.Buffer
	for _, ch := range tap.Chunks {
		all.Write(ch.Data)
		all.WriteByte(0)
	}
	wire := all.Bytes()
	qmu.Lock()
	wire = append(wire, quicWire.Bytes()...)
	qmu.Unlock()
	if proto == "quic" {
		w.Probe("wire.quic_transport")
		if quicWire.Len() == 0 {
			viol("traffic", "nothing-recorded-on-quic-path", "the clients use QUIC but no datagram was seen between them and the server's quic port")
		}
	}
	// also the concatenated per-connection streams (a marker may straddle two writes)
	for _, id := range tap.Conns() {
		wire = append(wire, tap.Stream(id, 0)...)
		wire = append(wire, 0)
		wire = append(wire, tap.Stream(id, 1)...)
		wire = append(wire, 0)
	}
	has := func(s string) bool {
		return bytes.Contains(wire, []byte(s)) || bytes.Contains(wire, []byte(base64.StdEncoding.EncodeToString([]byte(s))))
	}
	cfgDesc := fmt.Sprintf("tls=%v custom-first-byte=%v protocol=%s mux=%v proxy-encryption=%v compression=%v", tlsOn, custom, proto, tcpMux, enc, comp)
	w.Check("C05.secrets-never-in-clear")
	if token != "" && has(token) {
		viol("secrets", "token-in-clear", "the authentication token crossed the client-server path in clear (%s)", cfgDesc)
	}
	if has(sk) {
		viol("secrets", "secret-key-in-clear", "a proxy secret key crossed the client-server path in clear (%s)", cfgDesc)
	}
	if has(httpPwd) {
		// the user's own Authorization header travels inside the tunnelled payload: that is payload, not the registration.
		// the registration's password must not be visible when the payload is protected
		if tlsOn || enc {
			viol("secrets", "http-password-in-clear", "the http password crossed the client-server path in clear (%s)", cfgDesc)
		} else if bytes.Contains(wire, []byte(`"http_pwd":"`+httpPwd)) {
			viol("secrets", "http-password-in-clear-registration", "the registration's http password crossed the path in clear (%s)", cfgDesc)
		}
	}
	if tlsOn {
		w.Check("C05.tls-hides-everything")
		if has(payloadMk) {
			viol("tls", "payload-in-clear-with-tls", "tunnelled payload appears in clear although TLS is on (%s)", cfgDesc)
		}
		if has(nameMk) {
			viol("tls", "control-content-in-clear-with-tls", "control-message content (a proxy name) appears in clear although TLS is on (%s)", cfgDesc)
		}
	}
	if enc {
		w.Check("C05.proxy-encryption-hides-payload")
		if has(payloadMk) {
			viol("encryption", "payload-in-clear-with-proxy-encryption", "tunnelled payload appears in clear although the proxies enable encryption (%s)", cfgDesc)
		}
	}
	w.SetSample(map[string]any{"config": cfgDesc, "wire_bytes": tap.Bytes + quicWire.Len(), "conns": len(tap.Conns())})
	w.Nontrivial()
}

// wirePolicy: forced TLS, trusted CA on the server, trusted CA + server name on the client.
func wirePolicy(w *World) {
	viol := func(oracle, sig, f string, a ...any) { w.Violate("C05", oracle, sig, f, a...) }
	r := w.R
	token := "policy-token"
	if w.In.CertDir == "" {
		w.Fail("no cert dir")
	}
	cd := w.In.CertDir
	if w.KnobBool("client_side", 40) {
		// a client given a trusted CA and a server name refuses a server that presents another identity
		w.Check("C05.client-refuses-other-identity")
		which := w.Knob("server_identity", 0, 2) // 0 right cert, 1 rogue CA, 2 right CA but the client expects another name
		certF, keyF := cd+"/server.crt", cd+"/server.key"
		if which == 1 {
			certF, keyF = cd+"/rogueserver.crt", cd+"/rogueserver.key"
		}
		cert, err := tls.LoadX509KeyPair(certF, keyF)
		if err != nil {
			w.Fail("%v", err)
		}
		ln, _ := w.Net.Listen("tcp", "10.0.0.1:7000")
		var seen []byte
		handshakes := 0
		w.Frps.Go(func() {
			for {
				c, err := ln.Accept()
				if err != nil {
					return
				}
				go func() {
					defer c.Close()
					tc := tls.Server(c, &tls.Config{Certificates: []tls.Certificate{cert}})
					c.SetDeadline(time.Now().Add(20 * time.Second))
					if err := tc.Handshake(); err != nil {
						return
					}
					handshakes++
					buf := make([]byte, 4096)
					n, _ := tc.Read(buf)
					seen = append(seen, buf[:n]...)
				}()
			}
		})
		sn := "frps.sim"
		if which == 2 {
			sn = "other.example"
		}
		c1 := w.Net.NewNode("frpc1", "10.0.1.1")
		if _, err := w.StartFrpc(c1, map[string]any{"serverAddr": "10.0.0.1", "serverPort": 7000, "loginFailExit": false,
			"auth": map[string]any{"token": token},
			"transport": map[string]any{"tcpMux": false, "connectServerLocalIP": "10.0.1.1",
				"tls": map[string]any{"enable": true, "trustedCaFile": cd + "/ca.crt", "serverName": sn, "disableCustomTLSFirstByte": true}}}); err != nil {
			w.Fail("frpc: %v", err)
		}
		time.Sleep(40 * time.Second)
		if which == 0 {
			if len(seen) == 0 {
				viol("identity", "client-refuses-right-identity", "client with trusted CA and server name did not talk to a server presenting exactly that identity")
			}
		} else if len(seen) > 0 {
			viol("identity", "client-accepted-other-identity", "client with trusted CA and server name %q sent %d bytes of protocol to a server presenting another identity (case %d)", sn, len(seen), which)
		}
		w.SetSample(map[string]any{"scenario": "client-identity", "case": which, "handshakes": handshakes})
		w.Nontrivial()
		return
	}
	force := w.KnobBool("force", 60)
	trusted := w.KnobBool("trusted_ca", 50)
	tcfg := map[string]any{"force": force}
	if w.KnobBool("server_cert_files", 60) {
		tcfg["certFile"], tcfg["keyFile"] = cd+"/server.crt", cd+"/server.key"
	} // else frps generates a throw-away certificate: the policy must hold all the same
	if trusted {
		tcfg["trustedCaFile"] = cd + "/ca.crt"
	}
	scfg := map[string]any{"bindAddr": "10.0.0.1", "bindPort": 7000, "auth": map[string]any{"token": token},
		"transport": map[string]any{"tcpMux": false, "tls": tcfg}}
	quicLn := w.KnobBool("quic_listener", 60)
	if quicLn {
		scfg["quicBindPort"] = 7001
	}
	env := w.newLcEnv(scfg, token, PeerOpts{Server: "10.0.0.1:7000", Token: token})
	env.start()
	caPEM, _ := os.ReadFile(cd + "/ca.crt")
	pool := x509.NewCertPool()
	pool.AppendCertsFromPEM(caPEM)
	goodCert, _ := tls.LoadX509KeyPair(cd+"/client.crt", cd+"/client.key")
	rogueCert, _ := tls.LoadX509KeyPair(cd+"/rogueclient.crt", cd+"/rogueclient.key")
	mustTLS := force || trusted
	tryLogin := func(what string, o PeerOpts) (gotReply bool, ok bool) {
		c := env.newClient("p", 0)
		c.Opts = o
		c.Opts.Server, c.Opts.Token = "10.0.0.1:7000", token
		if o.QUIC {
			c.Opts.Server = "10.0.0.1:7001"
		}
		resp, err := c.login("")
		defer c.Drop()
		if err != nil {
			return false, false
		}
		return true, mstr(resp, "error") == ""
	}
	w.Check("C05.server-tls-policy")
	// plaintext peer
	if reply, _ := tryLogin("plaintext", PeerOpts{}); mustTLS && reply {
		viol("policy", "plaintext-peer-answered", "server with force=%v trustedCa=%v answered a login sent without TLS", force, trusted)
	} else if !mustTLS && !reply {
		viol("policy", "plaintext-peer-refused-without-policy", "server without forced TLS did not answer a plaintext login")
	}
	// the same over the websocket entry of the bind port
	if reply, _ := tryLogin("plaintext-websocket", PeerOpts{WS: true}); mustTLS && reply {
		viol("policy", "plaintext-websocket-peer-answered", "server with force=%v trustedCa=%v answered a login sent over a websocket without TLS", force, trusted)
	} else if !mustTLS && !reply {
		viol("policy", "plaintext-websocket-peer-refused-without-policy", "server without forced TLS did not answer a plaintext login over a websocket")
	}
	// TLS peer without / with rogue / with good client certificate
	for _, cs := range []struct {
		what string
		cfg  *tls.Config
		good bool
	}{
		{"tls-no-client-cert", &tls.Config{InsecureSkipVerify: true}, !trusted},
		{"tls-rogue-client-cert", &tls.Config{InsecureSkipVerify: true, Certificates: []tls.Certificate{rogueCert}}, !trusted},
		{"tls-good-client-cert", &tls.Config{InsecureSkipVerify: true, Certificates: []tls.Certificate{goodCert}}, true},
	} {
		ws := r.Intn(3) == 0
		reply, ok := tryLogin(cs.what, PeerOpts{TLS: true, TLSConfig: cs.cfg, CustomByte: !ws && r.Bool(), WS: ws})
		if cs.good && !(reply && ok) {
			viol("policy", "acceptable-peer-refused-"+cs.what, "server force=%v trustedCa=%v refused %s", force, trusted, cs.what)
		}
		if !cs.good && reply {
			viol("policy", "unacceptable-certificate-answered-"+cs.what, "server with trusted CA answered a login from a peer with %s", cs.what)
		}
	}
	// the QUIC listener shares the server's TLS configuration: with a trusted CA a peer without an acceptable
	// certificate gets no protocol message interpreted there either
	if quicLn {
		w.Check("C05.server-tls-policy-quic")
		for _, cs := range []struct {
			what string
			cfg  *tls.Config
			good bool
		}{
			{"quic-no-client-cert", &tls.Config{InsecureSkipVerify: true}, !trusted},
			{"quic-rogue-client-cert", &tls.Config{InsecureSkipVerify: true, Certificates: []tls.Certificate{rogueCert}}, !trusted},
			{"quic-good-client-cert", &tls.Config{InsecureSkipVerify: true, Certificates: []tls.Certificate{goodCert}}, true},
		} {
			reply, ok := tryLogin(cs.what, PeerOpts{QUIC: true, TLSConfig: cs.cfg})
			if cs.good && !(reply && ok) {
				viol("policy", "acceptable-peer-refused-"+cs.what, "server force=%v trustedCa=%v refused %s", force, trusted, cs.what)
			}
			if !cs.good && reply {
				viol("policy", "unacceptable-certificate-answered-"+cs.what, "server with trusted CA answered a login from a peer with %s", cs.what)
			}
		}
	}
	// every first byte a peer may send, followed by a plaintext login
	if mustTLS {
		w.Check("C05.all-first-bytes")
		login := func() []byte {
			var b bytes.Buffer
			ts := time.Now().Unix()
			writeMsg(&b, tLogin, M{"version": "0.62.0", "timestamp": ts, "privilege_key": authKey(token, ts)})
			return b.Bytes()
		}()
		for fb := 0; fb < 256; fb++ {
			conn, err := simnet.DialFrom("10.0.3.80", "10.0.0.1:7000", 5*time.Second)
			if err != nil {
				continue
			}
			conn.Write([]byte{byte(fb)})
			conn.Write(login)
			conn.SetReadDeadline(time.Now().Add(12 * time.Second))
			typ, body, err := readFrame(conn)
			if err == nil && typ == tLoginResp {
				viol("policy", "protocol-reply-without-tls", "first byte %#x followed by a plaintext login got a LoginResp %s from a server with force=%v trustedCa=%v", fb, body, force, trusted)
				conn.Close()
				break
			}
			conn.Close()
		}
	}
	w.SetSample(map[string]any{"scenario": "server-policy", "force": force, "trusted_ca": trusted})
	w.Nontrivial()
	_ = net.IPv4len
}
