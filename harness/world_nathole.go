package verifharness

import (
	"context"
	"encoding/json"
	"fmt"
	"net"
	"reflect"
	"strconv"
	"strings"
	"time"

	"github.com/fatedier/frp/pkg/msg"
	"github.com/fatedier/frp/pkg/nathole"

	"verif/sim/simnet"
)

// World "nathole" (C20): scripted visitor and owner controls on real frps.

func init() { RegisterWorld("nathole", worldNatHole) }

type natSide struct {
	mapped   []string
	assisted []string
}

// classification written from the statement's vocabulary: a NAT is "hard" when its observed mappings differ,
// its port changes are "regular" when only the port differs and by 1..5.
func (s natSide) classify() (valid, hard, regular bool) {
	if len(s.mapped) < 2 {
		return false, false, false
	}
	var ip0 string
	var p0, pmin, pmax int
	ipCh, portCh := false, false
	for i, a := range s.mapped {
		h, p, err := net.SplitHostPort(a)
		if err != nil {
			return false, false, false
		}
		pn, err := strconv.Atoi(p)
		if err != nil {
			return false, false, false
		}
		if i == 0 {
			ip0, p0, pmin, pmax = h, pn, pn, pn
			continue
		}
		if h != ip0 {
			ipCh = true
		}
		if pn != p0 {
			portCh = true
		}
		if pn < pmin {
			pmin = pn
		}
		if pn > pmax {
			pmax = pn
		}
	}
	hard = ipCh || portCh
	regular = portCh && !ipCh && pmax-pmin >= 1 && pmax-pmin <= 5
	return true, hard, regular
}

func compact(s []string) []string {
	var out []string
	for i, x := range s {
		if i == 0 || x != s[i-1] {
			out = append(out, x)
		}
	}
	return out
}

var natRespNested = map[string]bool{"role": true, "mode": true, "ttl": true, "send_delay_ms": true, "read_timeout": true, "candidate_ports": true, "send_random_ports": true, "listen_random_ports": true}

func worldNatHole(w *World) {
	token := "nat-token"
	tcpMux := w.KnobBool("tcp_mux", 50)
	scfg := map[string]any{
		"bindAddr": "10.0.0.1", "bindPort": 7000,
		"auth":            map[string]any{"token": token},
		"transport":       map[string]any{"tcpMux": tcpMux, "heartbeatTimeout": -1},
		"userConnTimeout": 3,
	}
	env := w.newLcEnv(scfg, token, PeerOpts{Server: "10.0.0.1:7000", Mux: tcpMux, Token: token})
	env.start()
	r := w.R
	prop := "C20"
	viol := func(oracle, sig, f string, a ...any) { w.Violate(prop, oracle, sig, f, a...) }

	owner := env.newClient("o", 2)
	vis := env.newClient("v", 0)
	other := env.newClient("x", 0)
	for _, c := range []*lcClient{owner, vis, other} {
		if rr, err := c.login(""); err != nil || mstr(rr, "error") != "" {
			w.Fail("login: %v %v", err, rr)
		}
	}
	sk := "nat-secret"
	if rr, got := owner.register(M{"proxy_name": "px", "proxy_type": "xtcp", "sk": sk, "allow_users": []string{"*"}}); !got || mstr(rr, "error") != "" {
		w.Fail("register xtcp: %v", rr)
	}
	genSide := func() natSide {
		base := fmt.Sprintf("%d.%d.%d.%d", r.Range(1, 223), r.Intn(256), r.Intn(256), r.Range(1, 254))
		port := r.Range(1024, 65000)
		var s natSide
		switch r.Intn(9) {
		case 0: // easy
			s.mapped = []string{fmt.Sprintf("%s:%d", base, port), fmt.Sprintf("%s:%d", base, port)}
		case 1: // regular port changes
			s.mapped = []string{fmt.Sprintf("%s:%d", base, port), fmt.Sprintf("%s:%d", base, port+r.Range(1, 5))}
		case 2: // irregular port changes
			s.mapped = []string{fmt.Sprintf("%s:%d", base, port), fmt.Sprintf("%s:%d", base, (port+r.Range(6, 3000))%65535+1), fmt.Sprintf("%s:%d", base, r.Range(1, 65535))}
		case 3: // ip changes
			s.mapped = []string{fmt.Sprintf("%s:%d", base, port), fmt.Sprintf("9.9.9.9:%d", port)}
		case 4: // both
			s.mapped = []string{fmt.Sprintf("%s:%d", base, port), fmt.Sprintf("9.9.9.9:%d", port+1)}
		case 5: // ports at the edges
			s.mapped = []string{fmt.Sprintf("%s:%d", base, r.Pick(1, 2, 65534, 65535)), fmt.Sprintf("%s:%d", base, r.Pick(1, 3, 65533, 65535))}
		case 6: // too few
			s.mapped = []string{fmt.Sprintf("%s:%d", base, port)}
		case 7: // malformed
			s.mapped = []string{extremeStr(r), fmt.Sprintf("%s:%d", base, port), "1.2.3.4:notaport"}
			if r.Intn(2) == 0 {
				// one bad entry anywhere among good ones, also after the list has already shown an ip and a port change
				good := []string{fmt.Sprintf("%s:%d", base, port), fmt.Sprintf("9.9.9.9:%d", port+1), fmt.Sprintf("%s:%d", base, port+7)}
				bad := []string{"1.2.3.4:notaport", "garbage", "1.2.3.4", extremeStr(r)}[r.Intn(4)]
				pos := r.Intn(len(good) + 1)
				s.mapped = append(append(append([]string{}, good[:pos]...), bad), good[pos:]...)
			}
		default: // public network: mapped equals local
			s.mapped = []string{fmt.Sprintf("%s:%d", base, port), fmt.Sprintf("%s:%d", base, port)}
			s.assisted = []string{fmt.Sprintf("%s:%d", base, port)}
		}
		if s.assisted == nil && r.Intn(2) == 0 {
			s.assisted = []string{fmt.Sprintf("192.168.%d.%d:%d", r.Intn(256), r.Range(1, 254), port)}
		}
		return s
	}
	waitResp := func(c *lcClient, from int, tid string, d time.Duration) (M, bool) {
		var out M
		_, ok := c.WaitMsg(d, func(m RecvMsg) bool {
			if m.Seq < from || m.Type != tNatHoleResp {
				return false
			}
			rr := M{}
			json.Unmarshal(m.Body, &rr)
			if mstr(rr, "transaction_id") == tid {
				out = rr
				// wire monitor for the nested structure too
				checkWireFrame(w, "C17", m.Type, m.Body, "frps -> "+c.Name)
				if db, ok := rr["detect_behavior"].(map[string]any); ok {
					for k := range db {
						if !natRespNested[k] {
							w.Violate("C17", "wire", "unreleased-field-detect_behavior."+k, "NatHoleResp.detect_behavior carries field %q which is not part of the released protocol", k)
						}
					}
				}
				return true
			}
			return false
		})
		return out, ok
	}
	sidsSeen := func() int {
		owner.smu.Lock()
		defer owner.smu.Unlock()
		return len(owner.NatSidList)
	}
	lastSid := func() string {
		owner.smu.Lock()
		defer owner.smu.Unlock()
		if len(owner.NatSidList) == 0 {
			return ""
		}
		return owner.NatSidList[len(owner.NatSidList)-1]
	}

	// a transient fault first: for a while the owner does not deliver the work connections the server asks for, so
	// that some session ids cannot be handed over. Those requests fail; everything after the fault is owed full service.
	if w.KnobBool("owner_misses_workconns", 30) {
		w.Probe("nathole.owner_misses_workconns")
		owner.smu.Lock()
		owner.WorkMode = wmNever
		owner.smu.Unlock()
		for j := 0; j < 4; j++ {
			ts := time.Now().Unix()
			tid := fmt.Sprintf("miss%d", j)
			from := len(vis.Inbox)
			addr := fmt.Sprintf("198.51.100.%d:%d", 10+j, 4000+j)
			vis.Send(tNatHoleVisitor, M{"transaction_id": tid, "proxy_name": "px", "protocol": "quic", "sign_key": authKey(sk, ts), "timestamp": ts,
				"mapped_addrs": []string{addr, addr}})
			waitResp(vis, from, tid, 45*time.Second)
		}
		owner.smu.Lock()
		owner.WorkMode = wmGood
		owner.smu.Unlock()
		time.Sleep(2 * time.Second)
	}
	nsessions := w.KnobPick("nsessions", 2, 5, 12)
	// the same two peers may come back again and again without ever reporting success (between two hard NATs that is
	// the normal course of events): the server then walks through all its recommendations for the pair, and every one
	// of them is owed the same guarantees
	repeatPair := w.KnobBool("same_pair_every_session", 30)
	var fixedV, fixedC natSide
	if repeatPair {
		nsessions = 18
		mk := func() natSide {
			base := fmt.Sprintf("%d.%d.%d.%d", r.Range(1, 223), r.Intn(256), r.Intn(256), r.Range(1, 254))
			port := r.Range(2000, 60000)
			if r.Intn(3) == 0 {
				return natSide{mapped: []string{fmt.Sprintf("%s:%d", base, port), fmt.Sprintf("%s:%d", base, port)}} // easy
			}
			return natSide{mapped: []string{fmt.Sprintf("%s:%d", base, port), fmt.Sprintf("%s:%d", base, port+r.Range(50, 3000)), fmt.Sprintf("%s:%d", base, port+r.Range(3001, 5000))}} // hard, irregular ports
		}
		fixedV, fixedC = mk(), mk()
		w.Probe("nathole.same_pair_every_session")
	}
	var g0 int
	for i := 0; i < nsessions; i++ {
		if i == 1 {
			g0 = frpGoroutines()
		}
		vs, cs := genSide(), genSide()
		if repeatPair {
			vs, cs = fixedV, fixedC
		}
		ts := time.Now().Unix()
		badSig := r.Intn(8) == 0
		name := "px"
		if r.Intn(10) == 0 {
			name = "nosuch"
		}
		sign := authKey(sk, ts)
		if badSig {
			sign = authKey("other", ts)
		}
		vtid, ctid := fmt.Sprintf("v%d", i), fmt.Sprintf("c%d", i)
		vfrom, cfrom, ofrom := len(vis.Inbox), len(owner.Inbox), len(other.Inbox)
		before := sidsSeen()
		vis.Send(tNatHoleVisitor, M{"transaction_id": vtid, "proxy_name": name, "protocol": "quic", "sign_key": sign, "timestamp": ts,
			"mapped_addrs": vs.mapped, "assisted_addrs": vs.assisted})
		if badSig || name != "px" {
			w.Check("C20.session-only-for-signed-live-proxy")
			rr, ok := waitResp(vis, vfrom, vtid, 8*time.Second)
			if !ok || mstr(rr, "error") == "" {
				viol("admission", "unsigned-request-not-refused", "NatHoleVisitor for %q with bad signature=%v: response %v (got=%v)", name, badSig, rr, ok)
			}
			time.Sleep(300 * time.Millisecond)
			if sidsSeen() != before {
				viol("admission", "session-for-unsigned-request", "a session id reached the owner for a request with bad signature=%v proxy=%q", badSig, name)
			}
			continue
		}
		if !w.WaitUntil(8*time.Second, 20*time.Millisecond, func() bool { return sidsSeen() > before }) {
			viol("session", "owner-not-notified", "a correctly signed NatHoleVisitor did not reach the owner within 8 s")
			continue
		}
		sid := lastSid()
		// message orders around the owner's answer, incl. reports before the analysis exists, duplicates, unknown sids
		order := r.Intn(6)
		if order == 0 {
			owner.Send(tNatHoleReport, M{"sid": sid, "success": true})
			w.Probe("nathole.report_before_client")
		}
		if order == 1 {
			other.Send(tNatHoleReport, M{"sid": sid, "success": r.Bool()})
			other.Send(tNatHoleClient, M{"transaction_id": "zz", "proxy_name": "px", "sid": "unknown-sid", "mapped_addrs": cs.mapped})
		}
		if order == 2 {
			// the owner never answers: the session must time out and be removed
			w.Probe("nathole.client_silent")
			time.Sleep(12 * time.Second)
			continue
		}
		owner.Send(tNatHoleClient, M{"transaction_id": ctid, "proxy_name": "px", "sid": sid, "mapped_addrs": cs.mapped, "assisted_addrs": cs.assisted})
		if order == 3 {
			owner.Send(tNatHoleClient, M{"transaction_id": ctid, "proxy_name": "px", "sid": sid, "mapped_addrs": cs.mapped, "assisted_addrs": cs.assisted})
			w.Probe("nathole.duplicate_client")
		}
		vr, vok := waitResp(vis, vfrom, vtid, 15*time.Second)
		cr, cok := waitResp(owner, cfrom, ctid, 15*time.Second)
		w.Check("C20.paired-responses")
		if !vok || !cok {
			viol("pairing", "response-missing", "visitor got response=%v owner got response=%v for mapped %v / %v", vok, cok, vs.mapped, cs.mapped)
			continue
		}
		// nobody else hears about it
		other.mu.Lock()
		for _, m := range other.Inbox[ofrom:] {
			if m.Type == tNatHoleResp {
				viol("pairing", "response-to-third-party", "a control that is not part of the session received a NatHoleResp")
			}
		}
		other.mu.Unlock()
		vvalid, vhard, vreg := vs.classify()
		cvalid, chard, creg := cs.classify()
		verr, cerr := mstr(vr, "error"), mstr(cr, "error")
		if !vvalid || !cvalid {
			if verr == "" || cerr == "" {
				viol("malformed", "bogus-instruction-for-malformed-input", "malformed/insufficient addresses %v / %v: visitor error %q owner error %q (both must be errors)", vs.mapped, cs.mapped, verr, cerr)
			}
			continue
		}
		if verr != "" || cerr != "" {
			viol("pairing", "error-for-valid-observations", "valid observations %v / %v answered with errors %q / %q", vs.mapped, cs.mapped, verr, cerr)
			continue
		}
		vd, _ := vr["detect_behavior"].(map[string]any)
		cd, _ := cr["detect_behavior"].(map[string]any)
		vrole, crole := mstr(vd, "role"), mstr(cd, "role")
		vmode, _ := vd["mode"].(float64)
		cmode, _ := cd["mode"].(float64)
		desc := fmt.Sprintf("visitor %v (hard=%v regular=%v) owner %v (hard=%v regular=%v): visitor role %q mode %v, owner role %q mode %v", vs.mapped, vhard, vreg, cs.mapped, chard, creg, vrole, vmode, crole, cmode)
		if mstr(vr, "sid") != mstr(cr, "sid") || mstr(vr, "sid") != sid {
			viol("pairing", "different-sid", "%s: sids %q / %q, announced %q", desc, mstr(vr, "sid"), mstr(cr, "sid"), sid)
		}
		if vmode != cmode {
			viol("pairing", "different-mode", "%s", desc)
		}
		if !((vrole == "sender" && crole == "receiver") || (vrole == "receiver" && crole == "sender")) {
			viol("pairing", "roles-not-complementary", "%s", desc)
		}
		switch int(vmode) {
		case 1: // the hard NAT sends
			if vhard != chard {
				if (vhard && vrole != "sender") || (chard && crole != "sender") {
					viol("roles", "mode1-hard-nat-not-sender", "%s", desc)
				}
			}
		case 2: // the hard NAT listens
			if vhard != chard {
				if (vhard && vrole != "receiver") || (chard && crole != "receiver") {
					viol("roles", "mode2-hard-nat-not-receiver", "%s", desc)
				}
			}
		case 4: // the side with regular port changes sends
			if vreg != creg {
				if (vreg && vrole != "sender") || (creg && crole != "sender") {
					viol("roles", "mode4-regular-side-not-sender", "%s", desc)
				}
			}
		}
		// each gets the other's candidates
		eq := func(a []any, b []string) bool {
			if len(a) != len(b) {
				return false
			}
			for i := range a {
				if a[i] != b[i] {
					return false
				}
			}
			return true
		}
		vc, _ := vr["candidate_addrs"].([]any)
		cc, _ := cr["candidate_addrs"].([]any)
		if !eq(vc, compact(cs.mapped)) || !eq(cc, compact(vs.mapped)) {
			viol("pairing", "wrong-candidates", "%s: visitor got candidates %v, owner got %v", desc, vc, cc)
		}
		for who, d := range map[string]map[string]any{"visitor": vd, "owner": cd} {
			ports, _ := d["candidate_ports"].([]any)
			for _, p := range ports {
				pm, _ := p.(map[string]any)
				from, _ := pm["from"].(float64)
				to, _ := pm["to"].(float64)
				if from < 1 || to > 65535 || from > to {
					viol("ports", "candidate-port-range-invalid", "%s: %s got candidate port range %v-%v", desc, who, from, to)
				}
			}
		}
		if order == 4 {
			owner.Send(tNatHoleReport, M{"sid": sid, "success": true})
			vis.Send(tNatHoleReport, M{"sid": sid, "success": true})
		}
		if order == 5 {
			owner.Send(tNatHoleReport, M{"sid": "stale-" + sid, "success": true})
		}
	}
	// the controls still answer
	for _, c := range []*lcClient{owner, vis, other} {
		w.Check("C20.controls-alive")
		from := len(c.Inbox)
		c.Ping(true, token)
		if _, ok := c.WaitMsg(15*time.Second, func(m RecvMsg) bool { return m.Seq >= from && m.Type == tPong }); !ok {
			viol("session", "control-stalled", "control %s does not answer a heartbeat after the NAT-hole traffic (closed=%v)", c.Name, c.IsClosed())
		}
	}
	// sessions are removed after completion or timeout
	if nsessions >= 5 {
		time.Sleep(100 * time.Second)
		w.Check("C20.footprint")
		// (white-box probe, like the goroutine count: the size of the controller's session table, read by reflection)
		if n := natholeSessionCount(env.frps); n > 0 {
			viol("footprint", "session-table-not-empty", "%d NAT-hole sessions are still held by the controller 100 s after the last request (every request timed out or completed long ago)", n)
		}
		if g := frpGoroutines(); g > g0+4 {
			viol("footprint", "sessions-accumulate", "server goroutines %d after the first session, %d after %d sessions and a 100 s pause:\n%s", g0, g, nsessions, frpGoroutineSummary())
		}
	}

	// two honest peers on an unfiltered network that follow the instructions find each other - at the first
	// rendezvous of an address pair and at every later one: without success reports the server walks through its
	// list of recommendations (roles, delays, port ranges), and each of them must work. Each peer starts acting on its
	// instructions at the moment they arrive, as a real client does.
	if w.KnobBool("makehole", 70) {
		rounds := w.KnobPick("makehole_rounds", 1, 1, 3, 8, 12)
		toMsg := func(m M) *msg.NatHoleResp {
			b, _ := json.Marshal(m)
			out := &msg.NatHoleResp{}
			json.Unmarshal(b, out)
			return out
		}
		for round := 0; round < rounds; round++ {
			w.Check("C20.makehole-meets")
			vconn, err1 := simnet.ListenUDP("udp4", &net.UDPAddr{IP: net.ParseIP("10.0.5.1")})
			oconn, err2 := simnet.ListenUDP("udp4", &net.UDPAddr{IP: net.ParseIP("10.0.5.2")})
			if err1 != nil || err2 != nil {
				w.Fail("udp listen: %v %v", err1, err2)
			}
			va, oa := vconn.LocalAddr().String(), oconn.LocalAddr().String()
			ts := time.Now().Unix()
			vfrom, cfrom := len(vis.Inbox), len(owner.Inbox)
			before := sidsSeen()
			tv, tc := fmt.Sprintf("mv%d", round), fmt.Sprintf("mc%d", round)
			vis.Send(tNatHoleVisitor, M{"transaction_id": tv, "proxy_name": "px", "protocol": "quic", "sign_key": authKey(sk, ts), "timestamp": ts, "mapped_addrs": []string{va, va}, "assisted_addrs": []string{va}})
			if !w.WaitUntil(8*time.Second, 20*time.Millisecond, func() bool { return sidsSeen() > before }) {
				vconn.Close()
				oconn.Close()
				break
			}
			sid := lastSid()
			owner.Send(tNatHoleClient, M{"transaction_id": tc, "proxy_name": "px", "sid": sid, "mapped_addrs": []string{oa, oa}, "assisted_addrs": []string{oa}})
			// leftovers of an earlier rendezvous of the same peers (a late answer carrying another session id, properly
			// encrypted with the proxy's key) may be waiting in either socket: they are to be ignored, nothing more
			strays := false
			if w.KnobBool("makehole_stray_datagrams", 50) {
				strays = true
				if stray, err := simnet.ListenUDP("udp4", &net.UDPAddr{IP: net.ParseIP("10.0.5.3")}); err == nil {
					for k := 0; k < 1+round%2; k++ {
						if b, err := nathole.EncodeMessage(&msg.NatHoleSid{Sid: fmt.Sprintf("stale-%d-%d", round, k), Response: true, Nonce: "xxxxxxxx"}, []byte(sk)); err == nil {
							stray.WriteToUDP(b, vconn.LocalAddr().(*net.UDPAddr))
							stray.WriteToUDP(b, oconn.LocalAddr().(*net.UDPAddr))
							w.Probe("nathole.stray_datagram")
						}
					}
					stray.Close()
				}
			}
			type res struct {
				addr  string
				err   error
				instr any
				skip  bool
			}
			ch := make(chan res, 2)
			run := func(c *lcClient, from int, tid string, conn *simnet.UDPConn) {
				m, ok := waitResp(c, from, tid, 20*time.Second)
				if !ok || mstr(m, "error") != "" {
					ch <- res{skip: true}
					return
				}
				_, ra, err := nathole.MakeHole(context.Background(), conn, toMsg(m), []byte(sk))
				a := ""
				if ra != nil {
					a = ra.String()
				}
				ch <- res{addr: a, err: err, instr: m["detect_behavior"]}
			}
			go run(vis, vfrom, tv, vconn)
			go run(owner, cfrom, tc, oconn)
			r1, r2 := <-ch, <-ch
			vconn.Close()
			oconn.Close()
			if r1.skip || r2.skip {
				break
			}
			if r1.err != nil || r2.err != nil {
				if strays {
					// (every message of the exchange is decoded from a socket in which another, well-formed message had been
					// waiting: what a peer acts on must be the message as it was encoded, whatever was read before it)
					w.Violate("C17", "decode", "message-read-after-another-not-acted-on-as-encoded", "hole punching between two honest peers fails when a well-formed message of another session is waiting in their sockets (and only then): %v / %v", r1.err, r2.err)
				}
				viol("makehole", "peers-do-not-meet", "rendezvous %d of the same two peers (no success reported so far): peers at %s and %s following their instructions (%v / %v) did not find each other: %v / %v", round+1, va, oa, r1.instr, r2.instr, r1.err, r2.err)
				break
			} else if !((r1.addr == va && r2.addr == oa) || (r1.addr == oa && r2.addr == va)) {
				viol("makehole", "peers-meet-wrong-address", "peers at %s and %s ended up with remote addresses %s and %s", va, oa, r1.addr, r2.addr)
				break
			}
			w.Probe("nathole.makehole_round_met")
			// (no NatHoleReport: the next rendezvous gets the next recommendation)
			time.Sleep(time.Duration(w.R.Range(1, 5)) * time.Second)
		}
	}
	w.SetSample(map[string]any{"sessions": nsessions, "mux": tcpMux})
	w.Nontrivial()
	_ = strings.Contains
}

// natholeSessionCount reads len(server.Service.rc.NatHoleController.sessions) by reflection; -1 if the layout differs.
func natholeSessionCount(f *Frps) (n int) {
	defer func() {
		if recover() != nil {
			n = -1
		}
	}()
	v := reflect.ValueOf(f.Svc).Elem().FieldByName("rc").Elem().FieldByName("NatHoleController").Elem().FieldByName("sessions")
	return v.Len()
}
