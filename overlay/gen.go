// gen-overlay: writes patched copies of a few go1.26.8 runtime files plus an
// overlay.json usable with `go build -overlay`. See DESIGN.md §2.5.
//
// Every patch is anchored on an exact source line; if an anchor is missing the
// program exits 2 (toolchain differs from the one this was written for).
package main

import (
	"encoding/json"
	"fmt"
	"os"
	"path/filepath"
	"strings"
)

func die(f string, a ...any) {
	fmt.Fprintf(os.Stderr, "gen-overlay: "+f+"\n", a...)
	os.Exit(2)
}

type patch struct{ old, new string }

func apply(src string, file string, ps []patch) string {
	for _, p := range ps {
		if strings.Count(src, p.old) != 1 {
			die("%s: anchor not found exactly once: %q (count=%d)", file, p.old, strings.Count(src, p.old))
		}
		src = strings.Replace(src, p.old, p.new, 1)
	}
	return src
}

func main() {
	if len(os.Args) != 3 {
		die("usage: gen-overlay <GOROOT> <outdir>")
	}
	goroot, out := os.Args[1], os.Args[2]
	if err := os.MkdirAll(out, 0o755); err != nil {
		die("%v", err)
	}
	replace := map[string]string{}
	do := func(rel string, ps []patch) {
		p := filepath.Join(goroot, "src", rel)
		b, err := os.ReadFile(p)
		if err != nil {
			die("%v", err)
		}
		s := apply(string(b), rel, ps)
		dst := filepath.Join(out, strings.ReplaceAll(rel, "/", "__"))
		if err := os.WriteFile(dst, []byte(s), 0o644); err != nil {
			die("%v", err)
		}
		replace[p] = dst
	}

	// 1. waiting for a sync.Mutex / RWMutex is durably blocking inside a bubble.
	do("runtime/runtime2.go", []patch{{
		"\twaitReasonSynctestSelect:        true,\n}",
		"\twaitReasonSynctestSelect:        true,\n\twaitReasonSyncMutexLock:         true,\n\twaitReasonSyncRWMutexRLock:      true,\n\twaitReasonSyncRWMutexLock:       true,\n}",
	}})

	// 2. program-visible randomness (maps, math/rand, math/rand/v2 top-level,
	// select) comes from two global, seedable splitmix streams instead of
	// per-M state; M creation no longer draws from the program-visible stream.
	do("runtime/rand.go", []patch{
		{
			"\tmp := getg().m\n\tc := &mp.chacha8\n\tfor {\n",
			"\tif true {\n\t\treturn simrandNext()\n\t}\n\tmp := getg().m\n\tc := &mp.chacha8\n\tfor {\n",
		},
		{
			"\tmp.cheaprand = rand()\n",
			"\tmp.cheaprand = bootstrapRand()\n",
		},
		{
			"\tseed := &globalRand.seed\n\tif len(startupRand) >= 16 &&",
			"\tseed := &globalRand.seed\n\tif true {\n\t\tfor i := range seed {\n\t\t\tseed[i] = byte(i*37 + 11)\n\t\t}\n\t} else if len(startupRand) >= 16 &&",
		},
	})
	do("runtime/select.go", []patch{{
		"\t\tj := cheaprandn(uint32(norder + 1))\n",
		"\t\tj := simselectn(uint32(norder + 1))\n",
	}})
	do("runtime/proc.go", []patch{
		{
			"func retake(now int64) uint32 {\n\tn := 0\n",
			"func retake(now int64) uint32 {\n\tn := 0\n\tif true {\n\t\treturn 0 // verif: never take a P away (no time slicing, no syscall hand-off)\n\t}\n",
		},
		{
			"const forcePreemptNS = 10 * 1000 * 1000 // 10ms",
			"const forcePreemptNS = 36000 * 1000 * 1000 * 1000 // verif: no time-sliced preemption",
		},
		{
			"\t\t\tj := cheaprandn(i + 1)\n\t\t\tbatch[i], batch[j] = batch[j], batch[i]\n",
			"\t\t\tj := simselectn(i + 1)\n\t\t\tbatch[i], batch[j] = batch[j], batch[i]\n",
		},
		{
			"\t\t\tj := cheaprandn(i + 1)\n\t\t\tpp.runq[off(i)], pp.runq[off(j)] = pp.runq[off(j)], pp.runq[off(i)]\n",
			"\t\t\tj := simselectn(i + 1)\n\t\t\tpp.runq[off(i)], pp.runq[off(j)] = pp.runq[off(j)], pp.runq[off(i)]\n",
		},
	})

	// 2a. timers of one bubble that expire at the same fake instant are ordered by a per-timer random
	// value drawn from the per-M generator; draw it from the seeded global stream instead.
	do("runtime/time.go", []patch{{
		"\t\t\tt.rand = cheaprand()\n",
		"\t\t\tt.rand = simselectn(1 << 31)\n",
	}, {
		// 2d. (see 2c) a bubble timer armed for an instant that is not in the future would fire without the clock
		// moving at all; computation takes no fake time, so a loop that waits "until the pacing budget has grown"
		// with such a timer never ends (quic-go's pacer). No timer fires sooner than 1 microsecond after it was armed.
		"\twake := false\n\tpending := t.when > 0\n\tt.when = when\n",
		"\twake := false\n\tpending := t.when > 0\n\tif t.isFake && when > 0 {\n\t\tif b := getg().bubble; b != nil && when <= b.now {\n\t\t\twhen = b.now + 1000\n\t\t}\n\t}\n\tt.when = when\n",
	}})

	// 2b. sync.Mutex starvation mode is entered after 1ms of *real* waiting time, which makes lock
	// hand-off order depend on machine load; in the simulation a waiter never starves by the wall clock.
	// sync.Mutex switches to starvation (hand-off) mode when a waiter has waited for more than 1 ms of REAL time,
	// which differs from run to run. Round 1 of this framework switched the mode off altogether; the thorough tier
	// then showed a waiter starved for 23 simulated seconds by a goroutine that re-acquired the lock at once each
	// time (yamux's receive loop against Stream.Read) - a schedule real Go cannot produce. The mode is back, driven
	// by the bubble's fake clock: deterministic, and "more than 1 ms" means simulated time.
	do("runtime/sema.go", []patch{{
		"func internal_sync_nanotime() int64 {\n\treturn nanotime()\n}",
		"func internal_sync_nanotime() int64 {\n\tif gp := getg(); gp.bubble != nil {\n\t\treturn gp.bubble.now\n\t}\n\treturn nanotime()\n}",
	}})

	// 2c. a bubble's clock jumps exactly to the deadline of its next timer, so code woken by a timer reads a clock that
	// equals the deadline - something a real clock never shows (a real timer always fires a little late). Code
	// that re-arms a timer while "deadline.Before(now)" is false then spins for ever at one frozen instant
	// (quic-go's connection run loop does: loss-detection and idle deadlines). The clock lands one nanosecond
	// past the deadline instead.
	do("runtime/synctest.go", []patch{{
		"\t\tbubble.now = next\n",
		"\t\tbubble.now = next + 1\n",
	}})

	// 3. added file: the streams, their seeding entry point, and a
	// goroutine-inherited tag (reuses the pprof label slot, which the
	// runtime copies from parent to child goroutine).
	added := filepath.Join(goroot, "src", "runtime", "zverifsim.go")
	dst := filepath.Join(out, "runtime__zverifsim.go")
	const addedSrc = `package runtime

import "unsafe"

var simrandState uint64 = 0x9e3779b97f4a7c15
var simselectState uint64 = 0xbf58476d1ce4e5b9

//go:nosplit
func simrandNext() uint64 {
	simrandState += 0x9e3779b97f4a7c15
	z := simrandState
	z = (z ^ (z >> 30)) * 0xbf58476d1ce4e5b9
	z = (z ^ (z >> 27)) * 0x94d049bb133111eb
	return z ^ (z >> 31)
}

//go:nosplit
func simselectn(n uint32) uint32 {
	simselectState += 0x9e3779b97f4a7c15
	z := simselectState
	z = (z ^ (z >> 30)) * 0xbf58476d1ce4e5b9
	z = (z ^ (z >> 27)) * 0x94d049bb133111eb
	z = z ^ (z >> 31)
	return uint32((uint64(uint32(z)) * uint64(n)) >> 32)
}

// SimSeed reseeds the program-visible random streams (verif overlay).
func SimSeed(s uint64) {
	simrandState = s*0x9e3779b97f4a7c15 + 1
	simselectState = s*0xbf58476d1ce4e5b9 + 7
}

// SimTag / SimSetTag expose the goroutine-inherited label slot.
func SimTag() unsafe.Pointer      { return getg().labels }
func SimSetTag(p unsafe.Pointer) { getg().labels = p }

// SimInBubble reports whether the calling goroutine belongs to a synctest bubble.
func SimInBubble() bool { return getg().bubble != nil }

// SimOverlay reports that the verif runtime overlay is compiled in.
const SimOverlay = true
`
	if err := os.WriteFile(dst, []byte(addedSrc), 0o644); err != nil {
		die("%v", err)
	}
	replace[added] = dst

	j, _ := json.MarshalIndent(map[string]any{"Replace": replace}, "", " ")
	if err := os.WriteFile(filepath.Join(out, "overlay.json"), j, 0o644); err != nil {
		die("%v", err)
	}
}
