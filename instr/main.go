// verif-instr: copies an frp working tree (and the golib module) to a scratch
// directory and rewrites it, by text splicing at AST positions, so that
//   - every entry point of package net that would touch the real network goes
//     to verif/sim/simnet (L1 seam),
//   - http.Transport literals without DialContext dial through simnet,
//   - (with -l2) a simnet.Yield(site) call precedes every lock acquisition,
//     channel operation, select and close, follows every Unlock statement and
//     opens every goroutine literal body.
// All insertions stay on the original line, so line numbers in stack traces
// are those of the original source. See /verif/DESIGN.md §3.
package main

import (
	"encoding/json"
	"flag"
	"fmt"
	"go/ast"
	"go/parser"
	"go/token"
	"io"
	"io/fs"
	"os"
	"path/filepath"
	"sort"
	"strings"
)

var netFuncs = map[string]bool{
	"Listen": true, "Dial": true, "DialTimeout": true, "ListenUDP": true, "DialUDP": true,
	"ListenPacket": true, "ResolveTCPAddr": true, "ResolveUDPAddr": true, "ResolveIPAddr": true,
	"LookupHost": true, "LookupIP": true, "InterfaceAddrs": true,
	"Dialer": true, "ListenConfig": true, "UDPConn": true,
}

// calls that would reach the real world and are not seamed: reported only.
var netUnseamed = map[string]bool{
	"ListenTCP": true, "DialTCP": true, "DialUnix": true, "ListenUnix": true, "ListenIP": true, "DialIP": true,
	"LookupAddr": true, "LookupCNAME": true, "LookupSRV": true, "LookupTXT": true, "Interfaces": true,
	"ListenMulticastUDP": true, "FileConn": true, "FileListener": true,
}

type splice struct {
	off  int
	text string
	del  int // bytes to delete at off before inserting
	ord  int
}

type siteInfo struct {
	ID   int    `json:"id"`
	File string `json:"file"`
	Line int    `json:"line"`
	Kind string `json:"kind"`
}

var (
	sites    []siteInfo
	unseamed []string
	l2       bool
	stats    = map[string]int{}
)

func die(f string, a ...any) {
	fmt.Fprintf(os.Stderr, "verif-instr: "+f+"\n", a...)
	os.Exit(2)
}

func main() {
	src := flag.String("src", "/repo", "frp working tree")
	golib := flag.String("golib", "", "golib module directory")
	out := flag.String("out", "", "scratch output directory")
	sim := flag.String("sim", "/verif/sim", "path of module verif/sim")
	flag.BoolVar(&l2, "l2", false, "insert L2 yields")
	flag.Parse()
	if *out == "" || *golib == "" {
		die("need -out and -golib")
	}
	for _, d := range []string{"client", "server", "pkg", "cmd", "assets"} {
		copyTree(filepath.Join(*src, d), filepath.Join(*out, d))
	}
	copyFile(filepath.Join(*src, "go.sum"), filepath.Join(*out, "go.sum"))
	copyTree(*golib, filepath.Join(*out, "_golib"))

	for _, d := range []string{"client", "server", "pkg", "_golib"} {
		root := filepath.Join(*out, d)
		filepath.WalkDir(root, func(p string, e fs.DirEntry, err error) error {
			if err != nil {
				return err
			}
			if e.IsDir() || !strings.HasSuffix(p, ".go") || strings.HasSuffix(p, "_test.go") {
				return nil
			}
			rel, _ := filepath.Rel(*out, p)
			instrument(p, rel)
			return nil
		})
	}

	gomod, err := os.ReadFile(filepath.Join(*src, "go.mod"))
	if err != nil {
		die("%v", err)
	}
	m := string(gomod) + fmt.Sprintf(`
require verif/sim v0.0.0
require github.com/anishathalye/porcupine v1.3.0
replace verif/sim => %s
replace github.com/fatedier/golib => ./_golib
`, *sim)
	if err := os.WriteFile(filepath.Join(*out, "go.mod"), []byte(m), 0o644); err != nil {
		die("%v", err)
	}
	sort.Strings(unseamed)
	meta := map[string]any{"sites": sites, "unseamed_calls": unseamed, "stats": stats, "l2": l2}
	b, _ := json.Marshal(meta)
	os.WriteFile(filepath.Join(*out, "instr.json"), b, 0o644)
	fmt.Printf("verif-instr: files=%d net_rewrites=%d transports=%d yields=%d unseamed=%d\n",
		stats["files"], stats["net"], stats["transport"], len(sites), len(unseamed))
}

func copyTree(src, dst string) {
	filepath.WalkDir(src, func(p string, e fs.DirEntry, err error) error {
		if err != nil {
			die("%v", err)
		}
		rel, _ := filepath.Rel(src, p)
		t := filepath.Join(dst, rel)
		if e.IsDir() {
			if e.Name() == ".git" {
				return filepath.SkipDir
			}
			return os.MkdirAll(t, 0o755)
		}
		if !e.Type().IsRegular() {
			return nil
		}
		copyFile(p, t)
		return nil
	})
}

func copyFile(src, dst string) {
	in, err := os.Open(src)
	if err != nil {
		die("%v", err)
	}
	defer in.Close()
	os.MkdirAll(filepath.Dir(dst), 0o755)
	o, err := os.OpenFile(dst, os.O_CREATE|os.O_TRUNC|os.O_WRONLY, 0o644)
	if err != nil {
		die("%v", err)
	}
	defer o.Close()
	if _, err := io.Copy(o, in); err != nil {
		die("%v", err)
	}
}

func importName(f *ast.File, path, def string) string {
	for _, im := range f.Imports {
		if strings.Trim(im.Path.Value, `"`) == path {
			if im.Name != nil {
				if im.Name.Name == "_" || im.Name.Name == "." {
					return ""
				}
				return im.Name.Name
			}
			return def
		}
	}
	return ""
}

func instrument(path, rel string) {
	srcb, err := os.ReadFile(path)
	if err != nil {
		die("%v", err)
	}
	fset := token.NewFileSet()
	f, err := parser.ParseFile(fset, path, srcb, parser.ParseComments|parser.SkipObjectResolution)
	if err != nil {
		// leave the file alone; the compiler will report it
		fmt.Fprintf(os.Stderr, "verif-instr: parse %s: %v (left unchanged)\n", rel, err)
		return
	}
	stats["files"]++
	tf := fset.File(f.Pos())
	off := func(p token.Pos) int { return tf.Offset(p) }
	var sp []splice
	add := func(o int, text string, del int) { sp = append(sp, splice{o, text, del, len(sp)}) }

	netName := importName(f, "net", "net")
	ipv4Name := importName(f, "golang.org/x/net/ipv4", "ipv4")
	httpName := importName(f, "net/http", "http")
	needSim := false

	// local identifiers that shadow the package names are rare in frp; guard anyway
	shadow := map[string]bool{}
	ast.Inspect(f, func(n ast.Node) bool {
		switch x := n.(type) {
		case *ast.AssignStmt:
			if x.Tok == token.DEFINE {
				for _, l := range x.Lhs {
					if id, ok := l.(*ast.Ident); ok {
						shadow[id.Name] = true
					}
				}
			}
		case *ast.Field:
			for _, id := range x.Names {
				shadow[id.Name] = true
			}
		case *ast.ValueSpec:
			for _, id := range x.Names {
				shadow[id.Name] = true
			}
		}
		return true
	})

	ast.Inspect(f, func(n ast.Node) bool {
		switch x := n.(type) {
		case *ast.SelectorExpr:
			id, ok := x.X.(*ast.Ident)
			if !ok {
				return true
			}
			if netName != "" && id.Name == netName && !shadow[netName] {
				if netFuncs[x.Sel.Name] {
					add(off(id.Pos()), "simnet", len(id.Name))
					needSim = true
					stats["net"]++
				} else if netUnseamed[x.Sel.Name] {
					unseamed = append(unseamed, fmt.Sprintf("%s:%d net.%s", rel, fset.Position(x.Pos()).Line, x.Sel.Name))
				}
			}
			if ipv4Name != "" && id.Name == ipv4Name && x.Sel.Name == "NewConn" && !shadow[ipv4Name] {
				add(off(id.Pos()), "simnet.NewIPv4Conn", len(id.Name)+1+len("NewConn"))
				needSim = true
				stats["net"]++
			}
		case *ast.CompositeLit:
			se, ok := x.Type.(*ast.SelectorExpr)
			if !ok {
				return true
			}
			id, ok := se.X.(*ast.Ident)
			if !ok || httpName == "" || id.Name != httpName || se.Sel.Name != "Transport" {
				return true
			}
			has := false
			for _, el := range x.Elts {
				if kv, ok := el.(*ast.KeyValueExpr); ok {
					if k, ok := kv.Key.(*ast.Ident); ok && (k.Name == "DialContext" || k.Name == "Dial") {
						has = true
					}
				}
			}
			if !has {
				add(off(x.Lbrace)+1, "DialContext: simnet.DialContext, ", 0)
				needSim = true
				stats["transport"]++
			}
		}
		return true
	})

	if l2 {
		newSite := func(p token.Pos, kind string) int {
			id := len(sites) + 1
			sites = append(sites, siteInfo{id, rel, fset.Position(p).Line, kind})
			return id
		}
		before := func(s ast.Stmt, kind string) {
			add(off(s.Pos()), fmt.Sprintf("simnet.Yield(%d); ", newSite(s.Pos(), kind)), 0)
			needSim = true
		}
		after := func(s ast.Stmt, kind string) {
			add(off(s.End()), fmt.Sprintf("; simnet.Yield(%d)", newSite(s.Pos(), kind)), 0)
			needSim = true
		}
		isRecv := func(e ast.Expr) bool {
			for {
				if p, ok := e.(*ast.ParenExpr); ok {
					e = p.X
					continue
				}
				break
			}
			u, ok := e.(*ast.UnaryExpr)
			return ok && u.Op == token.ARROW
		}
		doList := func(list []ast.Stmt) {
			for _, s := range list {
				switch x := s.(type) {
				case *ast.ExprStmt:
					if isRecv(x.X) {
						before(s, "recv")
						continue
					}
					call, ok := x.X.(*ast.CallExpr)
					if !ok {
						continue
					}
					switch fn := call.Fun.(type) {
					case *ast.SelectorExpr:
						switch fn.Sel.Name {
						case "Lock", "RLock":
							if len(call.Args) == 0 {
								before(s, "lock")
							}
						case "Unlock", "RUnlock":
							if len(call.Args) == 0 {
								after(s, "unlock")
							}
						}
					case *ast.Ident:
						if fn.Name == "close" && len(call.Args) == 1 {
							before(s, "close")
						}
					}
				case *ast.SendStmt:
					before(s, "send")
				case *ast.AssignStmt:
					if len(x.Rhs) == 1 && isRecv(x.Rhs[0]) {
						before(s, "recv")
					}
				case *ast.SelectStmt:
					before(s, "select")
				case *ast.GoStmt:
					if fl, ok := x.Call.Fun.(*ast.FuncLit); ok {
						add(off(fl.Body.Lbrace)+1, fmt.Sprintf(" simnet.Yield(%d);", newSite(fl.Body.Lbrace, "go")), 0)
						needSim = true
					}
				}
			}
		}
		ast.Inspect(f, func(n ast.Node) bool {
			switch x := n.(type) {
			case *ast.BlockStmt:
				doList(x.List)
			case *ast.CaseClause:
				doList(x.Body)
			case *ast.CommClause:
				doList(x.Body)
			}
			return true
		})
	}

	if !needSim {
		return
	}
	// import + keep-alive uses for possibly orphaned imports, on the package line.
	tail := "; import simnet \"verif/sim/simnet\""
	add(off(f.Name.End()), tail, 0)
	end := "\nvar _ = simnet.Yield\n"
	if netName != "" {
		end += "var _ " + netName + ".Addr\n"
	}
	if ipv4Name != "" {
		end += "var _ = " + ipv4Name + ".Version\n"
	}

	sort.SliceStable(sp, func(i, j int) bool {
		if sp[i].off != sp[j].off {
			return sp[i].off < sp[j].off
		}
		return sp[i].ord < sp[j].ord
	})
	var b strings.Builder
	pos := 0
	for _, s := range sp {
		if s.off < pos {
			die("%s: overlapping splice at %d", rel, s.off)
		}
		b.Write(srcb[pos:s.off])
		b.WriteString(s.text)
		pos = s.off + s.del
	}
	b.Write(srcb[pos:])
	b.WriteString(end)
	if err := os.WriteFile(path, []byte(b.String()), 0o644); err != nil {
		die("%v", err)
	}
}
