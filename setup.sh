#!/bin/bash
# Builds the framework tools from /verif sources only (offline) and warms the go1.26.8 build cache
# for the overlay-patched standard library.
set -e
cd "${VERIF_DIR:-/verif}"
export GOFLAGS=-mod=mod GOPROXY=off GOSUMDB=off GOTOOLCHAIN=local
mkdir -p bin
go build -o bin/gen-overlay ./overlay
go build -o bin/verif-instr ./instr
go build -o bin/simrun ./cmd/simrun
bin/simrun -build-only
