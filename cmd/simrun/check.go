package main

import (
	"encoding/json"
	"fmt"
	"os"
	"path/filepath"
	"regexp"
	"sort"
	"strings"
	"sync"
	"time"
)

// batchSpec describes one family of runs inside a property's check.
type batchSpec struct {
	World  string
	Faults bool
	Weight int     // share of the run budget
	Park   float64 // L2 park probability (0 = pure L1 order)
	Gos    float64
	MaxAct int
	Race   bool
	Knobs  map[string]int // fixed overrides
	Name   string
}

type propSpec struct {
	ID          string
	Level       string // evidence level
	Batches     []batchSpec
	QuickRuns   int
	QuickWall   time.Duration
	ThorRuns    int
	ThorWall    time.Duration
	RunWall     time.Duration // per-run watchdog
	Rule        string
	CrashCounts bool // the statement itself forbids crashes: a frp panic/fatal in this check's worlds is this property's violation
	Real, Stub  []string
	Assume      []string
}

var commonReal = []string{"server.Service", "client.Service", "pkg/* of frp", "golib (crypto, io.Join, mux, msg/json, dial hooks)", "yamux", "crypto/tls", "net/http", "x/net/websocket", "x/time/rate", "go-proxyproto", "quic-go (QUIC control transport, over a simulated packet socket)"}
var commonStub = []string{"network (simnet)", "backends", "users", "clock (testing/synctest bubble)", "Go runtime randomness (overlay)"}
var commonAssume = []string{
	"go1.26.8 runtime with the verif determinism overlay (mutex waits durable in synctest, seeded select/map/math-rand streams, no time-sliced preemption, bubble clock lands 1 ns past a timer deadline, no bubble timer fires sooner than 1 us after it was armed)",
	"one P, GC off: true parallel execution is not exercised",
	"TCP is a reliable in-order byte stream; bytes are never corrupted by the simulator",
	"the kcp transport and the xtcp direct path are outside the explored space (quic is inside: quic-go over the simulated packet network)",
	"sampling, not proof: a clean batch is evidence only",
}

var props = map[string]*propSpec{}

func reg(p *propSpec) {
	if p.QuickRuns == 0 {
		p.QuickRuns = 1000
	}
	if p.QuickWall == 0 {
		p.QuickWall = 60 * time.Second
	}
	if p.ThorRuns == 0 {
		p.ThorRuns = 120000
	}
	if p.ThorWall == 0 {
		p.ThorWall = 15 * time.Minute
	}
	if p.RunWall == 0 {
		p.RunWall = 120 * time.Second
	}
	if p.Real == nil {
		p.Real = commonReal
	}
	if p.Stub == nil {
		p.Stub = commonStub
	}
	p.Assume = append(append([]string{}, commonAssume...), p.Assume...)
	props[p.ID] = p
}

func init() {
	reg(&propSpec{ID: "C09", Level: "fault_enumeration",
		Batches: []batchSpec{
			{Name: "sequential+races", World: "ports", Weight: 5},
			{Name: "l2", World: "ports", Weight: 3, Park: 0.01, Gos: 0.02},
		},
		Stub: []string{"network (simnet)", "scripted clients (independent protocol implementation)", "users", "external port squatters", "clock"},
		Rule: "one run = one seeded history of register/close/drop/squat/probe/race operations by 1-3 scripted clients against real frps with a drawn allowPorts set and quota, checked step by step against a reference allocator and against the ports simnet really has bound; distinct = distinct event-log hash; non-trivial = history ran to its end",
	})
	reg(&propSpec{ID: "C04", Level: "exploration",
		Batches: []batchSpec{
			{Name: "l1", World: "authz", Weight: 5},
			{Name: "l2", World: "authz", Weight: 3, Park: 0.005, Gos: 0.02},
			{Name: "oidc", World: "oidc", Weight: 2},
		},
		Stub:   []string{"network (simnet)", "scripted clients, visitors and adversaries (independent protocol implementation)", "ssh client (x/crypto/ssh) for the tunnel gateway", "stub OIDC issuer (discovery document + JWKS over the simulated network, ES256 tokens minted by the harness)", "users", "clock"},
		Rule:   "one run = real frps (token auth, drawn additional scopes, TLS and mux on/off, finite heartbeat timeout) with an honest scripted client carrying traffic and a seeded sequence of adversarial histories (bad/missing/self-exempting logins, foreign or unknown work connections, unauthenticated first messages, invalid-heartbeat sessions, floods), in 40% of the runs with the ssh tunnel gateway (authorized / unauthorized key, or no ssh authentication and right / wrong / missing token); batch oidc: real frps with the OIDC method (audience, expiry and issuer checks drawn) against a stub issuer, scripted clients presenting valid tokens and 7-11 invalid variants (empty, garbage, unpublished key, alg none, empty signature, HS256, swapped payload, expired, wrong issuer, wrong or missing audience) in logins, heartbeats and work connections; distinct = distinct event-log hash",
		Assume: []string{"the kcp listener is not exercised; scripted peers enter through the bind port (tcp/tls), its websocket path or the QUIC listener, drawn per run"},
	})
	reg(&propSpec{ID: "C08", Level: "exploration",
		Batches: []batchSpec{
			{Name: "l1", World: "visitors", Weight: 5},
			{Name: "l2", World: "visitors", Weight: 3, Park: 0.005, Gos: 0.02},
			{Name: "real-visitors", World: "tunnel", Weight: 2},
		},
		Stub: []string{"network (simnet)", "scripted clients, visitors and adversaries (independent protocol implementation)", "users", "clock"},
		Rule: "one run = 1-3 stcp/sudp/xtcp proxies with drawn allowed-user lists and a seeded sequence of visitor connections and NAT-hole requests with right/wrong signatures, run ids (own, empty, unknown, foreign) and users, interleaved with proxy close/re-open; a fifth of the runs (batch real-visitors) are the tunnel world restricted to stcp/xtcp proxies: real frpc visitors are admitted and their streams (1 B to MBs, idle for up to 700 s, half-closes) compared byte by byte with what the other end wrote; distinct = distinct event-log hash",
	})
	reg(&propSpec{ID: "C15", Level: "fault_enumeration",
		Batches: []batchSpec{
			{Name: "l1", World: "plugins", Weight: 6},
			{Name: "l2", World: "plugins", Weight: 2, Park: 0.005, Gos: 0.02},
		},
		Stub: []string{"network (simnet)", "plugin HTTP servers (real net/http, scripted outcomes)", "scripted client", "users", "clock"},
		Rule: "one run = 0-3 stub plugin servers, each subscribed to a drawn subset of {Login, NewProxy, Ping, NewWorkConn, NewUserConn, CloseProxy} with a drawn outcome per operation (accept, accept-with-rewrite, reject, HTTP 500, connection reset, malformed JSON, unreachable); every operation is driven once and compared with the fold over the chain; distinct = distinct event-log hash",
	})
	reg(&propSpec{ID: "C17", Level: "exploration", CrashCounts: true,
		Batches: []batchSpec{
			{Name: "l1", World: "codec", Weight: 6},
			{Name: "l2", World: "codec", Weight: 2, Park: 0.005, Gos: 0.02},
			{Name: "nathole-frames", World: "nathole", Weight: 2},
		},
		Stub:   []string{"network (simnet)", "scripted peers (independent protocol implementation)", "users", "clock"},
		Rule:   "one run = real frps with an honest scripted client (independent codec: any drift of framing or field names breaks every login) and a seeded sequence of framing cases on fresh and established connections: 1-byte chunking, EOF at arbitrary offsets, unknown type bytes, negative/oversized lengths with withheld bodies, malformed bodies, golden frames of the client->server message types; every frame frps emits is re-parsed against the released field names; distinct = distinct event-log hash",
		Assume: []string{"value-level round trip over all field values of all 18 types is an input-only statement and is covered only as far as generated messages cross the simulated wire (DESIGN.md §9)"},
	})
	reg(&propSpec{ID: "C16", Level: "exploration", CrashCounts: true, RunWall: 240 * time.Second,
		Batches: []batchSpec{
			{Name: "barrage", World: "barrage", Weight: 4},
			{Name: "barrage-l2", World: "barrage", Weight: 3, Park: 0.01, Gos: 0.03},
			{Name: "barrage-race", World: "barrage", Weight: 2, Race: true, Park: 0.005, Gos: 0.02},
			{Name: "groups-race", World: "groups", Weight: 1, Race: true, Park: 0.01, Gos: 0.02},
			{Name: "visitors-race", World: "visitors", Weight: 1, Race: true, Park: 0.005, Gos: 0.02},
			{Name: "sessions-race", World: "sessions", Weight: 1, Race: true, Park: 0.005, Gos: 0.02},
			{Name: "workconn-race", World: "workconn", Weight: 1, Race: true, Park: 0.005, Gos: 0.02},
			{Name: "release-race", World: "release", Weight: 1, Race: true},
			{Name: "nathole", World: "nathole", Weight: 2, Park: 0.005, Gos: 0.02},
			{Name: "nathole-race", World: "nathole", Weight: 1, Race: true},
			// worlds in which real client code runs (frpc, and the ssh gateway's virtual client inside frps)
			{Name: "authz-l2", World: "authz", Weight: 1, Park: 0.005, Gos: 0.02},
			{Name: "ssh-churn-l2", World: "authz", Weight: 2, Park: 0.01, Gos: 0.03, Knobs: map[string]int{"ssh_gateway": 1, "ssh_churn": 1, "nattacks": 30}},
			{Name: "liveness-l2", World: "liveness", Weight: 1, Park: 0.005, Gos: 0.02},
			{Name: "client-l2", World: "client", Weight: 1, Park: 0.005, Gos: 0.02},
			{Name: "client-race", World: "client", Weight: 1, Race: true, Park: 0.005, Gos: 0.02},
		},
		Stub: []string{"network (simnet)", "scripted peers and scripted server (independent protocol implementation)", "ssh client for the tunnel gateway", "users", "clock"},
		Rule: "one run = real frps with an honest client and 2-5 authenticated scripted peers sending every message type with extreme field values (negative/huge numbers, empty/very long/non-UTF-8 strings, nil maps, malformed addresses) concurrently with user probes, visitor and NAT-hole traffic; plus race-detector builds of this and the lifecycle worlds, whose reports are classified by accessed object (map operation / channel close in frp server or pkg code); any frp panic or fatal error in any world counts, including frpc (client, liveness worlds) and the ssh gateway's virtual client inside frps (authz world); distinct = distinct event-log hash",
	})
	reg(&propSpec{ID: "C02", Level: "exploration",
		Batches: []batchSpec{
			{Name: "fault-free", World: "http", Weight: 6},
			{Name: "fault-free-l2", World: "http", Weight: 2, Park: 0.002, Gos: 0.01},
			{Name: "plugins", World: "httpplugins", Weight: 2},
		},
		Stub:   []string{"network (simnet)", "raw HTTP/1.1 users (plain or over crypto/tls)", "recording HTTP/1.1 backend (plain or TLS)", "clock"},
		Rule:   "one run = real frps + real frpc with an http proxy (drawn Host rewrite, request/response header sets, encryption, compression, bandwidth limit, mux, TLS, pool) and 1-4 keep-alive user connections each sending 1-8 generated requests (methods, percent-encoded paths, queries, multi-valued mixed-case headers, content-length and chunked bodies) answered by a recording backend with generated responses (status, headers, content-length/chunked/close-delimited bodies); concurrently one request to an unreachable and one to a silent backend, 0-3 protocol-upgrade or CONNECT tunnels with 0-48 KB per direction, and (half of the runs) a second proxy on the same host routed by http user with its own backend; batch plugins: the same request/response generator through the http2http, http2https, https2http and https2https client plugins behind an http, https or tcp proxy; distinct = distinct event-log hash",
		Assume: []string{"behind a plain tcp proxy no component in front of the plugin knows the user's address, so X-Forwarded-For is not checked there", "HTTP/2 to the https2http(s) plugins is not exercised (enableHTTP2=false)", "the proxy's HTTP client may add 'Accept-Encoding: gzip' when the user sent none; header order across different names is not compared"},
	})
	reg(&propSpec{ID: "C06", Level: "exploration",
		Batches: []batchSpec{
			{Name: "l1", World: "routes", Weight: 6},
			{Name: "l2", World: "routes", Weight: 2, Park: 0.005, Gos: 0.02},
		},
		Stub: []string{"network (simnet)", "scripted route owners (independent protocol implementation) stamping and recording every request", "raw HTTP / TLS ClientHello / CONNECT users", "clock"},
		Rule: "one run = seeded history of route registrations (exact hosts, wildcards with >=2 fixed labels, catch-all, nested locations, user-restricted and unrestricted, http/https/tcpmux), acknowledged removals and requests (host case/port/trailing-dot variants, paths, users, origin- and absolute-form, keep-alive reuse, ClientHello SNI, CONNECT) checked against a reference most-specific matcher written from the statement; distinct = distinct event-log hash",
	})
	reg(&propSpec{ID: "C07", Level: "exploration",
		Batches: []batchSpec{
			{Name: "routes", World: "routes", Weight: 6},
			{Name: "routes-l2", World: "routes", Weight: 2, Park: 0.005, Gos: 0.02},
			{Name: "services", World: "services", Weight: 2},
			{Name: "groups", World: "groups", Weight: 2},
		},
		Stub:   []string{"network (simnet)", "scripted route owners (independent protocol implementation) stamping and recording every request", "raw HTTP / TLS ClientHello / CONNECT / SOCKS5 users", "target server behind the proxy plugins", "clock"},
		Rule:   "batch services: real frps (dashboard API) + real frpc (admin API; static_file, http_proxy and socks5 plugins behind tcp proxies), every service with its own drawn user name and password (colons and spaces allowed in passwords); 4-20 credential variants per service (none, exact, extended/prefix/empty/swapped user or password, malformed base64, another service's credentials) on GET/PUT/POST/DELETE, CONNECT, absolute-form and SOCKS5 sub-negotiation; oracle: served / tunnelled / authenticated implies exact credentials, refusals are challenges (401/407) or closes and reach neither the target nor a state-changing handler. Batches routes: same world as C06 with password-protected http and tcpmux routes mixed with unprotected and user-routed ones on the same hosts; request shapes: origin-form and absolute-form targets, HTTP/1.1 keep-alive, HTTP/1.0, HTTP/2 over clear text with prior knowledge and via the HTTP/1.1 upgrade (several requests per h2c connection), Authorization / Proxy-Authorization in any casing, right, wrong, missing and foreign credentials; oracle: a protected route's backend saw a request only if the request carried exactly its credentials. Batch groups: the load-balancing world of C13 with http / tcpmux members that carry their own credentials (same as, or different from, those of the member that created the group): whoever serves a request must be configured with exactly the credentials the request carried; distinct = distinct event-log hash",
		Assume: []string{"an authorised plain (non-CONNECT) request through the http_proxy plugin and an authorised SOCKS5 CONNECT would dial through net/http's DefaultTransport / go-socks5's dialer, which are outside the network seam: authorised traffic is checked through CONNECT (http_proxy) and through the authentication status (socks5) only", "dashboard and admin static assets (/static/) are not requested: the asset file system is only loaded by the frps/frpc main programs"},
	})
	reg(&propSpec{ID: "C03", Level: "exploration", CrashCounts: true,
		Batches: []batchSpec{
			{Name: "fault-free", World: "udp", Weight: 5},
			{Name: "fault-free-l2", World: "udp", Weight: 1, Park: 0.002, Gos: 0.01},
			{Name: "faults", World: "udp", Faults: true, Weight: 3},
			// datagrams of several users in flight at once under the happens-before race detector: buffers shared
			// between the per-user paths corrupt payloads only under true parallelism, which the simulation does not have
			{Name: "race", World: "udp", Weight: 1, Race: true, Park: 0.005, Gos: 0.02},
		},
		Stub: []string{"network (simnet UDP with per-leg loss/duplication/reordering)", "UDP users (several source addresses)", "UDP responder backend", "clock"},
		Rule: "one run = real frps + real frpc with a udp proxy (or sudp proxy + visitor frpc), drawn packet size, encryption, compression, mux, TLS, 1-6 user sockets each sending 1-60 datagrams of 12..packet-size bytes to the public endpoint; the backend answers each with a function of the request; multiset inclusion is measured at the public socket and at the client's local sockets so that injected loss/duplication is not blamed on frp; faults batch adds per-leg loss/dup/reorder and a work-connection reset; distinct = distinct event-log hash",
	})
	reg(&propSpec{ID: "C20", Level: "exploration", CrashCounts: true,
		Batches: []batchSpec{
			{Name: "l1", World: "nathole", Weight: 5},
			{Name: "l2", World: "nathole", Weight: 3, Park: 0.01, Gos: 0.02},
		},
		Stub:   []string{"network (simnet TCP + UDP)", "scripted visitor, owner and third-party controls (independent protocol implementation)", "clock"},
		Real:   append(append([]string{}, commonReal...), "pkg/nathole controller, analysis, classification; nathole.MakeHole for both roles over simulated UDP"),
		Rule:   "one run = 2-12 hole-punching sessions between a scripted visitor and a scripted xtcp owner on real frps with generated NAT observations (equal/changing IPs and ports, edge ports, too few, malformed, public), right/wrong signatures, unknown proxies, and message orders (report before the owner's answer, duplicates, unknown session ids, silent owner); responses are checked for pairing, complementarity, mode rules, candidate ranges, third-party silence; finally the real MakeHole routine is run for both roles on an unfiltered simulated UDP network; distinct = distinct event-log hash",
		Assume: []string{"STUN discovery is not simulated: observations are generated, and for the meet test they are the peers' real simulated addresses"},
	})
	reg(&propSpec{ID: "C05", Level: "exploration",
		Batches: []batchSpec{
			{Name: "l1", World: "wire", Weight: 6},
			{Name: "l2", World: "wire", Weight: 2, Park: 0.003, Gos: 0.02},
			{Name: "client-plugins", World: "httpplugins", Weight: 1},
		},
		Stub:   []string{"network (simnet) with a byte tap on every connection accepted at the server's bind port", "echo / HTTP backend", "users", "scripted peers and a scripted TLS server (crypto/tls, independent of frp's transport code)", "clock"},
		Real:   append(append([]string{}, commonReal...), "pkg/transport TLS configuration, pkg/util/net TLS dial/listen wrappers, golib crypto + snappy streams"),
		Rule:   "one run = either (a) real frps + two real frpc (tcp, stcp + visitor, http with credentials) with a drawn configuration (TLS on/off, custom first byte, tcp/websocket, mux, pool, proxy encryption, compression) carrying per-run high-entropy markers as token, secret key, http password, proxy name and payload, after which every byte that crossed the client-server path is searched for the markers (raw and base64); or (b) a policy scenario: a server with forced TLS and/or a trusted CA against scripted peers (plaintext, TLS without / with rogue / with good certificate, all 256 first bytes followed by a plaintext login), or a real frpc with trusted CA + server name against a scripted TLS server with the right identity, a rogue-CA identity or another name; or (c, batch client-plugins) a proxy served by one of the http2http/http2https/https2http/https2https client plugins with drawn encryption/compression/TLS, the path tapped and searched for request and response text; distinct = distinct event-log hash",
		Assume: []string{"kcp and wss transports are not simulated; quic is (datagram tap on the QUIC port)", "a marker is searched raw and base64-encoded only; other reversible encodings of a secret would not be noticed"},
	})
	reg(&propSpec{ID: "C14", Level: "fault_enumeration",
		Batches: []batchSpec{
			{Name: "l1", World: "liveness", Weight: 6},
			{Name: "l2", World: "liveness", Weight: 2, Park: 0.002, Gos: 0.01},
		},
		Stub:   []string{"network (simnet) with partitions, resets, node crash/restart", "scripted client / scripted server (independent protocol implementation)", "echo backend", "users", "clock (simulated days cost milliseconds)"},
		Rule:   "one run = one of five scenarios drawn with its parameters: (a) real frps vs a scripted client that falls silent (just silent / blackholed / chatty without heartbeats) at an arbitrary moment, heartbeat timeout 3-90 s, mux on/off; (b) valid heartbeats with jitter for up to 20000 beats, or real frpc+frps left alone for 1-5 simulated days; (c) real frpc vs a scripted server that stops answering heartbeats; (d) real frpc+frps with 1-7 faults (connection resets, blackholes of 2 s - 2 h, server crash and restart after 1 s - 10 min) then bounded healing incl. tunnel round trips; (e) real frpc vs an absent / refusing / flapping scripted server for 30 s - 6 h: attempt-rate cap, then re-login and re-registration of all proxies; distinct = distinct event-log hash",
		Assume: []string{"with stream multiplexing, a blackhole that cuts a mux frame in half delays the server-side teardown until the mux keep-alive gives up (interval 30 s + 10 s write timeout); the bound used in that one case is heartbeatTimeout + 48 s (DESIGN.md §8 C14)"},
	})
	reg(&propSpec{ID: "C19", Level: "exploration",
		Batches: []batchSpec{
			{Name: "l1", World: "client", Weight: 6},
			{Name: "l2", World: "client", Weight: 2, Park: 0.005, Gos: 0.02},
		},
		Real:   []string{"client.Service, client/proxy manager and wrapper, client/health monitor, client control and connector", "golib", "net/http (health probes)"},
		Stub:   []string{"network (simnet) with per-dial verdicts (accept / refuse / blackhole) on the probe target", "scripted server (independent protocol implementation) with per-proxy reply policy: success, error, transient error, late, never", "echo / HTTP probe backends", "clock"},
		Rule:   "one run = either a reload history (1-6 configuration sets over six proxies of five types - add, remove, change, reorder - applied at moments between 0 and 70 s after the previous one, against server reply policies) or a health history (tcp or http probes with drawn interval/timeout/maxFailed against a schedule of 12-50 probe outcomes); oracles over the message trace at the scripted server, the status API and a work-connection probe; distinct = distinct event-log hash",
		Assume: []string{"visitors are not reloaded in this world; the timing constants of the proxy wrapper (3 s check, 20 s wait, 30 s retry) are not mirrored: convergence is given 110 s"},
	})
	reg(&propSpec{ID: "C10", Level: "fault_enumeration",
		Batches: []batchSpec{
			{Name: "cycles", World: "release", Weight: 5},
			{Name: "cycles-l2", World: "release", Weight: 3, Park: 0.005, Gos: 0.02},
		},
		Stub: []string{"network (simnet)", "scripted clients (independent protocol implementation)", "users", "clock"},
		Rule: "one run = a drawn set of proxy types registered by a scripted client, then N cycles of {CloseProxy | connection drop/reset | re-login with the same run id | heartbeat timeout} each followed by the identical registration, plus registrations failing part-way (conflicting second domain, listen failure injected after port acquisition); footprint sampled after cycle 2 and after the last cycle; distinct = distinct event-log hash",
	})
	reg(&propSpec{ID: "C11", Level: "exploration",
		Batches: []batchSpec{
			{Name: "l1", World: "workconn", Weight: 4},
			{Name: "l2", World: "workconn", Weight: 4, Park: 0.01, Gos: 0.02},
			{Name: "l2-heavy", World: "workconn", Weight: 2, Park: 0.06, Gos: 0.1},
		},
		Stub: []string{"network (simnet)", "scripted clients (independent protocol implementation)", "users", "clock"},
		Rule: "one run = one scripted client (pool size, work-connection behaviour good/late/never/dead drawn) with 1-16 simultaneous users on one accept path (direct, group, tcpmux vhost, stcp visitor), then a surplus-offer flood and a session end with work connections arriving around teardown; distinct = distinct event-log hash",
	})
	reg(&propSpec{ID: "C12", Level: "exploration",
		Batches: []batchSpec{
			{Name: "l1", World: "sessions", Weight: 4},
			{Name: "l2", World: "sessions", Weight: 4, Park: 0.01, Gos: 0.02},
		},
		Stub: []string{"network (simnet)", "scripted clients (independent protocol implementation)", "users", "clock"},
		Rule: "one run = seeded history of login/register/close(own, foreign)/probe/re-login with the same run id (single and 2-3 concurrent)/disconnect by 2-3 scripted clients, checked against a name->owner and run-id->session model; distinct = distinct event-log hash",
	})
	reg(&propSpec{ID: "C13", Level: "exploration", CrashCounts: true,
		Batches: []batchSpec{
			{Name: "l1", World: "groups", Weight: 3},
			{Name: "l2", World: "groups", Weight: 5, Park: 0.02, Gos: 0.03},
		},
		Stub: []string{"network (simnet)", "scripted clients (independent protocol implementation)", "users", "clock"},
		Rule: "one run = seeded history of joins (right/wrong key, same/different endpoint parameters), leaves, session drops, user connections, http rotation sweeps and last-leave-racing-join steps on one tcp, http or tcpmux group, checked against a membership model; distinct = distinct event-log hash",
	})
	reg(&propSpec{ID: "C01", Level: "exploration",
		Batches: []batchSpec{
			{Name: "fault-free", World: "tunnel", Weight: 6},
			{Name: "fault-free-l2", World: "tunnel", Weight: 2, Park: 0.002, Gos: 0.01},
			{Name: "faults", World: "tunnel", Faults: true, Weight: 2},
			{Name: "bwlimit", World: "bwlimit", Weight: 1},
		},
		Rule: "one run = one seeded world (frps + 1-2 frpc + backends + users) with drawn option lattice point, payloads, chunking, close modes and network schedule (batch bwlimit: one tcp proxy limited to 2-32 KB/s on either side moving 100-600 KB per direction in write blocks of 1-256 KB, every interval of deliveries compared with limit x dt + one burst + 80 KB); distinct = distinct canonical event-log hash; non-trivial = at least one proxy came up and every connection ran to its oracle verdict",
	})
}

// ---------------------------------------------------------------- known findings

type knownFinding struct {
	Property    string `json:"property"`
	Oracle      string `json:"oracle"`
	Sig         string `json:"sig"`
	Description string `json:"description"`
	Status      string `json:"status"` // open | fixed
	Fixed       string `json:"fixed,omitempty"`
}

func loadKnown() []knownFinding {
	var k []knownFinding
	b, err := os.ReadFile(filepath.Join(verifDir, "known_findings.json"))
	if err != nil {
		return nil
	}
	if err := json.Unmarshal(b, &k); err != nil {
		die2("known_findings.json: %v", err)
	}
	return k
}

func isKnown(k []knownFinding, v Violation) *knownFinding {
	for i := range k {
		if k[i].Status == "open" && k[i].Property == v.Property && k[i].Oracle == v.Oracle && k[i].Sig == v.Sig {
			return &k[i]
		}
	}
	return nil
}

// ---------------------------------------------------------------- crash classification

var frameRe = regexp.MustCompile(`(?m)^(github\.com/fatedier/frp/(client|server|pkg|cmd)[^\s(]*|github\.com/fatedier/golib/[^\s(]*|github\.com/fatedier/frp/verifharness[^\s(]*|verif/sim/[^\s(]*)`)

// classifyCrash turns a crashed run into a C16 violation when the panic/fatal
// originates in frp or golib code, else into a harness error.
func classifyCrash(res *Result) (v *Violation, harnessErr string) {
	s := res.Crash
	idx := strings.Index(s, "panic: ")
	fatal := strings.Index(s, "fatal error: ")
	kind := "panic"
	if idx < 0 || (fatal >= 0 && fatal < idx) {
		idx = fatal
		kind = "fatal"
	}
	if idx < 0 {
		return nil, "run process died without panic/fatal banner: " + tail(s, 30)
	}
	body := s[idx:]
	first := strings.SplitN(body, "\n", 2)[0]
	if strings.Contains(first, "deadlock: main bubble goroutine has exited") {
		return nil, "bubble ended without result: " + tail(s, 30)
	}
	// the stack of the panicking goroutine is the first goroutine block after the banner
	blocks := strings.SplitN(body, "\n\n", 3)
	stack := body
	if len(blocks) >= 2 {
		stack = blocks[1]
		if !strings.HasPrefix(strings.TrimSpace(stack), "goroutine") && len(blocks) >= 3 {
			stack = blocks[2]
		}
	}
	frames := frameRe.FindAllString(stack, -1)
	if kind == "fatal" && strings.Contains(first, "concurrent map") {
		// all goroutines are dumped; the culprit is the first one
	}
	top := ""
	for _, f := range frames {
		if strings.HasPrefix(f, "verif/sim/") {
			continue
		}
		top = f
		break
	}
	if top == "" || strings.Contains(top, "verifharness") {
		return nil, "harness crash: " + first + "\n" + tail(stack, 30)
	}
	msg := first
	msg = regexp.MustCompile(`0x[0-9a-f]+`).ReplaceAllString(msg, "0x?")
	msg = regexp.MustCompile(`\d{2,}`).ReplaceAllString(msg, "N")
	if len(msg) > 120 {
		msg = msg[:120]
	}
	return &Violation{Property: "C16", Oracle: kind, Sig: top + "|" + msg,
		Detail: first + "\n" + tail(stack, 40)}, ""
}

// postProcess attaches violations derived from the process outcome (frp panics/fatals, race reports).
func postProcess(in RunInput, r *Result) {
	if in.Race && r.Verdict != "crash" && r.Verdict != "hang" {
		r.Violations = append(r.Violations, classifyRaces(r.Crash)...)
	}
	if r.Verdict == "crash" {
		if v, _ := classifyCrash(r); v != nil {
			r.Violations = append(r.Violations, *v)
		}
	}
}

// ---------------------------------------------------------------- batch execution

type batchStats struct {
	runs, ok, violations, errors, hangs, crashes int
	nontrivial                                   int
	hashes                                       map[string]bool
	ntHashes                                     map[string]bool
	counters, probes, checks                     map[string]int
	simTime                                      float64
	steps                                        int
	yields, yieldActs                            int
	maxYieldSites, maxYieldPairs                 int
	samples                                      []map[string]any
	perBatch                                     map[string]int
	errSamples                                   []string
	wall                                         float64
}

type found struct {
	in  RunInput
	res *Result
	v   Violation
}

func newStats() *batchStats {
	return &batchStats{hashes: map[string]bool{}, ntHashes: map[string]bool{}, counters: map[string]int{}, probes: map[string]int{}, checks: map[string]int{}, perBatch: map[string]int{}}
}

func (st *batchStats) add(in RunInput, res *Result, bname string) {
	st.runs++
	st.perBatch[bname]++
	switch res.Verdict {
	case "ok":
		st.ok++
	case "violation":
		st.violations++
	case "hang":
		st.hangs++
	case "crash":
		st.crashes++
	default:
		st.errors++
	}
	if res.LogHash != "" {
		st.hashes[res.LogHash] = true
		if res.Nontrivial {
			st.ntHashes[res.LogHash] = true
		}
	}
	if res.Nontrivial {
		st.nontrivial++
	}
	for k, v := range res.Counters {
		st.counters[k] += v
	}
	for k, v := range res.Probes {
		st.probes[k] += v
	}
	for k, v := range res.Checks {
		st.checks[k] += v
	}
	st.simTime += res.SimTime
	st.steps += res.Steps
	st.yields += res.Yields
	st.yieldActs += res.YieldActs
	if res.YieldSites > st.maxYieldSites {
		st.maxYieldSites = res.YieldSites
	}
	if res.YieldPairs > st.maxYieldPairs {
		st.maxYieldPairs = res.YieldPairs
	}
	st.wall += res.WallS
	if len(st.samples) < 4 && res.Nontrivial {
		st.samples = append(st.samples, map[string]any{"seed": res.Seed, "world": res.World, "batch": bname, "knobs": res.Knobs,
			"sample": res.Sample, "steps": res.Steps, "sim_time_s": res.SimTime, "log_hash": res.LogHash, "checks": res.Checks})
	}
	if (res.Verdict == "error" || res.Verdict == "hang") && len(st.errSamples) < 5 {
		st.errSamples = append(st.errSamples, fmt.Sprintf("seed=%d world=%s: %s %s", res.Seed, res.World, res.Error, tail(res.Crash, 12)))
	}
}

func mkInput(p *propSpec, b batchSpec, tier string, seed uint64) RunInput {
	in := RunInput{World: b.World, Property: p.ID, Seed: seed, Tier: tier, Faults: b.Faults, Race: b.Race}
	if b.Knobs != nil {
		in.Knobs = map[string]int{}
		for k, v := range b.Knobs {
			in.Knobs[k] = v
		}
	}
	if b.Park > 0 || b.Gos > 0 {
		in.Yield = &YieldInput{ParkProb: b.Park, GoschedProb: b.Gos, MaxActs: b.MaxAct}
	}
	return in
}

func checkProperty(id, tier string, seed uint64, budget time.Duration, maxRuns int) int {
	p, ok := props[id]
	if !ok {
		die2("property %s has no check", id)
	}
	if only := os.Getenv("VERIF_ONLY_BATCH"); only != "" { // development aid: restrict to one batch (evidence then covers only it)
		var keep []batchSpec
		for _, b := range p.Batches {
			if b.Name == only {
				keep = append(keep, b)
			}
		}
		if len(keep) == 0 {
			die2("no batch %q in %s", only, id)
		}
		cp := *p
		cp.Batches = keep
		p = &cp
	}
	needRace := false
	for _, b := range p.Batches {
		if b.Race {
			needRace = true
		}
	}
	bld := ensureBuild(needRace)
	runDir, err := os.MkdirTemp("", "verif-runs-")
	if err != nil {
		die2("%v", err)
	}
	defer os.RemoveAll(runDir)

	nruns, wall := p.QuickRuns, p.QuickWall
	if tier == "thorough" {
		nruns, wall = p.ThorRuns, p.ThorWall
	}
	if budget > 0 {
		wall = budget
	}
	if maxRuns > 0 {
		nruns = maxRuns
	}
	// schedule: weighted round robin over batches
	var sched []batchSpec
	for _, b := range p.Batches {
		if !bld.l2 && (b.Park > 0 || b.Gos > 0) {
			continue
		}
		for i := 0; i < b.Weight; i++ {
			sched = append(sched, b)
		}
	}
	st := newStats()
	known := loadKnown()
	var mu sync.Mutex
	var founds []found
	knownSeen := map[string]int{}
	var otherSamples []string
	nUnknown := 0
	var otherProps = map[string]int{}
	deadline := time.Now().Add(wall)
	jobs := make(chan int)
	var wg sync.WaitGroup
	stop := false
	for wkr := 0; wkr < workers; wkr++ {
		wg.Add(1)
		go func() {
			defer wg.Done()
			for i := range jobs {
				b := sched[i%len(sched)]
				in := mkInput(p, b, tier, splitmix(seed, i))
				res := execRun(bld, in, runDir, p.RunWall)
				mu.Lock()
				st.add(in, res, b.Name)
				if in.Race && res.Verdict != "crash" && res.Verdict != "hang" {
					res.Violations = append(res.Violations, classifyRaces(res.Crash)...)
				}
				if res.Verdict == "crash" {
					if v, herr := classifyCrash(res); v != nil {
						res.Violations = append(res.Violations, *v)
					} else {
						res.Verdict = "error"
						res.Error = herr
						st.crashes--
						st.errors++
						if len(st.errSamples) < 5 {
							st.errSamples = append(st.errSamples, fmt.Sprintf("seed=%d: %s", res.Seed, herr))
						}
					}
				}
				for vi := range res.Violations {
					if p.CrashCounts && id != "C16" && res.Violations[vi].Property == "C16" {
						res.Violations[vi].Property = id
						res.Violations[vi].Oracle = "crash-" + res.Violations[vi].Oracle
					}
				}
				for _, v := range res.Violations {
					if v.Property == id {
						if kf := isKnown(known, v); kf != nil {
							// a listed finding: counted, one example kept, never crowds out other violations
							knownSeen[v.Oracle+"/"+v.Sig]++
							if knownSeen[v.Oracle+"/"+v.Sig] == 1 {
								founds = append(founds, found{in, res, v})
							}
							continue
						}
						nUnknown++
						if nUnknown <= 64 {
							founds = append(founds, found{in, res, v})
						}
						if nUnknown >= 3 {
							stop = true
						}
					} else {
						otherProps[v.Property+"/"+v.Oracle+"/"+v.Sig]++
						if otherProps[v.Property+"/"+v.Oracle+"/"+v.Sig] == 1 {
							// keep one replayable example of an alarm that belongs to another property's check
							otherSamples = append(otherSamples, fmt.Sprintf("%s/%s/%s world=%s seed=%d faults=%v yield=%v tier=%s: %s", v.Property, v.Oracle, v.Sig, in.World, in.Seed, in.Faults, in.Yield != nil, in.Tier, v.Detail))
							fmt.Fprintf(os.Stderr, "simrun: alarm of another property: %s\n%s\n", otherSamples[len(otherSamples)-1], tail(res.Crash, 40))
						}
					}
				}
				mu.Unlock()
			}
		}()
	}
	issued := 0
	for i := 0; i < nruns; i++ {
		mu.Lock()
		s := stop
		mu.Unlock()
		if s || time.Now().After(deadline) {
			break
		}
		jobs <- i
		issued++
	}
	close(jobs)
	wg.Wait()

	// group findings by (oracle, sig)
	type grp struct {
		f     found
		count int
	}
	groups := map[string]*grp{}
	var order []string
	for _, f := range founds {
		k := f.v.Oracle + "|" + f.v.Sig
		if g, ok := groups[k]; ok {
			g.count++
		} else {
			groups[k] = &grp{f, 1}
			order = append(order, k)
		}
	}
	sort.Strings(order)
	exit := 0
	nviol := 0
	var flaky []string
	for _, k := range order {
		g := groups[k]
		if kf := isKnown(known, g.f.v); kf != nil {
			continue // printed below, once per listed finding
		}
		// minimise + confirm
		min := minimise(bld, runDir, p, g.f)
		okc := 0
		var last *Result
		for i := 0; i < 2; i++ {
			r := execRun(bld, min, runDir, p.RunWall)
			postProcess(min, r)
			if hasViolation(r, g.f.v) {
				okc++
				last = r
			}
		}
		if okc < 2 {
			flaky = append(flaky, fmt.Sprintf("%s/%s seed=%d reproduced %d/2", g.f.v.Oracle, g.f.v.Sig, g.f.in.Seed, okc))
			continue
		}
		path := writeReplay(id, min, g.f.v, last, bld)
		fmt.Printf("VIOLATION property=%s replay=%s\n", id, path)
		fmt.Printf("  oracle=%s sig=%s\n  %s\n", g.f.v.Oracle, g.f.v.Sig, strings.ReplaceAll(g.f.v.Detail, "\n", "\n  "))
		nviol++
		exit = 1
	}
	if len(flaky) > 0 && exit == 0 {
		fmt.Fprintf(os.Stderr, "simrun: non-reproducible failures (inconclusive): %v\n", flaky)
		exit = 2
	}
	if st.runs == 0 || st.nontrivial == 0 {
		fmt.Fprintf(os.Stderr, "simrun: no non-trivial run completed (runs=%d errors=%d hangs=%d): %v\n", st.runs, st.errors, st.hangs, st.errSamples)
		if exit == 0 {
			exit = 2
		}
	}
	if exit == 0 && (st.errors+st.hangs)*5 > st.runs {
		fmt.Fprintf(os.Stderr, "simrun: too many harness errors/hangs (%d+%d of %d): %v\n", st.errors, st.hangs, st.runs, st.errSamples)
		exit = 2
	}
	// every listed (open) finding of this property is announced, seen in this batch or not
	for _, kf := range known {
		if kf.Status == "open" && kf.Property == id {
			fmt.Printf("KNOWN-FINDING: property=%s %s [%s/%s] (seen in %d runs of this batch)\n", id, kf.Description, kf.Oracle, kf.Sig, knownSeen[kf.Oracle+"/"+kf.Sig])
		}
	}
	evKnownSeen = knownSeen
	writeEvidence(p, tier, seed, st, nviol, otherProps, flaky, bld)
	fmt.Fprintf(os.Stderr, "simrun: %s %s: runs=%d ok=%d viol=%d err=%d hang=%d crash=%d nontrivial=%d distinct=%d simtime=%.0fs wall=%.1fs exit=%d\n",
		id, tier, st.runs, st.ok, st.violations, st.errors, st.hangs, st.crashes, st.nontrivial, len(st.ntHashes), st.simTime, time.Since(startWall).Seconds(), exit)
	if len(st.errSamples) > 0 && verbose {
		fmt.Fprintf(os.Stderr, "errors: %s\n", strings.Join(st.errSamples, "\n"))
	}
	return exit
}

var raceFrpFrame = regexp.MustCompile(`github\.com/fatedier/(frp/(server|pkg|client)|golib)/[^\s(]*`)

// classifyRaces turns race-detector reports into C16 violations when the conflicting access is a map
// operation or a channel close reached from frp server/pkg code on both sides.
func classifyRaces(stderr string) []Violation {
	var out []Violation
	seen := map[string]bool{}
	for _, blk := range strings.Split(stderr, "==================") {
		if !strings.Contains(blk, "WARNING: DATA RACE") {
			continue
		}
		// the two access stacks precede the first "Goroutine N (" line
		body := blk
		if i := strings.Index(body, "\nGoroutine "); i > 0 {
			body = body[:i]
		}
		parts := regexp.MustCompile(`(?m)^(Previous )?([Rr]ead|[Ww]rite) at `).Split(body, -1)
		if len(parts) < 3 {
			continue
		}
		a, b := parts[1], parts[2]
		// only map accesses: a concurrent map read/write is an unrecoverable fatal error in production, whereas a
		// send racing a channel close is a panic that frp recovers from (an unrecovered one is caught as a crash)
		isTable := func(s string) bool {
			return strings.Contains(s, "runtime.map") || strings.Contains(s, "internal/runtime/maps.")
		}
		// the access itself must be in frp code: innermost frame that is not the Go runtime
		inner := func(s string) string {
			for _, l := range strings.Split(s, "\n") {
				l = strings.TrimSpace(l)
				if l == "" || strings.HasPrefix(l, "0x") || strings.Contains(l, " by goroutine ") || strings.HasPrefix(l, "/") || strings.Contains(l, ".go:") {
					continue
				}
				if strings.HasPrefix(l, "runtime.") || strings.HasPrefix(l, "internal/runtime/") || strings.HasPrefix(l, "sync.") || strings.HasPrefix(l, "sync/atomic.") {
					continue
				}
				return l
			}
			return ""
		}
		fa, fb := raceFrpFrame.FindString(inner(a)), raceFrpFrame.FindString(inner(b))
		if fa == "" || fb == "" || !(isTable(a) || isTable(b)) {
			continue
		}
		pair := []string{fa, fb}
		sort.Strings(pair)
		sig := pair[0] + " <-> " + pair[1]
		if seen[sig] {
			continue
		}
		seen[sig] = true
		out = append(out, Violation{Property: "C16", Oracle: "race", Sig: sig, Detail: "unsynchronised concurrent access to a shared table:\n" + tail(strings.TrimSpace(body), 40)})
	}
	return out
}

func hasViolation(r *Result, v Violation) bool {
	for _, x := range r.Violations {
		if x.Sig != v.Sig {
			continue
		}
		if x.Property == v.Property && x.Oracle == v.Oracle {
			return true
		}
		// a crash re-attributed to a property whose statement forbids crashes
		if x.Property == "C16" && v.Oracle == "crash-"+x.Oracle {
			return true
		}
	}
	return false
}

// minimise shrinks the failing input: pin all knobs, then try simpler values
// knob by knob and drop perturbation, keeping a candidate only if the same
// violation class recurs.
func minimise(bld *build, runDir string, p *propSpec, f found) RunInput {
	in := f.in
	in.Knobs = map[string]int{}
	for k, v := range f.res.Knobs {
		in.Knobs[k] = v
	}
	var lastKnobs map[string]int
	try := func(c RunInput) bool {
		r := execRun(bld, c, runDir, p.RunWall)
		postProcess(c, r)
		lastKnobs = r.Knobs
		return hasViolation(r, f.v)
	}
	budget := 40
	deadline := time.Now().Add(90 * time.Second)
	spent := func() bool { budget--; return budget < 0 || time.Now().After(deadline) }
	// sanity: the pinned input must still fail
	if !try(in) {
		return f.in
	}
	// 1. yields: none at all?
	if in.Yield != nil {
		c := in
		c.Yield = nil
		if !spent() && try(c) {
			in = c
		} else if len(f.res.YieldTrace) > 0 && len(f.res.YieldTrace) <= 4000 {
			// explicit list, then halve it
			ex := make([][2]int, 0, len(f.res.YieldTrace))
			for _, t := range f.res.YieldTrace {
				ex = append(ex, [2]int{t[0], t[2]})
			}
			c := in
			c.Yield = &YieldInput{UseExplicit: true, Explicit: ex}
			if !spent() && try(c) {
				in = c
				for n := 2; len(in.Yield.Explicit) > 1 && n <= len(in.Yield.Explicit)*2; {
					if spent() {
						break
					}
					cur := in.Yield.Explicit
					chunk := (len(cur) + n - 1) / n
					reduced := false
					for s := 0; s < len(cur); s += chunk {
						e := s + chunk
						if e > len(cur) {
							e = len(cur)
						}
						cand := append(append([][2]int{}, cur[:s]...), cur[e:]...)
						c := in
						c.Yield = &YieldInput{UseExplicit: true, Explicit: cand}
						if spent() {
							break
						}
						if try(c) {
							in = c
							reduced = true
							if n > 2 {
								n--
							}
							break
						}
					}
					if !reduced {
						n *= 2
					}
				}
			}
		}
	}
	// 2. knobs towards 0 / 1
	keys := make([]string, 0, len(in.Knobs))
	for k := range in.Knobs {
		keys = append(keys, k)
	}
	sort.Strings(keys)
	for _, k := range keys {
		for _, simple := range []int{0, 1} {
			if in.Knobs[k] <= simple {
				break
			}
			if spent() {
				return in
			}
			c := in
			c.Knobs = map[string]int{}
			for kk, vv := range in.Knobs {
				c.Knobs[kk] = vv
			}
			c.Knobs[k] = simple
			// an override outside the knob's domain is ignored by the world: only keep it if it took effect
			if try(c) && lastKnobs[k] == simple {
				in = c
				break
			}
		}
	}
	return in
}

func writeReplay(id string, in RunInput, v Violation, res *Result, bld *build) string {
	dir := filepath.Join(verifDir, "replays")
	if repoDir != "/repo" {
		dir = filepath.Join(os.TempDir(), "verif-replays-other")
	}
	os.MkdirAll(dir, 0o755)
	sg := sanitize(v.Sig)
	if len(sg) > 48 {
		sg = sg[:48]
	}
	path := filepath.Join(dir, fmt.Sprintf("%s-%s-%s-%d.json", id, sanitize(v.Oracle), sg, in.Seed))
	in.Out = ""
	in.CertDir = ""
	rep := map[string]any{
		"property": id, "input": in, "violation": v,
		"expected_log_hash": res.LogHash, "steps": res.Steps, "sim_time_s": res.SimTime,
		"yield_trace": res.YieldTrace, "frp_log_tail": lastN(res.FrpLog, 60), "event_log_tail": lastN(res.Log, 80),
		"tree_hash":  filepath.Base(bld.dir),
		"replay_cmd": fmt.Sprintf("./check %s --replay %s", id, path),
	}
	b, _ := json.MarshalIndent(rep, "", " ")
	os.WriteFile(path, b, 0o644)
	return path
}

func lastN(s []string, n int) []string {
	if len(s) > n {
		return s[len(s)-n:]
	}
	return s
}

func sanitize(s string) string {
	return regexp.MustCompile(`[^A-Za-z0-9_.-]+`).ReplaceAllString(s, "_")
}

func doReplay(path string) int {
	b, err := os.ReadFile(path)
	if err != nil {
		die2("%v", err)
	}
	var rep struct {
		Property string    `json:"property"`
		Input    RunInput  `json:"input"`
		Viol     Violation `json:"violation"`
		Hash     string    `json:"expected_log_hash"`
	}
	if err := json.Unmarshal(b, &rep); err != nil {
		die2("replay file: %v", err)
	}
	bld := ensureBuild(rep.Input.Race)
	runDir, _ := os.MkdirTemp("", "verif-replay-")
	defer os.RemoveAll(runDir)
	p := props[rep.Property]
	wall := 300 * time.Second
	if p != nil {
		wall = p.RunWall
	}
	in := rep.Input
	in.KeepLog = false
	ok := 0
	hashes := map[string]bool{}
	for i := 0; i < 2; i++ {
		r := execRun(bld, in, runDir, wall)
		postProcess(in, r)
		hashes[r.LogHash] = true
		if hasViolation(r, rep.Viol) {
			ok++
		}
	}
	if ok == 2 {
		if !hashes[rep.Hash] {
			fmt.Printf("note: event-log hash differs from the recorded one (tree changed since the replay was written?)\n")
		}
		fmt.Printf("VIOLATION property=%s replay=%s\n  oracle=%s sig=%s\n", rep.Property, path, rep.Viol.Oracle, rep.Viol.Sig)
		return 1
	}
	fmt.Printf("REPLAY-NOT-REPRODUCED property=%s (%d/2 runs showed %s/%s)\n", rep.Property, ok, rep.Viol.Oracle, rep.Viol.Sig)
	if ok == 0 {
		return 0
	}
	return 2
}

// ---------------------------------------------------------------- evidence

var evKnownSeen map[string]int

func writeEvidence(p *propSpec, tier string, seed uint64, st *batchStats, nviol int, other map[string]int, flaky []string, bld *build) {
	wall := time.Since(startWall).Seconds()
	faults := map[string]int{}
	netc := map[string]int{}
	for k, v := range st.counters {
		if strings.HasPrefix(k, "fault.") {
			faults[k[6:]] = v
		} else {
			netc[k] = v
		}
	}
	samples := []any{}
	for _, s := range st.samples {
		samples = append(samples, s)
	}
	if len(samples) == 0 {
		samples = append(samples, map[string]any{"note": "no non-trivial run completed"})
	}
	perHour := 0.0
	if wall > 0 {
		perHour = float64(st.runs) / wall * 3600
	}
	unseamed := []any{}
	if bld.instr != nil {
		if u, ok := bld.instr["unseamed_calls"].([]any); ok {
			unseamed = u
		}
	}
	ev := map[string]any{
		"property_id": p.ID, "tier": tier, "seed": int64(seed >> 1), "level": p.Level,
		"coverage": map[string]any{
			"evaluations":         max(st.runs, 0),
			"distinct_nontrivial": len(st.ntHashes),
			"rule":                p.Rule,
			"samples":             samples,
			"runs_per_hour":       perHour,
			"seeds_per_hour":      perHour,
			"simulated_time_s":    st.simTime,
			"scheduler_steps":     st.steps,
			"faults_fired":        faults,
			"fault_kinds_not_applicable": map[string]string{
				"clock_skew":     "single bubble clock; no property depends on cross-node clock agreement",
				"disk_faults":    "frp keeps no durable state any property depends on",
				"tcp_corruption": "properties are stated over a reliable byte stream",
				"alloc_failure":  "Go cannot fail an allocation gracefully",
			},
			"network_counters":      netc,
			"reach_probes":          st.probes,
			"oracle_evaluations":    st.checks,
			"runs_by_batch":         st.perBatch,
			"run_outcomes":          map[string]int{"ok": st.ok, "violation": st.violations, "harness_error": st.errors, "hang": st.hangs, "crash": st.crashes},
			"interleaving_measure":  map[string]any{"distinct_event_log_hashes": len(st.hashes), "l2_yields_executed": st.yields, "l2_non_default_actions": st.yieldActs, "l2_max_distinct_sites_in_a_run": st.maxYieldSites, "l2_max_distinct_site_pairs_in_a_run": st.maxYieldPairs},
			"instrumentation":       map[string]any{"l2": bld.l2, "unseamed_calls": unseamed, "stats": bld.instr["stats"]},
			"real_components":       p.Real,
			"stub_components":       p.Stub,
			"other_property_alarms": other,
			"non_reproducible":      flaky,
			"error_samples":         st.errSamples,
			"tree_hash":             filepath.Base(bld.dir),
		},
		"assumptions": p.Assume,
		"wall_s":      wall,
		"violations":  nviol,
	}
	if len(evKnownSeen) > 0 {
		ev["known_findings_seen"] = evKnownSeen
	}
	evDir := filepath.Join(verifDir, "evidence")
	if repoDir != "/repo" || os.Getenv("VERIF_ONLY_BATCH") != "" {
		// a run against another tree (seeded-change evaluation) or a partial run is not evidence about /repo
		evDir = filepath.Join(os.TempDir(), "verif-evidence-other")
	}
	os.MkdirAll(evDir, 0o755)
	b, _ := json.MarshalIndent(ev, "", " ")
	os.WriteFile(filepath.Join(evDir, p.ID+".json"), b, 0o644)
}

func selftest(which string, seed uint64, tier string) int {
	bld := ensureBuild(false)
	runDir, _ := os.MkdirTemp("", "verif-self-")
	defer os.RemoveAll(runDir)
	n := 24
	reps := 5
	if tier == "thorough" {
		n, reps = 200, 5
	}
	var worldsList []string
	seen := map[string]bool{}
	for _, p := range props {
		for _, b := range p.Batches {
			if !seen[b.World] {
				seen[b.World] = true
				worldsList = append(worldsList, b.World)
			}
		}
	}
	sort.Strings(worldsList)
	type job struct {
		in  RunInput
		key string
	}
	var jobsL []job
	for _, wn := range worldsList {
		for i := 0; i < n; i++ {
			in := RunInput{World: wn, Seed: splitmix(seed, i), Tier: "quick", Faults: i%3 == 2}
			if i%2 == 1 && bld.l2 {
				in.Yield = &YieldInput{ParkProb: 0.01, GoschedProb: 0.02}
			}
			for r := 0; r < reps; r++ {
				jobsL = append(jobsL, job{in, fmt.Sprintf("%s/%d", wn, i)})
			}
		}
	}
	results := map[string]map[string]int{}
	var mu sync.Mutex
	ch := make(chan job)
	var wg sync.WaitGroup
	for wkr := 0; wkr < workers; wkr++ {
		wg.Add(1)
		go func() {
			defer wg.Done()
			for j := range ch {
				r := execRun(bld, j.in, runDir, 120*time.Second)
				mu.Lock()
				if results[j.key] == nil {
					results[j.key] = map[string]int{}
				}
				results[j.key][fmt.Sprintf("%s/%d/%s/%d", r.LogHash, r.LogLen, r.Verdict, r.Steps)]++
				mu.Unlock()
			}
		}()
	}
	for _, j := range jobsL {
		ch <- j
	}
	close(ch)
	wg.Wait()
	div := 0
	keys := make([]string, 0, len(results))
	for k := range results {
		keys = append(keys, k)
	}
	sort.Strings(keys)
	for _, k := range keys {
		if len(results[k]) != 1 {
			div++
			fmt.Printf("DIVERGED %s: %v\n", k, results[k])
		}
	}
	fmt.Printf("selftest-determinism: %d (world,seed) points x %d repeats, %d diverged\n", len(results), reps, div)
	// (not under evidence/: that directory holds one schema-conforming file per property)
	os.MkdirAll(filepath.Join(verifDir, "selftest"), 0o755)
	b, _ := json.MarshalIndent(map[string]any{"points": len(results), "repeats": reps, "diverged": div, "worlds": worldsList, "at": time.Now().UTC().Format(time.RFC3339)}, "", " ")
	os.WriteFile(filepath.Join(verifDir, "selftest", "determinism.json"), b, 0o644)
	if div > 0 {
		return 2
	}
	return 0
}
