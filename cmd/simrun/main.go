// simrun: builds the instrumented frp + harness test binary from /repo's
// current working tree, fans seeded runs out over worker processes, classifies
// results, minimises and replays failures, writes evidence.
// Exit 0 clean / 1 violation (VIOLATION line printed) / 2 inconclusive.
package main

import (
	"bytes"
	"crypto/sha256"
	"encoding/hex"
	"encoding/json"
	"flag"
	"fmt"
	"io"
	"io/fs"
	"os"
	"os/exec"
	"path/filepath"
	"runtime"
	"sort"
	"strconv"
	"strings"
	"sync"
	"syscall"
	"time"
)

const (
	goBin  = "go1.26.8"
	goRoot = "/opt/veriftools/go1.26.8"
)

var (
	verifDir  = "/verif"
	repoDir   = "/repo"
	golibDir  = "/root/go/pkg/mod/github.com/fatedier/golib@v0.5.1"
	workers   = runtime.NumCPU()
	verbose   = false
	startWall = time.Now()
)

type RunInput struct {
	World      string         `json:"world"`
	Property   string         `json:"property"`
	Seed       uint64         `json:"seed"`
	CryptoSeed uint64         `json:"crypto_seed,omitempty"`
	Tier       string         `json:"tier"`
	Faults     bool           `json:"faults"`
	Knobs      map[string]int `json:"knobs,omitempty"`
	Yield      *YieldInput    `json:"yield,omitempty"`
	KeepLog    bool           `json:"keep_log,omitempty"`
	CertDir    string         `json:"cert_dir,omitempty"`
	Out        string         `json:"out"`
	Race       bool           `json:"race,omitempty"`
}

type YieldInput struct {
	ParkProb    float64  `json:"park_prob"`
	GoschedProb float64  `json:"gosched_prob"`
	MaxActs     int      `json:"max_acts,omitempty"`
	Explicit    [][2]int `json:"explicit,omitempty"`
	UseExplicit bool     `json:"use_explicit,omitempty"`
}

type Violation struct {
	Property string  `json:"property"`
	Oracle   string  `json:"oracle"`
	Sig      string  `json:"sig"`
	Detail   string  `json:"detail"`
	At       float64 `json:"at"`
}

type Result struct {
	World      string         `json:"world"`
	Seed       uint64         `json:"seed"`
	Verdict    string         `json:"verdict"`
	Error      string         `json:"error,omitempty"`
	Violations []Violation    `json:"violations,omitempty"`
	LogHash    string         `json:"log_hash"`
	LogLen     int            `json:"log_len"`
	Steps      int            `json:"steps"`
	SimTime    float64        `json:"sim_time_s"`
	Counters   map[string]int `json:"counters"`
	Probes     map[string]int `json:"probes"`
	Knobs      map[string]int `json:"knobs"`
	Yields     int            `json:"yields"`
	YieldActs  int            `json:"yield_acts"`
	YieldTrace [][3]int       `json:"yield_trace,omitempty"`
	YieldSites int            `json:"yield_sites"`
	YieldPairs int            `json:"yield_pairs"`
	Sample     any            `json:"sample,omitempty"`
	Checks     map[string]int `json:"checks"`
	Log        []string       `json:"log,omitempty"`
	FrpLog     []string       `json:"frp_log,omitempty"`
	Nontrivial bool           `json:"nontrivial"`

	// filled by the driver
	Crash    string  `json:"crash,omitempty"` // stderr excerpt for crashed runs
	Killed   bool    `json:"killed,omitempty"`
	WallS    float64 `json:"wall_s"`
	ExitCode int     `json:"exit_code"`
}

type build struct {
	dir     string // cache dir
	bin     string
	raceBin string
	certDir string
	instr   map[string]any
	l2      bool
}

func die2(f string, a ...any) {
	fmt.Fprintf(os.Stderr, "simrun: "+f+"\n", a...)
	os.Exit(2)
}

func goEnv() []string {
	env := os.Environ()
	env = append(env, "GOFLAGS=-mod=mod", "GOPROXY=off", "GOSUMDB=off", "GOTOOLCHAIN=local", "GOWORK=off")
	return env
}

func run(dir string, env []string, name string, args ...string) (string, error) {
	cmd := exec.Command(name, args...)
	cmd.Dir = dir
	cmd.Env = env
	var out bytes.Buffer
	cmd.Stdout = &out
	cmd.Stderr = &out
	err := cmd.Run()
	return out.String(), err
}

// treeHash hashes everything the build depends on.
func treeHash() string {
	h := sha256.New()
	add := func(root string, sub ...string) {
		for _, s := range sub {
			p := filepath.Join(root, s)
			filepath.WalkDir(p, func(q string, e fs.DirEntry, err error) error {
				if err != nil {
					return nil
				}
				if e.IsDir() {
					if e.Name() == ".git" || e.Name() == ".build-cache" {
						return filepath.SkipDir
					}
					return nil
				}
				if !e.Type().IsRegular() {
					return nil
				}
				b, err := os.ReadFile(q)
				if err != nil {
					return nil
				}
				fmt.Fprintf(h, "%s %d\n", q, len(b))
				h.Write(b)
				return nil
			})
		}
	}
	add(repoDir, "client", "server", "pkg", "cmd", "assets", "go.mod", "go.sum")
	add(verifDir, "sim", "instr", "overlay", "harness", "certs", "cmd/simrun")
	fmt.Fprintf(h, "goroot=%s golib=%s", goRoot, golibDir)
	return hex.EncodeToString(h.Sum(nil))[:24]
}

// ensureBuild returns a cached or fresh build of the harness test binary.
func ensureBuild(needRace bool) *build {
	hash := treeHash()
	cacheRoot := filepath.Join(verifDir, ".build-cache")
	dir := filepath.Join(cacheRoot, hash)
	b := &build{dir: dir, bin: filepath.Join(dir, "harness.test"), raceBin: filepath.Join(dir, "harness.race.test"), certDir: filepath.Join(verifDir, "certs")}
	loadMeta := func() {
		if mb, err := os.ReadFile(filepath.Join(dir, "instr.json")); err == nil {
			json.Unmarshal(mb, &b.instr)
			if v, ok := b.instr["l2"].(bool); ok {
				b.l2 = v
			}
		}
	}
	have := func(p string) bool { st, err := os.Stat(p); return err == nil && st.Size() > 0 }
	if have(b.bin) && (!needRace || have(b.raceBin)) {
		loadMeta()
		now := time.Now()
		os.Chtimes(dir, now, now) // mark as in use: entries used within the last hour are never pruned
		return b
	}
	os.MkdirAll(dir, 0o755)
	// prune old cache entries (keep the 2 newest besides this one, and everything used within the last hour:
	// another check may be running from it)
	if ents, err := os.ReadDir(cacheRoot); err == nil {
		type ent struct {
			name string
			t    time.Time
		}
		var es []ent
		for _, e := range ents {
			if e.Name() == hash {
				continue
			}
			if info, err := e.Info(); err == nil {
				es = append(es, ent{e.Name(), info.ModTime()})
			}
		}
		sort.Slice(es, func(i, j int) bool { return es[i].t.After(es[j].t) })
		for i, e := range es {
			if i >= 2 && time.Since(e.t) > time.Hour {
				os.RemoveAll(filepath.Join(cacheRoot, e.name))
			}
		}
	}

	scratch, err := os.MkdirTemp("", "verif-build-")
	if err != nil {
		die2("mktemp: %v", err)
	}
	defer os.RemoveAll(scratch)
	env := goEnv()
	t0 := time.Now()

	ovl := filepath.Join(dir, "overlay")
	if out, err := run(verifDir, env, filepath.Join(verifDir, "bin", "gen-overlay"), goRoot, ovl); err != nil {
		die2("gen-overlay failed: %v\n%s", err, out)
	}
	tree := filepath.Join(scratch, "tree")
	tryBuild := func(l2 bool, race bool, outBin string) (string, error) {
		os.RemoveAll(tree)
		args := []string{"-src", repoDir, "-golib", golibDir, "-out", tree, "-sim", filepath.Join(verifDir, "sim")}
		if l2 {
			args = append(args, "-l2")
		}
		if out, err := run(verifDir, env, filepath.Join(verifDir, "bin", "verif-instr"), args...); err != nil {
			return out, err
		}
		if out, err := run(verifDir, env, "cp", "-r", filepath.Join(verifDir, "harness"), filepath.Join(tree, "verifharness")); err != nil {
			return out, err
		}
		bargs := []string{"test", "-c", "-trimpath", "-vet=off", "-overlay", filepath.Join(ovl, "overlay.json"), "-o", outBin}
		if race {
			// the simulator and the harness are compiled without race instrumentation: their own shared state
			// (network queues, yield bookkeeping) must neither be reported nor create happens-before edges
			// between frp goroutines that the real system would not have
			bargs = append(bargs, "-race", "-gcflags=verif/sim/...=-race=false", "-gcflags=github.com/fatedier/frp/verifharness=-race=false")
		}
		bargs = append(bargs, "./verifharness")
		return run(tree, env, goBin, bargs...)
	}
	b.l2 = true
	out, err := tryBuild(true, false, b.bin)
	if err != nil {
		fmt.Fprintf(os.Stderr, "simrun: L2 build failed, retrying L1:\n%s\n", tail(out, 40))
		b.l2 = false
		out, err = tryBuild(false, false, b.bin)
		if err != nil {
			os.RemoveAll(dir)
			die2("build failed:\n%s", tail(out, 80))
		}
	}
	copyFile(filepath.Join(tree, "instr.json"), filepath.Join(dir, "instr.json"))
	if needRace {
		if out, err := tryBuild(b.l2, true, b.raceBin); err != nil {
			os.Remove(b.raceBin)
			die2("race build failed:\n%s", tail(out, 80))
		}
	}
	loadMeta()
	fmt.Fprintf(os.Stderr, "simrun: built %s (l2=%v race=%v) in %.1fs\n", hash, b.l2, needRace, time.Since(t0).Seconds())
	return b
}

func copyFile(src, dst string) error {
	in, err := os.Open(src)
	if err != nil {
		return err
	}
	defer in.Close()
	out, err := os.Create(dst)
	if err != nil {
		return err
	}
	defer out.Close()
	_, err = io.Copy(out, in)
	return err
}

func tail(s string, n int) string {
	l := strings.Split(strings.TrimRight(s, "\n"), "\n")
	if len(l) > n {
		l = l[len(l)-n:]
	}
	return strings.Join(l, "\n")
}

// ---------------------------------------------------------------- executing one run

var runCounter struct {
	sync.Mutex
	n int
}

func execRun(b *build, in RunInput, runDir string, wallLimit time.Duration) *Result {
	runCounter.Lock()
	runCounter.n++
	id := runCounter.n
	runCounter.Unlock()
	inPath := filepath.Join(runDir, fmt.Sprintf("r%d.in.json", id))
	outPath := filepath.Join(runDir, fmt.Sprintf("r%d.out.json", id))
	in.Out = outPath
	in.CertDir = b.certDir
	ib, _ := json.Marshal(in)
	os.WriteFile(inPath, ib, 0o644)
	defer os.Remove(inPath)
	defer os.Remove(outPath)
	bin := b.bin
	if in.Race {
		bin = b.raceBin
	}
	cmd := exec.Command(bin, "-test.run", "^TestRun$", "-test.timeout", "0", "-test.count", "1")
	cmd.Dir = runDir
	cmd.Env = []string{
		"VERIF_RUN=" + inPath, "GOMAXPROCS=1", "GOGC=off", "GOMEMLIMIT=3GiB",
		"GODEBUG=asyncpreemptoff=1,randautoseed=0", "PATH=/usr/bin:/bin", "HOME=/tmp", "TZ=UTC",
		"GORACE=halt_on_error=0 history_size=2 exitcode=0",
		"http_proxy=", "HTTP_PROXY=", "https_proxy=", "no_proxy=*",
	}
	var stderr bytes.Buffer
	cmd.Stderr = &limitedWriter{w: &stderr, n: 1 << 20}
	cmd.Stdout = io.Discard
	cmd.SysProcAttr = &syscall.SysProcAttr{Setpgid: true}
	t0 := time.Now()
	if err := cmd.Start(); err != nil {
		return &Result{World: in.World, Seed: in.Seed, Verdict: "error", Error: "start: " + err.Error()}
	}
	done := make(chan error, 1)
	go func() { done <- cmd.Wait() }()
	killed := false
	var werr error
	select {
	case werr = <-done:
	case <-time.After(wallLimit):
		killed = true
		// ask for a goroutine dump first
		syscall.Kill(-cmd.Process.Pid, syscall.SIGQUIT)
		select {
		case werr = <-done:
		case <-time.After(3 * time.Second):
			syscall.Kill(-cmd.Process.Pid, syscall.SIGKILL)
			werr = <-done
		}
	}
	res := &Result{World: in.World, Seed: in.Seed}
	if ob, err := os.ReadFile(outPath); err == nil {
		if err := json.Unmarshal(ob, res); err != nil {
			res.Verdict, res.Error = "error", "bad result json: "+err.Error()
		}
	} else {
		res.Verdict = "crash"
	}
	res.WallS = time.Since(t0).Seconds()
	res.Killed = killed
	if werr != nil {
		if ee, ok := werr.(*exec.ExitError); ok {
			res.ExitCode = ee.ExitCode()
		} else {
			res.ExitCode = -1
		}
	}
	if killed {
		res.Verdict = "hang"
		res.Crash = tail(stderr.String(), 200)
	} else if res.Verdict == "crash" || res.ExitCode != 0 {
		res.Verdict = "crash"
		res.Crash = stderr.String()
	} else if in.Race && strings.Contains(stderr.String(), "WARNING: DATA RACE") {
		res.Crash = stderr.String()
	}
	return res
}

type limitedWriter struct {
	w io.Writer
	n int
}

func (l *limitedWriter) Write(p []byte) (int, error) {
	if l.n <= 0 {
		return len(p), nil
	}
	q := p
	if len(q) > l.n {
		q = q[:l.n]
	}
	l.n -= len(q)
	l.w.Write(q)
	return len(p), nil
}

func splitmix(seed uint64, i int) uint64 {
	z := seed + uint64(i+1)*0x9e3779b97f4a7c15
	z = (z ^ (z >> 30)) * 0xbf58476d1ce4e5b9
	z = (z ^ (z >> 27)) * 0x94d049bb133111eb
	z ^= z >> 31
	return z >> 1 // keep it positive in JSON consumers that use int64
}

// ---------------------------------------------------------------- main

func main() {
	prop := flag.String("prop", "", "property id (C01...) or selftest-determinism")
	tier := flag.String("tier", "quick", "quick|thorough")
	replay := flag.String("replay", "", "replay file")
	seedFlag := flag.String("seed", "", "batch seed (default $VERIF_SEED or 1)")
	budget := flag.Duration("budget", 0, "wall budget for runs (default by tier)")
	maxRuns := flag.Int("runs", 0, "maximum number of runs (default by tier)")
	flag.BoolVar(&verbose, "v", false, "verbose")
	flag.StringVar(&repoDir, "repo", "/repo", "frp tree")
	if d := os.Getenv("VERIF_DIR"); d != "" { // a snapshot of /verif (background sweeps): everything is read and written there
		verifDir = d
	}
	buildOnly := flag.Bool("build-only", false, "only build")
	genc := flag.String("gen-certs", "", "write test certificates to this directory and exit")
	flag.IntVar(&workers, "j", runtime.NumCPU(), "parallel run processes")
	flag.Parse()

	if *genc != "" {
		if err := genCerts(*genc); err != nil {
			die2("%v", err)
		}
		return
	}
	seed := uint64(1)
	s := *seedFlag
	if s == "" {
		s = os.Getenv("VERIF_SEED")
	}
	if s != "" {
		v, err := strconv.ParseUint(s, 10, 64)
		if err != nil {
			iv, err2 := strconv.ParseInt(s, 10, 64)
			if err2 != nil {
				die2("bad seed %q", s)
			}
			v = uint64(iv)
		}
		seed = v
	}
	if t := os.Getenv("VERIF_TIER"); t != "" && !isFlagSet("tier") {
		*tier = t
	}
	if *buildOnly {
		b := ensureBuild(os.Getenv("DBG_RACE") != "")
		fmt.Println(b.dir)
		return
	}
	if *replay != "" {
		os.Exit(doReplay(*replay))
	}
	if *prop == "" {
		die2("need -prop")
	}
	if strings.HasPrefix(*prop, "selftest") {
		os.Exit(selftest(*prop, seed, *tier))
	}
	os.Exit(checkProperty(*prop, *tier, seed, *budget, *maxRuns))
}

func isFlagSet(name string) bool {
	set := false
	flag.Visit(func(f *flag.Flag) {
		if f.Name == name {
			set = true
		}
	})
	return set
}
