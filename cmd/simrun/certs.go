package main

import (
	"crypto/ecdsa"
	"crypto/elliptic"
	"crypto/rand"
	"crypto/x509"
	"crypto/x509/pkix"
	"encoding/pem"
	"math/big"
	"net"
	"os"
	"path/filepath"
	"time"
)

// genCerts writes a CA, a server certificate (IP 10.0.0.1, DNS frps.sim), a
// client certificate, and a rogue CA + server certificate. Validity spans the
// simulated epoch (2000-01-01) and today.
func genCerts(dir string) error {
	if err := os.MkdirAll(dir, 0o755); err != nil {
		return err
	}
	nb := time.Date(1999, 1, 1, 0, 0, 0, 0, time.UTC)
	na := time.Date(2199, 1, 1, 0, 0, 0, 0, time.UTC)
	mk := func(name string, isCA bool, parent *x509.Certificate, pkey *ecdsa.PrivateKey, serial int64) (*x509.Certificate, *ecdsa.PrivateKey, error) {
		key, err := ecdsa.GenerateKey(elliptic.P256(), rand.Reader)
		if err != nil {
			return nil, nil, err
		}
		t := &x509.Certificate{
			SerialNumber: big.NewInt(serial), Subject: pkix.Name{CommonName: name},
			NotBefore: nb, NotAfter: na,
			KeyUsage:              x509.KeyUsageDigitalSignature | x509.KeyUsageKeyEncipherment,
			ExtKeyUsage:           []x509.ExtKeyUsage{x509.ExtKeyUsageServerAuth, x509.ExtKeyUsageClientAuth},
			BasicConstraintsValid: true,
		}
		if isCA {
			t.IsCA = true
			t.KeyUsage |= x509.KeyUsageCertSign
		} else {
			t.DNSNames = []string{"frps.sim", name}
			t.IPAddresses = []net.IP{net.ParseIP("10.0.0.1")}
		}
		p, pk := parent, pkey
		if p == nil {
			p, pk = t, key
		}
		der, err := x509.CreateCertificate(rand.Reader, t, p, &key.PublicKey, pk)
		if err != nil {
			return nil, nil, err
		}
		c, _ := x509.ParseCertificate(der)
		kb, _ := x509.MarshalECPrivateKey(key)
		if err := os.WriteFile(filepath.Join(dir, name+".crt"), pem.EncodeToMemory(&pem.Block{Type: "CERTIFICATE", Bytes: der}), 0o644); err != nil {
			return nil, nil, err
		}
		if err := os.WriteFile(filepath.Join(dir, name+".key"), pem.EncodeToMemory(&pem.Block{Type: "EC PRIVATE KEY", Bytes: kb}), 0o600); err != nil {
			return nil, nil, err
		}
		return c, key, nil
	}
	ca, cak, err := mk("ca", true, nil, nil, 1)
	if err != nil {
		return err
	}
	if _, _, err := mk("server", false, ca, cak, 2); err != nil {
		return err
	}
	if _, _, err := mk("client", false, ca, cak, 3); err != nil {
		return err
	}
	rca, rcak, err := mk("rogueca", true, nil, nil, 4)
	if err != nil {
		return err
	}
	if _, _, err := mk("rogueserver", false, rca, rcak, 5); err != nil {
		return err
	}
	if _, _, err := mk("rogueclient", false, rca, rcak, 6); err != nil {
		return err
	}
	return nil
}
