module verif/sim

go 1.26
