package simnet

import (
	"errors"
	"net"
	"net/netip"
	"os"
	"sync"
	"syscall"
	"time"
)

type dgram struct {
	due  time.Duration
	data []byte
	from *net.UDPAddr
	to   string // key
	seq  int
}

type rdgram struct {
	data []byte
	from *net.UDPAddr
}

// UDPConn replaces *net.UDPConn.
type UDPConn struct {
	n      *Net
	laddr  *net.UDPAddr
	raddr  *net.UDPAddr // non-nil if connected
	key    string
	node   *Node
	cond   *sync.Cond
	rq     []rdgram
	closed bool
	rdl    time.Time
	rt     *time.Timer
	ttl    int
	// Sent/Recv are counted per socket.
	Sent, Recv int
}

const udpQueueCap = 512

func ResolveUDPAddr(network, address string) (*net.UDPAddr, error) {
	h, port, err := splitHostPort(address)
	if err != nil {
		return nil, err
	}
	if h == "" {
		return &net.UDPAddr{Port: port}, nil
	}
	ip, err := N.resolveHost(h)
	if err != nil {
		return nil, err
	}
	return &net.UDPAddr{IP: net.ParseIP(ip), Port: port}, nil
}

func ResolveTCPAddr(network, address string) (*net.TCPAddr, error) {
	h, port, err := splitHostPort(address)
	if err != nil {
		return nil, err
	}
	if h == "" {
		return &net.TCPAddr{Port: port}, nil
	}
	ip, err := N.resolveHost(h)
	if err != nil {
		return nil, err
	}
	return &net.TCPAddr{IP: net.ParseIP(ip), Port: port}, nil
}

func ResolveIPAddr(network, address string) (*net.IPAddr, error) {
	ip, err := N.resolveHost(address)
	if err != nil {
		return nil, err
	}
	return &net.IPAddr{IP: net.ParseIP(ip)}, nil
}

func LookupHost(host string) ([]string, error) {
	ip, err := N.resolveHost(host)
	if err != nil {
		return nil, err
	}
	return []string{ip}, nil
}

func LookupIP(host string) ([]net.IP, error) {
	ip, err := N.resolveHost(host)
	if err != nil {
		return nil, err
	}
	return []net.IP{net.ParseIP(ip)}, nil
}

// InterfaceAddrs returns the calling node's address.
func InterfaceAddrs() ([]net.Addr, error) {
	nd := N.nodeForLocal("")
	return []net.Addr{&net.IPNet{IP: net.ParseIP(nd.IP), Mask: net.CIDRMask(24, 32)}}, nil
}

func ListenUDP(network string, laddr *net.UDPAddr) (*UDPConn, error) {
	return N.listenUDP(network, laddr, nil)
}

func DialUDP(network string, laddr, raddr *net.UDPAddr) (*UDPConn, error) {
	if raddr == nil {
		return nil, &net.OpError{Op: "dial", Net: network, Err: errors.New("missing address")}
	}
	return N.listenUDP(network, laddr, raddr)
}

func ListenPacket(network, address string) (net.PacketConn, error) {
	a, err := ResolveUDPAddr(network, address)
	if err != nil {
		return nil, err
	}
	return ListenUDP(network, a)
}

func (n *Net) listenUDP(network string, laddr, raddr *net.UDPAddr) (*UDPConn, error) {
	switch network {
	case "udp", "udp4", "udp6":
	default:
		return nil, &net.OpError{Op: "listen", Net: network, Err: errors.New("simnet: unsupported network")}
	}
	ip, port := "", 0
	if laddr != nil {
		if laddr.IP != nil && !laddr.IP.IsUnspecified() {
			if v4 := laddr.IP.To4(); v4 != nil {
				ip = v4.String()
			} else {
				ip = laddr.IP.String()
			}
		}
		port = laddr.Port
	}
	nd := n.nodeForLocal(ip)
	if ip == "" {
		ip = nd.IP
	}
	n.mu.Lock()
	defer n.mu.Unlock()
	if n.UDPDialFault != nil && raddr != nil {
		// called under n.mu: the hook must not call back into the network
		if err := n.UDPDialFault(nd, raddr.String()); err != nil {
			n.countL("fault.udp_dial", 1)
			return nil, &net.OpError{Op: "dial", Net: network, Addr: raddr, Err: err}
		}
	}
	if n.ListenFault != nil && raddr == nil {
		if err := n.ListenFault(nd, "udp/"+key(ip, port)); err != nil {
			n.countL("fault.listen", 1)
			return nil, &net.OpError{Op: "listen", Net: network, Addr: laddr, Err: err}
		}
	}
	if port == 0 {
		for {
			nd.eph++
			if nd.eph > 60000 {
				nd.eph = 40001
			}
			if _, used := n.udp[key(ip, nd.eph)]; !used && !n.extPorts["udp/"+key(ip, nd.eph)] {
				port = nd.eph
				break
			}
		}
	}
	k := key(ip, port)
	if _, used := n.udp[k]; used || n.extPorts["udp/"+k] {
		return nil, &net.OpError{Op: "listen", Net: network, Addr: laddr, Err: os.NewSyscallError("bind", syscall.EADDRINUSE)}
	}
	c := &UDPConn{n: n, laddr: &net.UDPAddr{IP: net.ParseIP(ip), Port: port}, raddr: raddr, key: k, node: nd, ttl: 64}
	c.cond = sync.NewCond(&n.mu)
	n.udp[k] = c
	n.Logf("udp-bind %s", k)
	return c, nil
}

func (c *UDPConn) LocalAddr() net.Addr { return c.laddr }
func (c *UDPConn) RemoteAddr() net.Addr {
	if c.raddr == nil {
		return nil
	}
	return c.raddr
}

func (c *UDPConn) Close() error {
	n := c.n
	n.mu.Lock()
	defer n.mu.Unlock()
	if c.closed {
		return &net.OpError{Op: "close", Net: "udp", Addr: c.laddr, Err: net.ErrClosed}
	}
	c.closed = true
	if n.udp[c.key] == c {
		delete(n.udp, c.key)
	}
	if c.rt != nil {
		c.rt.Stop()
	}
	n.Logf("udp-close %s", c.key)
	c.cond.Broadcast()
	return nil
}

func (c *UDPConn) ReadFromUDP(b []byte) (int, *net.UDPAddr, error) {
	n := c.n
	n.mu.Lock()
	defer n.mu.Unlock()
	for {
		if c.closed {
			return 0, nil, &net.OpError{Op: "read", Net: "udp", Addr: c.laddr, Err: net.ErrClosed}
		}
		if len(c.rq) > 0 {
			d := c.rq[0]
			c.rq = c.rq[1:]
			k := copy(b, d.data) // truncation like a real socket
			c.Recv++
			return k, d.from, nil
		}
		if !c.rdl.IsZero() && !time.Now().Before(c.rdl) {
			return 0, nil, &net.OpError{Op: "read", Net: "udp", Addr: c.laddr, Err: timeoutError{}}
		}
		c.cond.Wait()
	}
}

func (c *UDPConn) ReadFrom(b []byte) (int, net.Addr, error) {
	k, a, err := c.ReadFromUDP(b)
	if a == nil {
		return k, nil, err
	}
	return k, a, err
}

func (c *UDPConn) ReadFromUDPAddrPort(b []byte) (int, netip.AddrPort, error) {
	k, a, err := c.ReadFromUDP(b)
	if a == nil {
		return k, netip.AddrPort{}, err
	}
	return k, a.AddrPort(), err
}

func (c *UDPConn) Read(b []byte) (int, error) {
	k, _, err := c.ReadFromUDP(b)
	return k, err
}

func (c *UDPConn) ReadMsgUDP(b, oob []byte) (n, oobn, flags int, addr *net.UDPAddr, err error) {
	n, addr, err = c.ReadFromUDP(b)
	return
}

func (c *UDPConn) WriteToUDP(b []byte, addr *net.UDPAddr) (int, error) {
	if addr == nil {
		return 0, &net.OpError{Op: "write", Net: "udp", Addr: c.laddr, Err: errors.New("missing address")}
	}
	if c.raddr != nil {
		return 0, &net.OpError{Op: "write", Net: "udp", Addr: c.laddr, Err: errors.New("use of WriteTo with pre-connected connection")}
	}
	return c.send(b, addr)
}

func (c *UDPConn) WriteTo(b []byte, addr net.Addr) (int, error) {
	ua, ok := addr.(*net.UDPAddr)
	if !ok {
		var err error
		ua, err = ResolveUDPAddr("udp", addr.String())
		if err != nil {
			return 0, err
		}
	}
	return c.WriteToUDP(b, ua)
}

func (c *UDPConn) Write(b []byte) (int, error) {
	if c.raddr == nil {
		return 0, &net.OpError{Op: "write", Net: "udp", Addr: c.laddr, Err: errors.New("destination address required")}
	}
	return c.send(b, c.raddr)
}

func (c *UDPConn) WriteMsgUDP(b, oob []byte, addr *net.UDPAddr) (n, oobn int, err error) {
	if addr == nil {
		n, err = c.Write(b)
	} else {
		n, err = c.WriteToUDP(b, addr)
	}
	return
}

// UDPSendHook lets the harness observe/alter datagram fate: return copies to deliver (0 = drop).
var UDPSendHook func(from *net.UDPAddr, to string, data []byte) (copies int, extraDelay time.Duration, decided bool)

func (c *UDPConn) send(b []byte, addr *net.UDPAddr) (int, error) {
	n := c.n
	n.mu.Lock()
	defer n.mu.Unlock()
	if c.closed {
		return 0, &net.OpError{Op: "write", Net: "udp", Addr: c.laddr, Err: net.ErrClosed}
	}
	if len(b) > 65507 {
		return 0, &net.OpError{Op: "write", Net: "udp", Addr: c.laddr, Err: syscall.EMSGSIZE}
	}
	ip := "127.0.0.1"
	if addr.IP != nil && !addr.IP.IsUnspecified() {
		if v4 := addr.IP.To4(); v4 != nil {
			ip = v4.String()
		} else {
			ip = addr.IP.String()
		}
	} else {
		ip = c.node.IP
	}
	to := key(ip, addr.Port)
	c.Sent++
	copies, extra := 1, time.Duration(0)
	decided := false
	if UDPSendHook != nil {
		copies, extra, decided = UDPSendHook(c.laddr, to, b)
	}
	if !decided {
		copies = 1
		if n.cfg.UDPLoss > 0 && n.frng.Chance(n.cfg.UDPLoss) {
			copies = 0
			n.countL("fault.udp_loss", 1)
		} else if n.cfg.UDPDup > 0 && n.frng.Chance(n.cfg.UDPDup) {
			copies = 2
			n.countL("fault.udp_dup", 1)
		}
		if n.cfg.UDPReorder > 0 && n.frng.Chance(n.cfg.UDPReorder) {
			extra = time.Duration(n.frng.Range(1, 80)) * time.Millisecond
			n.countL("fault.udp_reorder", 1)
		}
	}
	if c.ttl < 16 {
		copies = 0 // low-TTL probe never reaches the destination
		n.countL("net.udp_ttl_drop", 1)
	}
	lat := n.linkLatencyL(c.node.Name + ">udp:" + to)
	for i := 0; i < copies; i++ {
		cp := make([]byte, len(b))
		copy(cp, b)
		d := &dgram{due: n.Now() + lat + extra + time.Duration(i)*time.Millisecond, data: cp, from: c.laddr, to: to, seq: len(n.dgrams)}
		n.dgrams = append(n.dgrams, d)
	}
	n.countL("net.udp_sent", 1)
	n.kickL()
	return len(b), nil
}

// UDPDeliverHook observes datagrams at the moment they reach a bound socket.
var UDPDeliverHook func(to string, from *net.UDPAddr, data []byte)

func (n *Net) deliverDgramL(d *dgram) {
	c := n.udp[d.to]
	if c == nil || c.closed || c.node.Crashed {
		n.countL("net.udp_noport", 1)
		return
	}
	if c.raddr != nil {
		// connected socket: only from its peer
		if d.from.Port != c.raddr.Port || !d.from.IP.Equal(c.raddr.IP) {
			n.countL("net.udp_filtered", 1)
			return
		}
	}
	if len(c.rq) >= udpQueueCap {
		n.countL("net.udp_overflow", 1)
		return
	}
	if UDPDeliverHook != nil {
		UDPDeliverHook(d.to, d.from, d.data)
	}
	c.rq = append(c.rq, rdgram{d.data, d.from})
	n.Logf("udp-deliver %s len=%d", d.to, len(d.data))
	c.cond.Broadcast()
}

func (c *UDPConn) SetDeadline(t time.Time) error      { return c.SetReadDeadline(t) }
func (c *UDPConn) SetWriteDeadline(t time.Time) error { return nil }
func (c *UDPConn) SetReadDeadline(t time.Time) error {
	n := c.n
	n.mu.Lock()
	defer n.mu.Unlock()
	c.rdl = t
	if c.rt != nil {
		c.rt.Stop()
		c.rt = nil
	}
	if t.IsZero() {
		return nil
	}
	d := time.Until(t)
	if d <= 0 {
		c.cond.Broadcast()
		return nil
	}
	c.rt = time.AfterFunc(d, func() {
		n.mu.Lock()
		c.cond.Broadcast()
		n.mu.Unlock()
	})
	return nil
}
func (c *UDPConn) SetReadBuffer(int) error  { return nil }
func (c *UDPConn) SetWriteBuffer(int) error { return nil }
func (c *UDPConn) SyscallConn() (syscall.RawConn, error) {
	return nil, errors.New("simnet: no raw conn")
}
func (c *UDPConn) File() (*os.File, error) { return nil, errors.New("simnet: no file") }

// IPv4Conn stands in for *ipv4.Conn (TTL only).
type IPv4Conn struct{ c *UDPConn }

func NewIPv4Conn(c net.Conn) *IPv4Conn {
	u, _ := c.(*UDPConn)
	return &IPv4Conn{u}
}
func (c *IPv4Conn) TTL() (int, error) {
	if c.c == nil {
		return 64, nil
	}
	return c.c.ttl, nil
}
func (c *IPv4Conn) SetTTL(t int) error {
	if c.c != nil {
		c.c.ttl = t
	}
	return nil
}
