package simnet

import (
	"fmt"
	"os"
	"runtime"
	"sort"
	"strings"
	"sync"
	"testing/synctest"
	"time"
)

// ---------------------------------------------------------------- taps

// Tap records every byte written on connections accepted by one listener address.
type Tap struct {
	Chunks []TapChunk
	Bytes  int
	Max    int
	now    func() time.Duration
}

type TapChunk struct {
	Conn int
	Side int // 0: dialer -> listener, 1: listener -> dialer
	Data []byte
	At   time.Duration // instant of the write
}

func (t *Tap) record(id, side int, b []byte) {
	if t.Bytes+len(b) > t.Max {
		return
	}
	cp := make([]byte, len(b))
	copy(cp, b)
	t.Chunks = append(t.Chunks, TapChunk{id, side, cp, t.now()})
	t.Bytes += len(b)
}

// Stream returns the concatenated bytes of one direction of one connection.
func (t *Tap) Stream(conn, side int) []byte {
	var out []byte
	for _, c := range t.Chunks {
		if c.Conn == conn && c.Side == side {
			out = append(out, c.Data...)
		}
	}
	return out
}

// Conns returns the ids of tapped connections in order of first appearance.
func (t *Tap) Conns() []int {
	seen := map[int]bool{}
	var out []int
	for _, c := range t.Chunks {
		if !seen[c.Conn] {
			seen[c.Conn] = true
			out = append(out, c.Conn)
		}
	}
	return out
}

// TapListener starts recording connections accepted at "ip:port" from now on.
func (n *Net) TapListener(addr string, max int) *Tap {
	n.mu.Lock()
	defer n.mu.Unlock()
	t := &Tap{Max: max, now: n.Now}
	n.taps[addr] = t
	return t
}

// ---------------------------------------------------------------- timed actions (faults)

type timedAct struct {
	due  time.Duration
	name string
	f    func()
	seq  int
}

// At schedules f as a scheduler action at simulated time now+d.
func (n *Net) At(d time.Duration, name string, f func()) {
	n.mu.Lock()
	n.timedActs = append(n.timedActs, &timedAct{due: n.Now() + d, name: name, f: f, seq: len(n.timedActs)})
	n.kickL()
	n.mu.Unlock()
}

// ---------------------------------------------------------------- link faults

// Partition holds (on=true) or resumes all TCP deliveries and new dials from/to a node.
func (n *Net) Partition(nd *Node, on bool) {
	n.mu.Lock()
	defer n.mu.Unlock()
	n.partitioned(nd, on)
}

func (n *Net) partitioned(nd *Node, on bool) {
	if n.part == nil {
		n.part = map[*Node]bool{}
	}
	if on {
		n.part[nd] = true
		n.countL("fault.partition", 1)
	} else {
		delete(n.part, nd)
	}
	n.Logf("partition %s %v", nd.Name, on)
	n.kickL()
}

// BlackholePair holds or resumes delivery on one connection (both directions).
func (n *Net) BlackholePair(id int, on bool) {
	n.mu.Lock()
	defer n.mu.Unlock()
	p := n.pairs[id]
	p.dir[0].blackhole, p.dir[1].blackhole = on, on
	if on {
		n.countL("fault.blackhole", 1)
	}
	n.Logf("blackhole c%d %v", id, on)
	n.kickL()
}

// CrashNode resets every connection endpoint, listener and UDP socket of nd.
func (n *Net) CrashNode(nd *Node) {
	n.mu.Lock()
	defer n.mu.Unlock()
	nd.Crashed = true
	n.countL("fault.crash", 1)
	n.Logf("crash %s", nd.Name)
	var keys []string
	for k, l := range n.listeners {
		if l.node == nd {
			keys = append(keys, k)
		}
	}
	sort.Strings(keys)
	for _, k := range keys {
		l := n.listeners[k]
		l.closed = true
		delete(n.listeners, k)
		for _, c := range l.backlog {
			n.resetPairL(c.p)
		}
		l.backlog = nil
		l.cond.Broadcast()
	}
	keys = keys[:0]
	for k, u := range n.udp {
		if u.node == nd {
			keys = append(keys, k)
		}
	}
	sort.Strings(keys)
	for _, k := range keys {
		u := n.udp[k]
		u.closed = true
		delete(n.udp, k)
		u.cond.Broadcast()
	}
	for _, p := range n.pairs {
		if p.dead {
			continue
		}
		if p.node[0] == nd || p.node[1] == nd {
			n.resetPairL(p)
		}
	}
}

// RestartNode makes the node reachable again (listeners must be re-created by its software).
// KillNode models a killed process: the operating system closes every connection endpoint of nd, so whatever the
// process had written is still delivered and followed by the end of the stream (CrashNode, in contrast, models a
// machine that vanishes: resets, in-flight data lost).
func (n *Net) KillNode(nd *Node) {
	n.mu.Lock()
	n.countL("fault.kill", 1)
	n.Logf("kill %s", nd.Name)
	var ends []*Conn
	for _, p := range n.pairs {
		if p.dead || p.rst {
			continue
		}
		for side := 0; side < 2; side++ {
			if p.node[side] == nd && !p.closed[side] && p.ends[side] != nil {
				ends = append(ends, p.ends[side])
			}
		}
	}
	n.mu.Unlock()
	for _, c := range ends {
		c.Close()
	}
}

func (n *Net) RestartNode(nd *Node) {
	n.mu.Lock()
	nd.Crashed = false
	n.Logf("restart %s", nd.Name)
	n.mu.Unlock()
}

// PairsMatching returns ids of live pairs whose link name satisfies f.
func (n *Net) PairsMatching(f func(link string, id int) bool) []int {
	n.mu.Lock()
	defer n.mu.Unlock()
	var out []int
	for _, p := range n.pairs {
		if p.dead || p.rst || (p.closed[0] && p.closed[1]) {
			continue
		}
		if f(p.link, p.id) {
			out = append(out, p.id)
		}
	}
	return out
}

// NodesByPrefix returns the nodes whose name starts with prefix, in creation order.
func (n *Net) NodesByPrefix(prefix string) []*Node {
	n.mu.Lock()
	defer n.mu.Unlock()
	var out []*Node
	for _, nd := range n.nodes {
		if strings.HasPrefix(nd.Name, prefix) {
			out = append(out, nd)
		}
	}
	return out
}

// PairInfo describes a pair for oracles.
type PairInfo struct {
	ID            int
	Link          string
	Local, Remote string
	Closed        [2]bool
	Rst           bool
	Sent          [2]int64
}

func (n *Net) Pair(id int) PairInfo {
	n.mu.Lock()
	defer n.mu.Unlock()
	p := n.pairs[id]
	return PairInfo{ID: id, Link: p.link, Local: p.addr[0].String(), Remote: p.addr[1].String(),
		Closed: p.closed, Rst: p.rst, Sent: [2]int64{p.dir[0].sent, p.dir[1].sent}}
}

// PendingBytes sums the bytes written but not yet delivered on the live connections whose link name satisfies f.
func (n *Net) PendingBytes(f func(link string) bool) int {
	n.mu.Lock()
	defer n.mu.Unlock()
	total := 0
	for _, p := range n.livePairs {
		if p.dead || p.rst || !f(p.link) {
			continue
		}
		for _, h := range p.dir {
			total += h.qb
		}
	}
	return total
}

// SetSpikeProb changes the probability of latency spikes from now on (0 = the fault has stopped).
func (n *Net) SetSpikeProb(p float64) {
	n.mu.Lock()
	n.cfg.SpikeProb = p
	n.mu.Unlock()
}

func (n *Net) NumPairs() int {
	n.mu.Lock()
	defer n.mu.Unlock()
	return len(n.pairs)
}

// ---------------------------------------------------------------- L2 yields

type parkedG struct {
	cond     *sync.Cond
	released bool
	site     int
	idx      int
	until    time.Duration // node stall: not releasable before
}

// YieldPolicy controls source-level perturbation.
type YieldPolicy struct {
	ParkProb    float64      // probability a yield parks
	GoschedProb float64      // probability a yield calls Gosched
	Explicit    map[int]byte // if non-nil: only these yield indices act (1 = park, 2 = gosched)
	MaxParks    int          // stop perturbing after this many non-default actions (0 = unlimited)
}

var (
	yieldOn     bool
	yieldPolicy YieldPolicy
	yieldRng    *Rand
	yieldCount  int
	yieldActs   int
	// YieldTrace is the sparse list of non-default decisions: index, site, action.
	YieldTrace [][3]int
	// YieldSites counts distinct (site) hits.
	YieldSites = map[int]int{}
	// YieldPairs counts distinct consecutive site pairs.
	YieldPairs = map[[2]int]int{}
	lastSite   int
)

// EnableYields switches L2 perturbation on.
func (n *Net) EnableYields(seed uint64, p YieldPolicy) {
	yieldPolicy = p
	yieldRng = NewRand(seed, "yield")
	yieldOn = true
}

// DisableYields turns perturbation off (used while tearing down).
func DisableYields() { yieldOn = false }

// Yield is inserted by verif-instr before lock/channel operations of frp code.
func Yield(site int) {
	if !yieldOn {
		return
	}
	n := N
	if n == nil || !runtime.SimInBubble() {
		return // goroutines started before the bubble (package init) are not ours to schedule
	}
	idx := yieldCount
	yieldCount++
	if TraceG {
		n.Logf("yield %d", site)
	}
	YieldSites[site]++
	YieldPairs[[2]int{lastSite, site}]++
	lastSite = site
	var act byte
	if yieldPolicy.Explicit != nil {
		act = yieldPolicy.Explicit[idx]
	} else {
		if yieldPolicy.MaxParks > 0 && yieldActs >= yieldPolicy.MaxParks {
			return
		}
		r := yieldRng.Float()
		if r < yieldPolicy.ParkProb {
			act = 1
		} else if r < yieldPolicy.ParkProb+yieldPolicy.GoschedProb {
			act = 2
		}
	}
	switch act {
	case 1:
		yieldActs++
		YieldTrace = append(YieldTrace, [3]int{idx, site, 1})
		n.mu.Lock()
		g := &parkedG{site: site, idx: idx}
		g.cond = sync.NewCond(&n.mu)
		n.parked = append(n.parked, g)
		n.kickL()
		for !g.released {
			g.cond.Wait()
		}
		n.mu.Unlock()
	case 2:
		yieldActs++
		YieldTrace = append(YieldTrace, [3]int{idx, site, 2})
		runtime.Gosched()
	}
}

// YieldStats returns (yields executed, non-default actions).
func YieldStats() (int, int) { return yieldCount, yieldActs }

// ---------------------------------------------------------------- scheduler

type action struct {
	kind int // 0 seg, 1 fin, 2 syn, 3 dgram, 4 timed, 5 unpark
	h    *half
	s    *syn
	d    *dgram
	t    *timedAct
	g    *parkedG
	idx  int
}

var schedDebug = os.Getenv("VERIF_SCHED_DEBUG") != ""

// ErrStepCap is returned by Run when the step budget is exhausted.
var ErrStepCap = fmt.Errorf("simnet: step cap reached")

// Finish tells the scheduler the workload is over.
func (n *Net) Finish() {
	n.mu.Lock()
	n.done = true
	n.kickL()
	n.mu.Unlock()
}

// Run is the scheduler loop. It must be called from the bubble's root goroutine.
// It returns when Finish has been called, or with ErrStepCap.
func (n *Net) Run() error {
	idle := time.NewTimer(time.Hour)
	idle.Stop()
	var acts []action
	for {
		synctest.Wait()
		n.mu.Lock()
		if n.done {
			n.mu.Unlock()
			return nil
		}
		if n.Steps >= n.cfg.MaxSteps {
			n.mu.Unlock()
			return ErrStepCap
		}
		now := n.Now()
		acts = acts[:0]
		next := time.Duration(-1)
		consider := func(due time.Duration) bool {
			if due <= now {
				return true
			}
			if next < 0 || due < next {
				next = due
			}
			return false
		}
		// TCP halves
		for _, p := range n.livePairs {
			if p.dead {
				continue
			}
			held := p.rst || n.part[p.node[0]] || n.part[p.node[1]]
			alive := false
			for _, h := range p.dir {
				if len(h.q) > 0 {
					alive = true
					if !held && !h.blackhole && consider(h.q[0].due) {
						acts = append(acts, action{kind: 0, h: h})
					}
				} else if h.fin && !h.finDelivered {
					alive = true
					if !held && !h.blackhole && consider(h.finDue) {
						acts = append(acts, action{kind: 1, h: h})
					}
				}
			}
			if p.rst {
				alive = false
			}
			if !alive && (p.rst || (p.closed[0] && p.closed[1])) {
				p.dead = true
				n.needCompact = true
			}
		}
		if n.needCompact {
			k := 0
			for _, p := range n.livePairs {
				if !p.dead {
					n.livePairs[k] = p
					k++
				}
			}
			n.livePairs = n.livePairs[:k]
			n.needCompact = false
		}
		for i, s := range n.syns {
			if s.verdict == DialBlackhole || n.part[s.from] {
				continue
			}
			if l := n.listeners[s.dstKey]; l != nil && n.part[l.node] {
				continue
			}
			if consider(s.due) {
				acts = append(acts, action{kind: 2, s: s, idx: i})
			}
		}
		for i, d := range n.dgrams {
			if consider(d.due) {
				acts = append(acts, action{kind: 3, d: d, idx: i})
			}
		}
		for i, t := range n.timedActs {
			if consider(t.due) {
				acts = append(acts, action{kind: 4, t: t, idx: i})
			}
		}
		for i, g := range n.parked {
			if consider(g.until) {
				acts = append(acts, action{kind: 5, g: g, idx: i})
			}
		}
		if len(acts) == 0 {
			if schedDebug {
				println("sched idle now", int64(now), "next", int64(next), "syns", len(n.syns), "dgrams", len(n.dgrams), "timed", len(n.timedActs), "parked", len(n.parked), "live", len(n.livePairs), "steps", n.Steps)
			}
			n.mu.Unlock()
			if next >= 0 {
				idle.Reset(next - now)
				select {
				case <-n.kick:
					idle.Stop()
				case <-idle.C:
				}
			} else {
				<-n.kick
			}
			continue
		}
		if schedDebug && n.Steps%50000 == 0 {
			println("sched busy now", int64(now), "steps", n.Steps, "acts", len(acts), "kind0", acts[0].kind, "live", len(n.livePairs), "parked", len(n.parked))
		}
		// choose
		var a action
		chosen := false
		if n.lastHalf != nil && n.cfg.Batch > 0 {
			for _, c := range acts {
				if c.kind == 0 && c.h == n.lastHalf {
					if n.srng.Chance(n.cfg.Batch) {
						a, chosen = c, true
					}
					break
				}
			}
		}
		if !chosen {
			a = acts[n.srng.Intn(len(acts))]
		}
		n.Steps++
		switch a.kind {
		case 0:
			h := a.h
			s := h.q[0]
			h.q = h.q[1:]
			h.qb -= len(s.data)
			if !h.p.closed[1-h.d] { // receiver endpoint still open
				h.rbuf = append(h.rbuf, s.data)
				h.rb += len(s.data)
			}
			n.lastHalf = h
			n.Logf("seg c%d.%d %d", h.p.id, h.d, len(s.data))
			h.p.cond.Broadcast()
		case 1:
			a.h.finDelivered = true
			n.Logf("fin c%d.%d", a.h.p.id, a.h.d)
			a.h.p.cond.Broadcast()
		case 2:
			n.syns = append(n.syns[:a.idx], n.syns[a.idx+1:]...)
			n.deliverSynL(a.s)
			if a.s.conn != nil {
				n.livePairs = append(n.livePairs, a.s.conn.p)
			}
		case 3:
			n.dgrams = append(n.dgrams[:a.idx], n.dgrams[a.idx+1:]...)
			n.deliverDgramL(a.d)
		case 4:
			n.timedActs = append(n.timedActs[:a.idx], n.timedActs[a.idx+1:]...)
			n.Logf("act %s", a.t.name)
			f := a.t.f
			n.mu.Unlock()
			f()
			continue
		case 5:
			n.parked = append(n.parked[:a.idx], n.parked[a.idx+1:]...)
			a.g.released = true
			n.Logf("unpark y%d", a.g.site)
			a.g.cond.Broadcast()
		}
		n.mu.Unlock()
	}
}
