// Package simnet is the in-process deterministic network, scheduler, PRNG and
// event log used to run frp inside one testing/synctest bubble.
// See /verif/DESIGN.md §2.
package simnet

import (
	"fmt"
	"hash/fnv"
	"net"
	"os"
	"runtime"
	"sort"
	"strconv"
	"strings"
	"sync"
	"time"
	"unsafe"
)

// ---------------------------------------------------------------- PRNG

// Rand is a splitmix64 stream.
type Rand struct{ s uint64 }

func mix(z uint64) uint64 {
	z = (z ^ (z >> 30)) * 0xbf58476d1ce4e5b9
	z = (z ^ (z >> 27)) * 0x94d049bb133111eb
	return z ^ (z >> 31)
}

// NewRand derives a stream from a seed and a purpose name.
func NewRand(seed uint64, purpose string) *Rand {
	h := fnv.New64a()
	h.Write([]byte(purpose))
	return &Rand{s: mix(seed^0x51ed270b27b4f3a5) ^ mix(h.Sum64())}
}

func (r *Rand) U64() uint64 {
	r.s += 0x9e3779b97f4a7c15
	return mix(r.s)
}

// Intn returns a value in [0,n). n<=0 returns 0.
func (r *Rand) Intn(n int) int {
	if n <= 1 {
		return 0
	}
	return int(r.U64() % uint64(n))
}

// Range returns a value in [lo,hi].
func (r *Rand) Range(lo, hi int) int {
	if hi <= lo {
		return lo
	}
	return lo + r.Intn(hi-lo+1)
}

func (r *Rand) Float() float64 { return float64(r.U64()>>11) / float64(1<<53) }
func (r *Rand) Bool() bool     { return r.U64()&1 == 1 }
func (r *Rand) Chance(p float64) bool {
	if p <= 0 {
		return false
	}
	return r.Float() < p
}

// Pick returns one of the given ints.
func (r *Rand) Pick(v ...int) int { return v[r.Intn(len(v))] }

// Shuffle is a Fisher-Yates shuffle driven by the stream.
func (r *Rand) Shuffle(n int, swap func(i, j int)) {
	for i := n - 1; i > 0; i-- {
		swap(i, r.Intn(i+1))
	}
}

// PickStr returns one of the given strings.
func (r *Rand) PickStr(v ...string) string { return v[r.Intn(len(v))] }

// Fill fills b with pseudo-random bytes.
func (r *Rand) Fill(b []byte) {
	for i := 0; i < len(b); i += 8 {
		v := r.U64()
		for j := 0; j < 8 && i+j < len(b); j++ {
			b[i+j] = byte(v >> (8 * j))
		}
	}
}

// ---------------------------------------------------------------- nodes

// Node is a simulated host. Goroutines started through Node.Go (and their
// descendants) carry the node as an inherited tag.
type Node struct {
	Name    string
	IP      string
	n       *Net
	eph     int
	Crashed bool
}

func (nd *Node) String() string { return nd.Name }

// Go starts f on a new goroutine tagged with the node.
func (nd *Node) Go(f func()) {
	go func() {
		runtime.SimSetTag(unsafe.Pointer(nd))
		f()
	}()
}

// Enter tags the current goroutine with the node and returns a restore func.
func (nd *Node) Enter() func() {
	old := runtime.SimTag()
	runtime.SimSetTag(unsafe.Pointer(nd))
	return func() { runtime.SimSetTag(old) }
}

// CurrentNode returns the node of the calling goroutine (nil if untagged).
func CurrentNode() *Node {
	p := runtime.SimTag()
	if p == nil {
		return nil
	}
	nd := (*Node)(p)
	if N == nil || !N.nodeSet[nd] {
		return nil
	}
	return nd
}

// ---------------------------------------------------------------- Net

// Config holds the per-run knobs of the network.
type Config struct {
	MSS          int           // maximum segment size
	TinyProb     float64       // probability that a segment is cut to 1..16 bytes
	Window       int           // per-direction buffer capacity in bytes (0 = 1 MiB)
	BaseLatency  time.Duration // per link base latency upper bound
	Jitter       time.Duration
	SpikeProb    float64 // probability of a multi-second latency spike on a segment
	Batch        float64 // probability the scheduler keeps serving the same half
	UDPLoss      float64
	UDPDup       float64
	UDPReorder   float64
	ConstLatency bool // every link has exactly BaseLatency, no jitter (bandwidth oracle)
	MaxSteps     int
}

// Net is the simulated network. One per process.
type Net struct {
	mu   sync.Mutex
	cfg  Config
	rng  *Rand // network decisions: segmenting, latency
	srng *Rand // scheduler choices
	frng *Rand // fault decisions at fault points

	start time.Time

	nodes   []*Node
	nodeSet map[*Node]bool
	byIP    map[string]*Node
	unknown *Node

	listeners   map[string]*Listener // "ip:port"
	udp         map[string]*UDPConn  // "ip:port"
	pairs       []*pair
	livePairs   []*pair // pairs that may still have deliveries
	needCompact bool
	part        map[*Node]bool
	syns        []*syn
	dgrams      []*dgram
	linkLat     map[string]time.Duration

	kick chan struct{}
	done bool

	// scheduler bookkeeping
	Steps     int
	lastHalf  *half
	timedActs []*timedAct
	parked    []*parkedG

	// observation
	logHash  uint64
	logN     int
	LogLines []string // kept only if KeepLog
	KeepLog  bool
	Counters map[string]int

	// fault hooks
	DialFault   func(from *Node, to string) DialVerdict // nil = ok
	ListenFault func(nd *Node, addr string) error
	// UDPDialFault makes DialUDP fail (socket exhaustion, unreachable route); called under the network lock
	UDPDialFault func(nd *Node, raddr string) error
	taps         map[string]*Tap // by listener address
	extPorts     map[string]bool // ports squatted by "another process"

	ConnHook func(ev string, c *Conn) // "established", "closed"
}

// N is the process-wide network.
var N *Net

// DialVerdict is what an injected dial fault does.
type DialVerdict int

const (
	DialOK DialVerdict = iota
	DialRefuse
	DialBlackhole
)

// New creates the network. Must be called inside the synctest bubble.
func New(seed uint64, cfg Config) *Net {
	if cfg.MSS <= 0 {
		cfg.MSS = 1400
	}
	if cfg.Window <= 0 {
		cfg.Window = 1 << 20
	}
	if cfg.MaxSteps <= 0 {
		cfg.MaxSteps = 2_000_000
	}
	n := &Net{
		cfg:       cfg,
		rng:       NewRand(seed, "net"),
		srng:      NewRand(seed, "sched"),
		frng:      NewRand(seed, "fault"),
		start:     time.Now(),
		nodeSet:   map[*Node]bool{},
		byIP:      map[string]*Node{},
		listeners: map[string]*Listener{},
		udp:       map[string]*UDPConn{},
		part:      map[*Node]bool{},
		linkLat:   map[string]time.Duration{},
		kick:      make(chan struct{}, 1),
		Counters:  map[string]int{},
		taps:      map[string]*Tap{},
		extPorts:  map[string]bool{},
		logHash:   1469598103934665603,
	}
	n.unknown = n.NewNode("unknown", "10.0.8.1")
	N = n
	return n
}

func (n *Net) Cfg() Config { return n.cfg }

// NewNode registers a host.
func (n *Net) NewNode(name, ip string) *Node {
	nd := &Node{Name: name, IP: ip, n: n, eph: 40000}
	n.mu.Lock()
	n.nodes = append(n.nodes, nd)
	n.nodeSet[nd] = true
	n.byIP[ip] = nd
	n.mu.Unlock()
	return nd
}

// Now is simulated time since start.
func (n *Net) Now() time.Duration { return time.Since(n.start) }

// Count bumps a named counter.
func (n *Net) Count(name string, d int) {
	n.mu.Lock()
	n.Counters[name] += d
	n.mu.Unlock()
}

func (n *Net) countL(name string, d int) { n.Counters[name] += d }

// Counter reads a named counter.
func (n *Net) Counter(name string) int {
	n.mu.Lock()
	defer n.mu.Unlock()
	return n.Counters[name]
}

// CountLocked is Count for code that already runs under the network lock (fault hooks).
func (n *Net) CountLocked(name string, d int) { n.Counters[name] += d }

// Logf appends a line to the canonical event log (hash only unless KeepLog).
// Never draws from a PRNG, never reads a real clock. Caller may hold n.mu or not:
// the log state is only touched under logMu.
var logMu sync.Mutex

// TraceG appends the calling goroutine's id to every log line (debugging aid).
var TraceG = os.Getenv("VERIF_TRACE_G") != ""

func (n *Net) Logf(format string, a ...any) {
	s := fmt.Sprintf(format, a...)
	if TraceG {
		var buf [64]byte
		k := runtime.Stack(buf[:], false)
		f := strings.Fields(string(buf[:k]))
		if len(f) > 1 {
			s += " g" + f[1]
		}
	}
	t := time.Since(n.start)
	logMu.Lock()
	h := n.logHash
	for i := 0; i < len(s); i++ {
		h ^= uint64(s[i])
		h *= 1099511628211
	}
	h ^= uint64(t)
	h *= 1099511628211
	n.logHash = h
	n.logN++
	if n.KeepLog {
		n.LogLines = append(n.LogLines, fmt.Sprintf("%12.6f %s", t.Seconds(), s))
	}
	logMu.Unlock()
}

// LogHash returns the running hash and length of the event log.
func (n *Net) LogHash() (string, int) {
	logMu.Lock()
	defer logMu.Unlock()
	return strconv.FormatUint(n.logHash, 16), n.logN
}

func (n *Net) kickL() {
	select {
	case n.kick <- struct{}{}:
	default:
	}
}

// Kick wakes the scheduler.
func (n *Net) Kick() { n.kickL() }

// ---------------------------------------------------------------- addresses

func splitHostPort(addr string) (string, int, error) {
	h, p, err := net.SplitHostPort(addr)
	if err != nil {
		return "", 0, err
	}
	port := 0
	if p != "" {
		port, err = strconv.Atoi(p)
		if err != nil || port < 0 || port > 65535 {
			return "", 0, &net.AddrError{Err: "invalid port", Addr: addr}
		}
	}
	return h, port, nil
}

func isWild(ip string) bool {
	return ip == "" || ip == "0.0.0.0" || ip == "::" || ip == "[::]"
}

func key(ip string, port int) string { return ip + ":" + strconv.Itoa(port) }

// resolveHost maps a host string to a simulated IP string.
func (n *Net) resolveHost(h string) (string, error) {
	if isWild(h) {
		return "0.0.0.0", nil
	}
	if ip := net.ParseIP(h); ip != nil {
		if v4 := ip.To4(); v4 != nil {
			return v4.String(), nil
		}
		return ip.String(), nil
	}
	n.mu.Lock()
	ip, ok := Hosts[strings.ToLower(h)]
	n.mu.Unlock()
	if ok {
		return ip, nil
	}
	return "", &net.DNSError{Err: "no such host", Name: h, IsNotFound: true}
}

// Hosts is the simulated name table.
var Hosts = map[string]string{"localhost": "127.0.0.1"}

func (n *Net) nodeForLocal(laddrIP string) *Node {
	if nd := CurrentNode(); nd != nil {
		return nd
	}
	if laddrIP != "" {
		if nd, ok := n.byIP[laddrIP]; ok {
			return nd
		}
	}
	return n.unknown
}

// Snapshot helpers used by oracles.

// ListeningTCP returns the sorted list of "ip:port" with a live TCP listener.
func (n *Net) ListeningTCP() []string {
	n.mu.Lock()
	defer n.mu.Unlock()
	var out []string
	for k := range n.listeners {
		out = append(out, k)
	}
	sort.Strings(out)
	return out
}

// BoundUDP returns the sorted list of "ip:port" with a bound UDP socket.
func (n *Net) BoundUDP() []string {
	n.mu.Lock()
	defer n.mu.Unlock()
	var out []string
	for k := range n.udp {
		out = append(out, k)
	}
	sort.Strings(out)
	return out
}

// OpenConns returns the number of TCP connection endpoints not yet closed.
func (n *Net) OpenConns() int {
	n.mu.Lock()
	defer n.mu.Unlock()
	c := 0
	for _, p := range n.pairs {
		for s := 0; s < 2; s++ {
			if !p.closed[s] && !p.rst {
				c++
			}
		}
	}
	return c
}

// SquatPort marks ip:port as owned by another process (Listen fails with EADDRINUSE).
func (n *Net) SquatPort(network, addr string, on bool) {
	n.mu.Lock()
	if on {
		n.extPorts[network+"/"+addr] = true
	} else {
		delete(n.extPorts, network+"/"+addr)
	}
	n.mu.Unlock()
}
