package simnet

import (
	"context"
	"errors"
	"io"
	"net"
	"os"
	"sync"
	"syscall"
	"time"
)

type seg struct {
	data   []byte
	due    time.Duration
	sealed bool // never coalesced with later writes
}

// half is one direction of a TCP connection.
type half struct {
	p            *pair
	d            int // direction index: 0 dialer->acceptor
	q            []seg
	qb           int      // bytes in q
	rbuf         [][]byte // delivered, unread
	rb           int
	fin          bool // writer closed; FIN follows q
	finDue       time.Duration
	finDelivered bool
	lastDue      time.Duration
	blackhole    bool
	sent, recvd  int64
}

type pair struct {
	id     int
	n      *Net
	cond   *sync.Cond
	dir    [2]*half
	addr   [2]*net.TCPAddr // [0] dialer's local, [1] acceptor's local (listener addr)
	node   [2]*Node
	closed [2]bool // endpoint closed locally
	rst    bool
	// halfRst[s]: endpoint s has lost the connection (its reads and writes fail with a reset) while the other
	// endpoint has not been told: a half-open connection
	halfRst [2]bool
	link    string // "<srcnode>><dstaddr>"
	lat    time.Duration
	tap    *Tap
	ends   [2]*Conn
	dead   bool // nothing more to deliver, both closed
}

// Conn is one endpoint of a simulated TCP connection.
type Conn struct {
	p    *pair
	side int
	rdl  time.Time
	wdl  time.Time
	rt   *time.Timer
	wt   *time.Timer
	// Label can be set by the harness for logs.
	Label string
}

type timeoutError struct{}

func (timeoutError) Error() string   { return "i/o timeout" }
func (timeoutError) Timeout() bool   { return true }
func (timeoutError) Temporary() bool { return true }
func (timeoutError) Is(err error) bool {
	return err == os.ErrDeadlineExceeded || err == context.DeadlineExceeded
}

func opErr(op string, c *Conn, err error) error {
	var src, dst net.Addr
	if c != nil {
		src, dst = c.LocalAddr(), c.RemoteAddr()
	}
	return &net.OpError{Op: op, Net: "tcp", Source: src, Addr: dst, Err: err}
}

func (c *Conn) in() *half  { return c.p.dir[1-c.side] }
func (c *Conn) out() *half { return c.p.dir[c.side] }

// ID returns the connection pair id (same on both endpoints).
func (c *Conn) ID() int { return c.p.id }

// Side is 0 for the dialer's endpoint and 1 for the acceptor's.
func (c *Conn) Side() int { return c.side }

func (c *Conn) Read(b []byte) (int, error) {
	n := c.p.n
	n.mu.Lock()
	defer n.mu.Unlock()
	h := c.in()
	for {
		if c.p.closed[c.side] {
			return 0, opErr("read", c, net.ErrClosed)
		}
		if c.p.rst || c.p.halfRst[c.side] {
			return 0, opErr("read", c, syscall.ECONNRESET)
		}
		if len(h.rbuf) > 0 {
			if len(b) == 0 {
				return 0, nil
			}
			chunk := h.rbuf[0]
			k := copy(b, chunk)
			if k == len(chunk) {
				h.rbuf = h.rbuf[1:]
			} else {
				h.rbuf[0] = chunk[k:]
			}
			h.rb -= k
			h.recvd += int64(k)
			// window opened: writer may continue
			c.p.cond.Broadcast()
			return k, nil
		}
		if h.finDelivered {
			return 0, io.EOF
		}
		if !c.rdl.IsZero() && !time.Now().Before(c.rdl) {
			return 0, opErr("read", c, timeoutError{})
		}
		c.p.cond.Wait()
	}
}

func (c *Conn) Write(b []byte) (int, error) {
	n := c.p.n
	n.mu.Lock()
	defer n.mu.Unlock()
	h := c.out()
	total := 0
	for {
		if c.p.closed[c.side] {
			return total, opErr("write", c, net.ErrClosed)
		}
		if c.p.rst || c.p.halfRst[c.side] {
			return total, opErr("write", c, syscall.ECONNRESET)
		}
		if h.fin {
			return total, opErr("write", c, syscall.EPIPE)
		}
		// peer fully closed and we know it (its FIN reached us): broken pipe
		if c.p.closed[1-c.side] && c.in().finDelivered {
			return total, opErr("write", c, syscall.EPIPE)
		}
		if len(b) == 0 {
			return total, nil
		}
		if !c.wdl.IsZero() && !time.Now().Before(c.wdl) {
			return total, opErr("write", c, timeoutError{})
		}
		room := n.cfg.Window - (h.qb + h.rb)
		if room <= 0 {
			c.p.cond.Wait()
			continue
		}
		k := len(b)
		if k > room {
			k = room
		}
		n.enqueueL(h, b[:k])
		if c.p.tap != nil {
			c.p.tap.record(c.p.id, c.side, b[:k])
		}
		b = b[k:]
		total += k
		if len(b) == 0 {
			return total, nil
		}
	}
}

// enqueueL cuts data into segments and queues them on h.
func (n *Net) enqueueL(h *half, data []byte) {
	now := n.Now()
	// coalesce with the last queued segment while it is still in flight and not full (Nagle-like)
	if k := len(h.q); k > 0 && !h.q[k-1].sealed && len(h.q[k-1].data) < n.cfg.MSS {
		last := &h.q[k-1]
		room := n.cfg.MSS - len(last.data)
		if room > len(data) {
			room = len(data)
		}
		last.data = append(last.data, data[:room]...)
		data = data[room:]
		h.qb += room
		h.sent += int64(room)
	}
	for len(data) > 0 {
		sz := n.cfg.MSS
		sealed := false
		if n.cfg.TinyProb > 0 && n.rng.Chance(n.cfg.TinyProb) {
			sz = 1 + n.rng.Intn(16)
			sealed = true
		}
		if sz > len(data) {
			sz = len(data)
		}
		cp := make([]byte, sz)
		copy(cp, data[:sz])
		data = data[sz:]
		due := now + n.latencyL(h.p)
		if due < h.lastDue {
			due = h.lastDue
		}
		h.lastDue = due
		h.q = append(h.q, seg{cp, due, sealed})
		h.qb += sz
		h.sent += int64(sz)
	}
	n.kickL()
}

func (n *Net) latencyL(p *pair) time.Duration {
	if n.cfg.ConstLatency {
		return n.cfg.BaseLatency
	}
	d := p.lat
	if n.cfg.Jitter > 0 {
		d += time.Duration(n.rng.U64() % uint64(n.cfg.Jitter+1))
	}
	if n.cfg.SpikeProb > 0 && n.rng.Chance(n.cfg.SpikeProb) {
		d += time.Duration(n.rng.Range(500, 4000)) * time.Millisecond
		n.countL("net.latency_spike", 1)
	}
	return d
}

// Close closes the endpoint: FIN after queued data.
func (c *Conn) Close() error {
	n := c.p.n
	n.mu.Lock()
	defer n.mu.Unlock()
	if c.p.closed[c.side] {
		return opErr("close", c, net.ErrClosed)
	}
	c.p.closed[c.side] = true
	n.closeWriteL(c)
	// discard unread input
	in := c.in()
	in.rbuf, in.rb = nil, 0
	c.stopTimersL()
	n.Logf("close c%d.%d", c.p.id, c.side)
	c.p.cond.Broadcast()
	n.kickL()
	if n.ConnHook != nil {
		n.ConnHook("closed", c)
	}
	return nil
}

func (n *Net) closeWriteL(c *Conn) {
	h := c.out()
	if h.fin {
		return
	}
	h.fin = true
	due := n.Now() + n.latencyL(c.p)
	if due < h.lastDue {
		due = h.lastDue
	}
	h.lastDue = due
	h.finDue = due
}

// CloseWrite half-closes the connection.
func (c *Conn) CloseWrite() error {
	n := c.p.n
	n.mu.Lock()
	defer n.mu.Unlock()
	if c.p.closed[c.side] {
		return opErr("close", c, net.ErrClosed)
	}
	n.closeWriteL(c)
	n.kickL()
	return nil
}

// CloseRead is accepted and ignored (reads keep draining).
func (c *Conn) CloseRead() error { return nil }

func (c *Conn) stopTimersL() {
	if c.rt != nil {
		c.rt.Stop()
		c.rt = nil
	}
	if c.wt != nil {
		c.wt.Stop()
		c.wt = nil
	}
}

func (c *Conn) LocalAddr() net.Addr  { return c.p.addr[c.side] }
func (c *Conn) RemoteAddr() net.Addr { return c.p.addr[1-c.side] }

func (c *Conn) SetDeadline(t time.Time) error {
	c.SetReadDeadline(t)
	c.SetWriteDeadline(t)
	return nil
}

func (c *Conn) armL(t time.Time, old **time.Timer) {
	if *old != nil {
		(*old).Stop()
		*old = nil
	}
	if t.IsZero() {
		return
	}
	d := time.Until(t)
	if d <= 0 {
		c.p.cond.Broadcast()
		return
	}
	p := c.p
	*old = time.AfterFunc(d, func() {
		p.n.mu.Lock()
		p.cond.Broadcast()
		p.n.mu.Unlock()
	})
}

func (c *Conn) SetReadDeadline(t time.Time) error {
	n := c.p.n
	n.mu.Lock()
	defer n.mu.Unlock()
	if c.p.closed[c.side] {
		return opErr("set", c, net.ErrClosed)
	}
	c.rdl = t
	c.armL(t, &c.rt)
	return nil
}

func (c *Conn) SetWriteDeadline(t time.Time) error {
	n := c.p.n
	n.mu.Lock()
	defer n.mu.Unlock()
	if c.p.closed[c.side] {
		return opErr("set", c, net.ErrClosed)
	}
	c.wdl = t
	c.armL(t, &c.wt)
	return nil
}

// Methods of *net.TCPConn that callers may reach through interface assertions.
func (c *Conn) SetKeepAlive(bool) error                { return nil }
func (c *Conn) SetKeepAlivePeriod(time.Duration) error { return nil }
func (c *Conn) SetNoDelay(bool) error                  { return nil }
func (c *Conn) SetLinger(int) error                    { return nil }

// MuteLocked makes the connection silent in both directions from now on: nothing either end writes arrives, and
// neither end is told. For use inside ConnHook (which runs with the network lock held): a server that accepts a
// connection and then says nothing - frozen process, middlebox that drops everything after the handshake.
func (c *Conn) MuteLocked() {
	for _, h := range c.p.dir {
		h.blackhole = true
	}
	c.p.n.countL("fault.mute", 1)
}

// Link names the connection's link ("<src node>><dst addr>").
func (c *Conn) Link() string { return c.p.link }

// Reset aborts the connection in both directions (fault).
func (c *Conn) Reset() { c.p.n.ResetPair(c.p.id) }

// PeerClosed reports whether this endpoint has seen the peer's FIN or a reset.
func (c *Conn) PeerClosed() bool {
	n := c.p.n
	n.mu.Lock()
	defer n.mu.Unlock()
	return c.p.rst || c.in().finDelivered
}

// OtherEndClosed is the simulator's view of the other endpoint: it has been closed by its owner (or the pair was reset).
func (c *Conn) OtherEndClosed() bool {
	n := c.p.n
	n.mu.Lock()
	defer n.mu.Unlock()
	return c.p.rst || c.p.closed[1-c.side]
}

// ResetPair aborts pair id.
func (n *Net) ResetPair(id int) {
	n.mu.Lock()
	defer n.mu.Unlock()
	n.resetPairL(n.pairs[id])
}

// HalfOpenPair makes endpoint side (0 = dialer, 1 = acceptor) of pair id lose the connection - its reads and
// writes fail with a reset - while the other endpoint is not told anything: nothing it sends arrives any more and
// nothing arrives for it (connection state lost in a NAT or firewall, peer rebooted without the RST getting through).
func (n *Net) HalfOpenPair(id, side int) {
	n.mu.Lock()
	defer n.mu.Unlock()
	p := n.pairs[id]
	if p.rst || p.halfRst[side] {
		return
	}
	p.halfRst[side] = true
	for _, h := range p.dir {
		h.blackhole = true
	}
	n.Logf("half-open c%d side %d", p.id, side)
	n.countL("fault.half_open", 1)
	p.cond.Broadcast()
}

func (n *Net) resetPairL(p *pair) {
	if p.rst {
		return
	}
	p.rst = true
	for _, h := range p.dir {
		h.q, h.qb, h.rbuf, h.rb = nil, 0, nil, 0
	}
	n.Logf("reset c%d", p.id)
	n.countL("fault.reset", 1)
	p.cond.Broadcast()
}

// ---------------------------------------------------------------- listener

type Listener struct {
	n       *Net
	addr    *net.TCPAddr
	key     string
	node    *Node
	cond    *sync.Cond
	backlog []*Conn
	closed  bool
}

func (l *Listener) Accept() (net.Conn, error) {
	n := l.n
	n.mu.Lock()
	defer n.mu.Unlock()
	for {
		if l.closed {
			return nil, &net.OpError{Op: "accept", Net: "tcp", Addr: l.addr, Err: net.ErrClosed}
		}
		if len(l.backlog) > 0 {
			c := l.backlog[0]
			l.backlog = l.backlog[1:]
			return c, nil
		}
		l.cond.Wait()
	}
}

func (l *Listener) Close() error {
	n := l.n
	n.mu.Lock()
	defer n.mu.Unlock()
	if l.closed {
		return &net.OpError{Op: "close", Net: "tcp", Addr: l.addr, Err: net.ErrClosed}
	}
	l.closed = true
	if n.listeners[l.key] == l {
		delete(n.listeners, l.key)
	}
	for _, c := range l.backlog {
		n.resetPairL(c.p)
	}
	l.backlog = nil
	n.Logf("unlisten %s", l.key)
	l.cond.Broadcast()
	return nil
}

func (l *Listener) Addr() net.Addr { return l.addr }

// Listen announces on the simulated network.
func Listen(network, address string) (net.Listener, error) {
	return N.Listen(network, address)
}

func (n *Net) Listen(network, address string) (net.Listener, error) {
	switch network {
	case "tcp", "tcp4", "tcp6":
	default:
		return nil, &net.OpError{Op: "listen", Net: network, Err: errors.New("simnet: unsupported network")}
	}
	h, port, err := splitHostPort(address)
	if err != nil {
		return nil, &net.OpError{Op: "listen", Net: network, Err: err}
	}
	ip, err := n.resolveHost(h)
	if err != nil {
		return nil, &net.OpError{Op: "listen", Net: network, Err: err}
	}
	nd := n.nodeForLocal(ip)
	if isWild(ip) {
		ip = nd.IP
	}
	n.mu.Lock()
	defer n.mu.Unlock()
	if n.ListenFault != nil {
		if err := n.ListenFault(nd, key(ip, port)); err != nil {
			n.countL("fault.listen", 1)
			n.Logf("listen-fault %s", key(ip, port))
			return nil, &net.OpError{Op: "listen", Net: network, Addr: &net.TCPAddr{IP: net.ParseIP(ip), Port: port}, Err: err}
		}
	}
	if port == 0 {
		for {
			nd.eph++
			if nd.eph > 60000 {
				nd.eph = 40001
			}
			if _, used := n.listeners[key(ip, nd.eph)]; !used && !n.extPorts["tcp/"+key(ip, nd.eph)] {
				port = nd.eph
				break
			}
		}
	}
	k := key(ip, port)
	if _, used := n.listeners[k]; used || n.extPorts["tcp/"+k] {
		return nil, &net.OpError{Op: "listen", Net: network, Addr: &net.TCPAddr{IP: net.ParseIP(ip), Port: port},
			Err: os.NewSyscallError("bind", syscall.EADDRINUSE)}
	}
	l := &Listener{n: n, addr: &net.TCPAddr{IP: net.ParseIP(ip), Port: port}, key: k, node: nd}
	l.cond = sync.NewCond(&n.mu)
	n.listeners[k] = l
	n.Logf("listen %s", k)
	return l, nil
}

// ---------------------------------------------------------------- dial

type syn struct {
	due     time.Duration
	dstKey  string
	dstIP   string
	dstPort int
	laddr   *net.TCPAddr
	from    *Node
	cond    *sync.Cond
	done    bool
	conn    *Conn
	err     error
	verdict DialVerdict
	gone    bool // dialer gave up
}

// Dialer mirrors the fields of net.Dialer that frp and golib use.
type Dialer struct {
	Timeout       time.Duration
	Deadline      time.Time
	LocalAddr     net.Addr
	KeepAlive     time.Duration
	FallbackDelay time.Duration
	DualStack     bool
	Resolver      *net.Resolver
	Control       func(network, address string, c syscall.RawConn) error
}

func (d *Dialer) Dial(network, address string) (net.Conn, error) {
	return d.DialContext(context.Background(), network, address)
}

func (d *Dialer) DialContext(ctx context.Context, network, address string) (net.Conn, error) {
	var deadline time.Time
	if d.Timeout > 0 {
		deadline = time.Now().Add(d.Timeout)
	}
	if !d.Deadline.IsZero() && (deadline.IsZero() || d.Deadline.Before(deadline)) {
		deadline = d.Deadline
	}
	if dl, ok := ctx.Deadline(); ok && (deadline.IsZero() || dl.Before(deadline)) {
		deadline = dl
	}
	lip := ""
	switch a := d.LocalAddr.(type) {
	case *net.TCPAddr:
		if a != nil && a.IP != nil && !a.IP.IsUnspecified() {
			lip = a.IP.String()
		}
	case *net.UDPAddr:
		if a != nil && a.IP != nil && !a.IP.IsUnspecified() {
			lip = a.IP.String()
		}
	}
	switch network {
	case "udp", "udp4", "udp6":
		ra, err := ResolveUDPAddr(network, address)
		if err != nil {
			return nil, err
		}
		var la *net.UDPAddr
		if lip != "" {
			la = &net.UDPAddr{IP: net.ParseIP(lip)}
		}
		return DialUDP(network, la, ra)
	}
	return N.dial(ctx, network, address, lip, deadline)
}

func Dial(network, address string) (net.Conn, error) {
	return (&Dialer{}).DialContext(context.Background(), network, address)
}

func DialTimeout(network, address string, timeout time.Duration) (net.Conn, error) {
	return (&Dialer{Timeout: timeout}).DialContext(context.Background(), network, address)
}

// DialContext is usable as http.Transport.DialContext.
func DialContext(ctx context.Context, network, address string) (net.Conn, error) {
	return (&Dialer{}).DialContext(ctx, network, address)
}

// DialFrom dials with an explicit local IP (harness users).
func DialFrom(localIP, address string, timeout time.Duration) (*Conn, error) {
	var dl time.Time
	if timeout > 0 {
		dl = time.Now().Add(timeout)
	}
	c, err := N.dial(context.Background(), "tcp", address, localIP, dl)
	if err != nil {
		return nil, err
	}
	return c.(*Conn), nil
}

func (n *Net) dial(ctx context.Context, network, address, localIP string, deadline time.Time) (net.Conn, error) {
	switch network {
	case "tcp", "tcp4", "tcp6":
	default:
		return nil, &net.OpError{Op: "dial", Net: network, Err: errors.New("simnet: unsupported network " + network)}
	}
	h, port, err := splitHostPort(address)
	if err != nil {
		return nil, &net.OpError{Op: "dial", Net: network, Err: err}
	}
	ip, err := n.resolveHost(h)
	if err != nil {
		return nil, &net.OpError{Op: "dial", Net: network, Err: err}
	}
	from := n.nodeForLocal(localIP)
	if localIP == "" {
		localIP = from.IP
	}
	if isWild(ip) {
		ip = from.IP
	}
	if err := ctx.Err(); err != nil {
		return nil, &net.OpError{Op: "dial", Net: network, Err: err}
	}

	n.mu.Lock()
	from.eph++
	if from.eph > 60000 {
		from.eph = 40001
	}
	s := &syn{
		dstKey: key(ip, port), dstIP: ip, dstPort: port,
		laddr: &net.TCPAddr{IP: net.ParseIP(localIP), Port: from.eph},
		from:  from,
	}
	s.cond = sync.NewCond(&n.mu)
	if n.DialFault != nil {
		s.verdict = n.DialFault(from, s.dstKey)
		if s.verdict != DialOK {
			n.countL("fault.dial", 1)
		}
	}
	lat := n.linkLatencyL(from.Name + ">" + s.dstKey)
	s.due = n.Now() + lat
	n.syns = append(n.syns, s)
	n.kickL()

	var tm *time.Timer
	if !deadline.IsZero() {
		d := time.Until(deadline)
		if d < 0 {
			d = 0
		}
		tm = time.AfterFunc(d, func() {
			n.mu.Lock()
			s.cond.Broadcast()
			n.mu.Unlock()
		})
	}
	stopCtx := context.AfterFunc(ctx, func() {
		n.mu.Lock()
		s.cond.Broadcast()
		n.mu.Unlock()
	})
	defer stopCtx()
	defer func() {
		if tm != nil {
			tm.Stop()
		}
	}()
	defer n.mu.Unlock()
	for !s.done {
		if err := ctx.Err(); err != nil {
			s.gone = true
			return nil, &net.OpError{Op: "dial", Net: network, Addr: &net.TCPAddr{IP: net.ParseIP(ip), Port: port}, Err: err}
		}
		if !deadline.IsZero() && !time.Now().Before(deadline) {
			s.gone = true
			return nil, &net.OpError{Op: "dial", Net: network, Addr: &net.TCPAddr{IP: net.ParseIP(ip), Port: port}, Err: timeoutError{}}
		}
		s.cond.Wait()
	}
	if s.err != nil {
		return nil, &net.OpError{Op: "dial", Net: network, Addr: &net.TCPAddr{IP: net.ParseIP(ip), Port: port}, Err: s.err}
	}
	return s.conn, nil
}

func (n *Net) linkLatencyL(link string) time.Duration {
	if n.cfg.ConstLatency {
		return n.cfg.BaseLatency
	}
	if d, ok := n.linkLat[link]; ok {
		return d
	}
	var d time.Duration
	if n.cfg.BaseLatency > 0 {
		d = time.Duration(n.rng.U64() % uint64(n.cfg.BaseLatency+1))
	}
	n.linkLat[link] = d
	return d
}

// deliverSynL completes (or refuses) a pending dial. Called by the scheduler.
func (n *Net) deliverSynL(s *syn) {
	s.done = true
	defer s.cond.Broadcast()
	if s.gone {
		return
	}
	if s.verdict == DialRefuse {
		s.err = os.NewSyscallError("connect", syscall.ECONNREFUSED)
		n.Logf("dial-refused(fault) %s>%s", s.from.Name, s.dstKey)
		return
	}
	l := n.listeners[s.dstKey]
	if l == nil || l.closed || l.node.Crashed {
		s.err = os.NewSyscallError("connect", syscall.ECONNREFUSED)
		n.Logf("dial-refused %s>%s", s.from.Name, s.dstKey)
		n.countL("net.dial_refused", 1)
		return
	}
	p := &pair{id: len(n.pairs), n: n}
	p.cond = sync.NewCond(&n.mu)
	p.dir[0] = &half{p: p, d: 0}
	p.dir[1] = &half{p: p, d: 1}
	p.addr[0] = s.laddr
	p.addr[1] = l.addr
	p.node[0] = s.from
	p.node[1] = l.node
	p.link = s.from.Name + ">" + s.dstKey
	p.lat = n.linkLatencyL(p.link)
	p.tap = n.taps[s.dstKey]
	c0 := &Conn{p: p, side: 0}
	c1 := &Conn{p: p, side: 1}
	p.ends = [2]*Conn{c0, c1}
	n.pairs = append(n.pairs, p)
	l.backlog = append(l.backlog, c1)
	l.cond.Broadcast()
	s.conn = c0
	n.countL("net.conns", 1)
	n.Logf("conn c%d %s", p.id, p.link)
	if n.ConnHook != nil {
		n.ConnHook("established", c0)
	}
}

// ---------------------------------------------------------------- ListenConfig

type ListenConfig struct {
	Control   func(network, address string, c syscall.RawConn) error
	KeepAlive time.Duration
}

func (lc *ListenConfig) Listen(ctx context.Context, network, address string) (net.Listener, error) {
	return Listen(network, address)
}

func (lc *ListenConfig) ListenPacket(ctx context.Context, network, address string) (net.PacketConn, error) {
	return ListenPacket(network, address)
}
