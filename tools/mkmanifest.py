#!/usr/bin/env python3
"""Regenerates MANIFEST.json from the table below."""
import json
claimed = {
 "C02": ("exploration", "8 C02", "seeded deterministic whole-system simulation: real frps + real frpc http proxy (and the http2http, http2https, https2http, https2https client plugins behind http, https or tcp proxies), raw HTTP/1.1 users (plain or TLS) and a recording backend; request/response comparison modulo declared rewrites; protocol-upgrade and CONNECT tunnels through the vhost port; two routes by http user on one host; slow bodies and idle tunnels longer than the header timeout; bounded error answers for unreachable and silent backends",
         "Generated request/response shapes x header-rewrite configurations x tunnel options x keep-alive sequences x network schedules; bodies compared after de-framing, end-to-end headers as multisets."),
 "C03": ("exploration", "8 C03", "seeded deterministic whole-system simulation over simulated UDP with per-leg loss/duplication/reordering and work-connection resets; multiset-inclusion oracles measured at the public socket and at the client's local sockets; reply addressing",
         "Datagram payloads 12..packet size, several user source addresses, udp and sudp(visitor) paths, encryption/compression/mux; injected duplication/loss is never blamed on frp because inclusion is measured after the faulty leg."),
 "C05": ("exploration", "8 C05", "seeded deterministic whole-system simulation with a byte tap on the client-server path: per-run high-entropy markers (token, secret key, http password, proxy name, payload) searched in every byte that crossed the path under drawn TLS/encryption/compression/mux/websocket configurations; TLS policy scenarios with scripted plaintext/TLS peers (no, rogue, good certificate; all 256 first bytes) and a scripted TLS server with right/rogue/other-name identity against real frpc",
         "Configuration lattice x schedules; absence of markers on the wire is decided over the complete byte record of the run, the policy half by whether any protocol reply (server side) or any protocol byte (client side) follows an unacceptable handshake."),
 "C06": ("exploration", "8 C06", "seeded deterministic simulation: scripted route owners, histories of register/acknowledged-remove/re-register interleaved with HTTP (keep-alive), SNI and CONNECT requests, checked against a reference most-specific matcher written from the statement",
         "Route tables with exact/wildcard/catch-all hosts, nested locations, user restrictions on http/https/tcpmux vhosts; every request's serving backend (which stamps and records) is compared with the reference owner; removed routes must stay silent."),
 "C07": ("exploration", "8 C07", "seeded deterministic simulation: (routes world) protected, unprotected and user-routed http/tcpmux routes on the same hosts with request-shape enumeration and a negative oracle on what protected backends saw; (services world) real frps dashboard API, frpc admin API and the static_file, http_proxy and socks5 client plugins behind real tcp proxies, each with its own credentials, 4-20 credential variants per service; served / tunnelled / authenticated implies exact credentials, refusals are challenges or closes that reach no target and no state-changing handler",
         "The quantifier is inputs x configurations; decided inside the simulator because the observable spans requester, frps, frpc, plugin and the backend or target behind it."),
 "C14": ("fault_enumeration", "8 C14", "seeded deterministic simulation on the fake clock: silent/blackholed scripted peers against real frps, silent scripted server against real frpc, real frpc+frps under resets, blackholes (2 s - 2 h), server crash/restart, absent/refusing/flapping server; detection-time, never-false (simulated days), bounded-healing and retry-rate oracles",
         "Fault sequences and their timing are enumerated per run; time bounds are computed from the configured timeouts of the run plus stated slack; simulated days of heartbeats cost milliseconds."),
 "C19": ("exploration", "8 C19", "seeded deterministic simulation: real frpc against a scripted server with per-proxy reply policies; reload histories and probe-outcome schedules (accept/refuse/blackhole per dial, status/stall per request); message-trace, status-API and work-connection oracles against a configured-and-healthy model",
         "Histories of configuration sets x server replies x probe outcomes on the fake clock; the trace the scripted server records is compared with a reference model of 'configured and healthy', including the consecutive-failure rule."),
 "C20": ("exploration", "8 C20", "seeded deterministic simulation: scripted visitor/owner/third-party controls on real frps with generated NAT observations and message orders; pairing, complementarity, mode-rule, range and hygiene oracles; real MakeHole for both roles over simulated UDP",
         "Generated observation pairs x histories (reports before analysis, duplicates, unknown sids, silent owner); both responses are compared with each other and with the statement's role rules; the real client routine must meet on an unfiltered simulated network."),
 "C04": ("exploration", "8 C04", "seeded deterministic simulation: adversarial scripted peers (independent protocol implementation) against real frps with an honest client carrying traffic; token method with every scope subset, TLS, mux, the ssh tunnel gateway (authorized / unauthorized keys, token-required mode, churn of legitimate users) and the OIDC method against a stub issuer (11 invalid token variants in logins, heartbeats, work connections); refusal, heartbeat-timeout, footprint and bystander oracles",
         "Adversarial message histories (bad/missing/self-exempting logins, foreign/unknown work connections, unauthenticated first messages, invalid-heartbeat sessions, floods) x scopes x TLS x mux; every refused attempt must be answered by an error or a close, never by state."),
 "C08": ("exploration", "8 C08", "seeded deterministic simulation: scripted visitors with right/wrong signatures, users and run ids against stcp/sudp/xtcp proxies with drawn allowed-user lists, interleaved with proxy close/re-open",
         "bridged (owner sees a start / session id) implies signed and allowed; refused requests must reach neither owner nor backend; admitted plain streams are echoed byte for byte."),
 "C15": ("fault_enumeration", "8 C15", "seeded deterministic simulation: real net/http stub plugin servers with per-operation outcomes (accept, rewrite, reject, 500, reset, malformed, unreachable) chained in drawn order; fold over the chain is the oracle",
         "plugin outcome x operation is enumerated per run; the gated effect must equal the fold over the subscribed chain, later plugins and the server must see earlier rewrites, unsubscribed plugins see nothing, CloseProxy notifications arrive for explicit and session-end stops."),
 "C16": ("exploration", "8 C16", "seeded deterministic simulation incl. race-detector builds: extreme-value message barrage by authenticated peers concurrent with lifecycle/group/visitor/NAT-hole traffic, plus the worlds in which real client code runs (frpc against a scripted server, liveness faults, the ssh gateway's virtual client inside frps with users coming and going) under L2 yield perturbation; any frp panic/fatal in any world, map races in frp server/pkg/client code, stalled sessions",
         "Crash = unrecovered panic or runtime fatal with an frp frame on the panicking stack; race builds run the same worlds single-P under the happens-before detector and report only map accesses from frp code on both sides; every surviving session must still answer a heartbeat."),
 "C17": ("exploration", "8 C17", "seeded deterministic simulation: independent codec interoperating with real frps in every world, wire monitor re-parsing every frame frps emits against the released field names, framing faults (1-byte chunking, EOF at offsets, unknown type, negative/oversized length with withheld body, malformed bodies)",
         "Interoperability and wire stability are decided by an implementation written from the released protocol; bounded decoding is observed as 'closes without waiting for the announced body'."),
 "C09": ("fault_enumeration", "8 C09", "seeded deterministic simulation: scripted clients (independent protocol implementation) drive register/close/drop/squat/race histories against real frps; reference allocator + comparison with what simnet really has bound after every acknowledged step",
         "Enumerates port requests (0, in range, out of range, negative, >65535, squatted, grouped) x histories x concurrent acquirers; every outcome is compared with a sequential reference allocator and the really bound ports; listen failures are injected between availability probe and real listen (C10 shares that path)."),
 "C10": ("fault_enumeration", "8 C10", "seeded deterministic simulation: cycles of registration and termination (CloseProxy, connection drop/reset, re-login with same run id, heartbeat timeout by partition) for all proxy types, partial-failure injection, identical re-registration oracle and footprint slope test",
         "Termination paths x proxy types x partial failures are enumerated per run; the identical registration afterwards must succeed, bystanders keep serving, and goroutine/endpoint/connection footprint is compared between cycle 2 and the last cycle after transient holds have expired."),
 "C11": ("exploration", "8 C11", "seeded deterministic simulation with L2 yield perturbation: scripted client with good/late/never/dead work-connection behaviour, 1-16 simultaneous users on four accept paths, surplus flood, work connections arriving during teardown",
         "Explores arrival orders of user vs work connections and teardown timing; checks one-user-per-work-connection, StartWorkConn contents, pre-request count, bounded parking of surplus offers, and that no work connection is left open after the session ends."),
 "C12": ("exploration", "8 C12", "seeded deterministic simulation with L2 yield perturbation: login/register/foreign close/re-login (single and concurrent)/disconnect histories checked against a name->owner, run-id->session model; run-id format/uniqueness",
         "Histories and interleavings of 2-3 scripted clients; at the acknowledgement of a re-login the old session's ports must already be unbound, own names re-register, exactly one survivor of concurrent re-logins, late cleanup never removes the new session."),
 "C13": ("exploration", "8 C13", "seeded deterministic simulation with L2 yield perturbation: join/leave/drop/probe/rotation histories and last-leave-racing-join steps on tcp, http and tcpmux groups against a membership model; any frps panic counts",
         "Explores the lookup/mutate window of the group controllers under seeded perturbation at every lock/channel site; membership model decides every join and every served connection."),
 "C01": ("exploration", "8 C01", "seeded deterministic whole-system simulation (frps+frpc in one synctest bubble on a simulated network) with per-read stream-prefix, completeness, close-propagation, cross-wiring, PROXY-header and sliding-window bandwidth oracles; a second world measures small bandwidth limits at the limiter itself (payload of mux frames / wire bytes at the instant of the write) against large write blocks",
         "Exploration over the option lattice x payloads x chunking x close orders x network schedules; every read at both endpoints is compared with the unique stream written at the matching endpoint, so loss/duplication/reordering/alteration/injection/cross-wiring show up at the first bad byte. Sampling, not proof."),
}
na = {
 "C18": "pure functions of configuration input (formats, flags, strict mode, validation, templating, msg<->config marshalling): no schedule, clock, fault or multi-party dimension for a simulator to explore; deciding it would be property-based input generation, a different technique (DESIGN.md §9)",
}
all_ids = ["C%02d" % i for i in range(1, 21)]
pending = "check not built yet in this round; see DESIGN.md §8 for the planned simulation world"
checks = []
for pid, (level, ref, tech, text) in sorted(claimed.items()):
    checks.append({
        "property_id": pid,
        "quick_cmd": "./check %s quick" % pid,
        "thorough_cmd": "./check %s thorough" % pid,
        "evidence_file": "/verif/evidence/%s.json" % pid,
        "replay_cmd_template": "./check %s --replay {path}" % pid,
        "engine": "simrun",
        "level_claimed": {"category": level, "text": text, "design_ref": "DESIGN.md §" + ref},
        "level_note": "trusted base: go1.26.8 + verif runtime overlay (mutex waits durable in synctest, seeded select/map/math-rand, no time-sliced preemption), testing/synctest fake clock, simnet (in-memory TCP/UDP), AST instrumenter (net seam + L2 yields), harness stubs and oracles; one P, GC off; kcp/quic/xtcp-direct not simulated",
        "technique": tech,
    })
not_app = [{"property_id": k, "reason": v} for k, v in sorted(na.items())]
for pid in all_ids:
    if pid not in claimed and pid not in na:
        not_app.append({"property_id": pid, "reason": pending})
m = {
 "version": 1,
 "setup_cmd": "./setup.sh",
 "hooks": {
  "guard": "none",
  "enable": "no hooks are committed to /repo: every check copies /repo's working tree to a scratch directory and rewrites it there with bin/verif-instr (net seam -> verif/sim/simnet, L2 simnet.Yield sites) and builds it with go1.26.8 -overlay (runtime determinism overlay)",
  "baseline_off_cmd": "cd /repo && GOFLAGS=-mod=mod GOPROXY=off GOSUMDB=off go test -vet=off -count=1 ./...",
  "source_commits": [],
  "add_only": True,
 },
 "engines": [{"name": "simrun", "path": "/verif/cmd/simrun", "serves_properties": sorted(claimed), "kind_free_text": "deterministic simulation with fault injection: seeded scheduler over an in-memory network inside a testing/synctest bubble, one OS process per run, ddmin-style minimisation, replay files"}],
 "checks": checks,
 "not_applicable": sorted(not_app, key=lambda x: x["property_id"]),
 "notes": "exit 0 = property held on everything explored; exit 1 + VIOLATION line = violation with replay file; exit 2 = inconclusive (build failure, watchdog, non-reproducible). fix: commits in /repo are listed in known_findings.json.",
}
json.dump(m, open("/verif/MANIFEST.json", "w"), indent=1)
print("claimed", sorted(claimed))
