#!/bin/bash
# divdiff.sh <index> [batchseed] : run selftest point <index> 16x in parallel and diff variants
idx=$1; bs=${2:-1}
S=$(python3 - <<PY
M=(1<<64)-1
z=($bs+($idx+1)*0x9e3779b97f4a7c15)&M
z=((z^(z>>30))*0xbf58476d1ce4e5b9)&M
z=((z^(z>>27))*0x94d049bb133111eb)&M
z^=z>>31
print(z>>1)
PY
)
F=false; [ $((idx%3)) = 2 ] && F=true
Y=""; [ $((idx%2)) = 1 ] && Y=',"yield":{"park_prob":0.01,"gosched_prob":0.02}'
echo "{\"world\":\"${3:-tunnel}\",\"seed\":$S,\"tier\":\"quick\",\"faults\":$F$Y}" > /tmp/dd.json
rm -f /tmp/dd*.txt
for i in $(seq 1 16); do (DBG=${DBG:-net} /verif/tools/dbgrun.py /tmp/dd.json > /tmp/dd$i.txt) & done; wait
md5sum /tmp/dd*.txt | awk '{print $1}' | sort | uniq -c
a=$(md5sum /tmp/dd*.txt | sort | head -1 | awk '{print $2}'); b=$(md5sum /tmp/dd*.txt | sort | tail -1 | awk '{print $2}')
diff $a $b | head -${N:-40}
