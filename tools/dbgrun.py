#!/usr/bin/env python3
"""dbgrun.py <replay.json | input.json> [grep] : run one input with keep_log and dump logs."""
import json,sys,subprocess,os,glob,tempfile
src=json.load(open(sys.argv[1]))
inp=src.get('input',src)
inp['keep_log']=True
d=tempfile.mkdtemp(prefix='verif-dbg-')
inp['out']=d+'/out.json'; inp['cert_dir']='/verif/certs'
json.dump(inp,open(d+'/in.json','w'))
bdir=subprocess.run(['/verif/bin/simrun','-build-only']+(['-repo',os.environ['DBG_REPO']] if os.environ.get('DBG_REPO') else []),capture_output=True,text=True,cwd='/verif').stdout.strip().splitlines()[-1]
bins=[bdir+('/harness.race.test' if os.environ.get('DBG_RACE') else '/harness.test')]
env={'VERIF_RUN':d+'/in.json','GOMAXPROCS':'1','GOGC':'off','GODEBUG':'asyncpreemptoff=1,randautoseed=0','PATH':'/usr/bin:/bin','HOME':'/tmp','GORACE':'halt_on_error=0 exitcode=0'}
if os.environ.get('VERIF_TRACE_G'): env['VERIF_TRACE_G']='1'
if os.environ.get('VERIF_DUMP_ON_VIOLATION'): env['VERIF_DUMP_ON_VIOLATION']='1'
if os.environ.get('VERIF_DUMP_AT'): env['VERIF_DUMP_AT']=os.environ['VERIF_DUMP_AT']
p=subprocess.run([bins[-1],'-test.run','^TestRun$','-test.timeout','0'],env=env,capture_output=True,text=True,cwd=d,timeout=600)
if not os.path.exists(d+'/out.json'):
    print(p.stderr[-6000:]); sys.exit(1)
if os.environ.get('VERIF_DUMP_ON_VIOLATION') or os.environ.get('VERIF_DUMP_AT'): open('/tmp/dump.txt','w').write(p.stderr)
r=json.load(open(d+'/out.json'))
print('verdict',r['verdict'],'error',r.get('error'),'steps',r['steps'],'simtime',r['sim_time_s'],'hash',r['log_hash'])
for v in r.get('violations',[]): print('VIOL',v)
print('knobs',{k:v for k,v in r['knobs'].items() if v})
print('sample',r.get('sample')); print('probes',r['probes']); print('checks',r['checks']); print('counters',r['counters'])
g=sys.argv[2] if len(sys.argv)>2 else None
mode=os.environ.get('DBG','frp')
lines=r.get('frp_log',[]) if mode=='frp' else r.get('log',[])
for l in lines:
    if g is None or g in l: print(l)
import shutil; shutil.rmtree(d)
