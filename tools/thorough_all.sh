#!/bin/bash
# runs every thorough tier one after the other; logs under /verif/.logs
cd "${VERIF_DIR:-/verif}"
mkdir -p .logs
for p in ${PROPS:-C01 C02 C03 C04 C05 C06 C07 C08 C09 C10 C11 C12 C13 C14 C15 C16 C17 C19 C20}; do
  ./check $p thorough > .logs/thorough-$p.log 2>&1
  echo "$p exit=$? $(grep '^simrun: C' .logs/thorough-$p.log | tail -1)" >> .logs/thorough-summary.log
done
