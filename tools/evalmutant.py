#!/usr/bin/env python3
"""evalmutant.py <worktree dir> <name> [check ids...]
Confirms a seeded change (compiles, unit tests pass, demonstration fails with / passes without),
stores it under /verif/seeded/<name>/, then applies it to /repo, runs the given checks (default: the
property in meta.json) and undoes it. Prints a one-line verdict per check."""
import json, os, shutil, subprocess, sys, time

wt, name = sys.argv[1], sys.argv[2]
env = dict(os.environ, GOFLAGS="-mod=mod", GOPROXY="off", GOSUMDB="off")
meta = json.load(open(os.path.join(wt, "meta.json")))
prop = meta.get("property")
checks = sys.argv[3:] or [prop]
tier = os.environ.get("TIER", "quick")

COPY = os.environ.get("MUT_COPY")  # evaluate on a copy of /repo (while another check may be building from /repo)
REPO = "/tmp/mutrepo" if COPY else "/repo"
def prep():
    if COPY:
        subprocess.run("mkdir -p /tmp/mutrepo && rsync -a --delete --exclude .git /repo/ /tmp/mutrepo/", shell=True, check=True)
def undo():
    if COPY:
        subprocess.run("rm -rf /tmp/mutrepo", shell=True)
    else:
        subprocess.run("git checkout -- .", cwd="/repo", shell=True)
def checkcmd(c, tier):
    return f"bin/simrun -prop {c} -tier {tier} -repo /tmp/mutrepo" if COPY else f"./check {c} {tier}"
def run(cmd, cwd, timeout=1800):
    p = subprocess.run(cmd, cwd=cwd, shell=True, env=env, capture_output=True, text=True, timeout=timeout)
    return p.returncode, (p.stdout + p.stderr)

patch = os.path.join(wt, "patch.diff")
demo_cmd = meta["demo_cmd"]
conf = {}
# state: patch applied in worktree?
rc, out = run("git apply --check -R patch.diff", wt)
if rc != 0:
    run("git apply patch.diff", wt)
rc, out = run("go build ./...", wt); conf["builds"] = rc == 0
rc, out = run("go test -vet=off -count=1 ./pkg/... ./server/... ./client/...", wt); conf["unit_tests_pass"] = rc == 0 and "FAIL" not in out
rc, out = run(demo_cmd, wt); conf["demo_fails_with_change"] = rc != 0
conf["demo_output_with"] = out[-1500:]
run("git apply -R patch.diff", wt)
rc, out = run(demo_cmd, wt); conf["demo_passes_without_change"] = rc == 0
conf["demo_output_without"] = out[-600:]
run("git apply patch.diff", wt)
ok = conf["builds"] and conf["unit_tests_pass"] and conf["demo_fails_with_change"] and conf["demo_passes_without_change"]
print("CONFIRM", name, {k: v for k, v in conf.items() if isinstance(v, bool)})
if not ok:
    print(conf["demo_output_with"][-800:]); print(conf["demo_output_without"][-400:])
    sys.exit(1)
dst = f"/verif/seeded/{name}"
os.makedirs(dst, exist_ok=True)
shutil.copy(patch, dst)
for root, _, files in os.walk(wt):
    if "/.git" in root: continue
    for f in files:
        p = os.path.join(root, f)
        rel = os.path.relpath(p, wt)
        if rel.startswith("demo/") or (f.endswith("_test.go") and subprocess.run(f"git ls-files --error-unmatch '{rel}'", cwd=wt, shell=True, capture_output=True).returncode != 0):
            os.makedirs(os.path.dirname(os.path.join(dst, rel)), exist_ok=True)
            shutil.copy(p, os.path.join(dst, rel))
# apply to /repo, run checks, undo
prep()
rc, out = run(f"git apply {patch}", REPO)
if rc != 0:
    print("cannot apply to /repo:", out); sys.exit(1)
results = {}
try:
    for c in checks:
        t0 = time.time()
        rc, out = run(checkcmd(c, tier), "/verif", timeout=7200)
        viol = [l for l in out.splitlines() if l.startswith("VIOLATION") or l.strip().startswith("oracle=")]
        results[c] = {"exit": rc, "detected": rc == 1, "wall_s": round(time.time() - t0, 1), "lines": viol[:6], "summary": [l for l in out.splitlines() if l.startswith("simrun:")][-1:]}
        print("CHECK", name, c, "exit", rc, "DETECTED" if rc == 1 else "missed", results[c]["summary"], viol[:4])
finally:
    undo()
    run("rm -rf /tmp/verif-replays-other" if COPY else "rm -rf /verif/replays", "/verif")
meta_out = dict(meta)
meta_out.update({"name": name, "confirmed": {k: v for k, v in conf.items() if isinstance(v, bool)}, "ran": {"demo_cmd": demo_cmd, "checks": results, "tier": tier}})
json.dump(meta_out, open(os.path.join(dst, "meta.json"), "w"), indent=1)
