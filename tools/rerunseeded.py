#!/usr/bin/env python3
"""rerunseeded.py [name ...]  -- for each stored seeded change (default: all) apply it to /repo, run the quick
checks named in meta.json["ran"]["checks"] (or the property's), record the outcome in meta.json, undo."""
import json, os, subprocess, sys, time
env = dict(os.environ, GOFLAGS="-mod=mod", GOPROXY="off", GOSUMDB="off")
names = sys.argv[1:] or sorted(os.listdir("/verif/seeded"))
tier = os.environ.get("TIER", "quick")
COPY = os.environ.get("MUT_COPY")  # evaluate on a copy of /repo (while another check may be building from /repo)
REPO = "/tmp/mutrepo" if COPY else "/repo"
def prep():
    if COPY:
        subprocess.run("mkdir -p /tmp/mutrepo && rsync -a --delete --exclude .git /repo/ /tmp/mutrepo/", shell=True, check=True)
def undo():
    if COPY:
        subprocess.run("rm -rf /tmp/mutrepo", shell=True)
    else:
        subprocess.run("git checkout -- .", cwd="/repo", shell=True)
def checkcmd(c, tier):
    return f"bin/simrun -prop {c} -tier {tier} -repo /tmp/mutrepo" if COPY else f"./check {c} {tier}"
def run(cmd, cwd, timeout=7200):
    p = subprocess.run(cmd, cwd=cwd, shell=True, env=env, capture_output=True, text=True, timeout=timeout)
    return p.returncode, p.stdout + p.stderr
assert run("git status --porcelain", "/repo")[1].strip() == "", "/repo not clean"
for name in names:
    d = f"/verif/seeded/{name}"
    meta = json.load(open(f"{d}/meta.json"))
    checks = os.environ.get("CHECKS", "").split() or list(meta.get("ran", {}).get("checks", {}).keys()) or [meta["property"]]
    prep()
    rc, out = run(f"git apply {d}/patch.diff", REPO)
    if rc != 0:
        print(name, "cannot apply:", out.strip()[:200]); continue
    res = meta.setdefault("ran", {}).setdefault("checks", {})
    try:
        for c in checks:
            t0 = time.time()
            rc, out = run(checkcmd(c, tier), "/verif")
            viol = [l for l in out.splitlines() if l.startswith("VIOLATION") or l.strip().startswith("oracle=")]
            res[c] = {"exit": rc, "detected": rc == 1, "wall_s": round(time.time() - t0, 1), "lines": viol[:6], "summary": [l for l in out.splitlines() if l.startswith("simrun:")][-1:]}
            print(name, c, "exit", rc, "DETECTED" if rc == 1 else "MISSED", [l.strip() for l in viol[1:2]])
    finally:
        undo()
        run("rm -rf /tmp/verif-replays-other" if COPY else "rm -rf /verif/replays", "/verif")
    meta["ran"]["tier"] = tier
    json.dump(meta, open(f"{d}/meta.json", "w"), indent=1)
