#!/usr/bin/env python3
"""mkmutprompt.py <property-id> <suffix> [extra hint]
Creates /tmp/mut/<ID>.prop.txt (the property text, nothing from /verif besides it), a scratch worktree
/tmp/mut/<ID><suffix> of /repo's HEAD and prints the prompt for a fresh sub-agent (also stored as
/tmp/mut/<ID><suffix>.prompt). The agent sees only the property text and its own worktree."""
import json, os, subprocess, sys, glob

pid, suf = sys.argv[1], sys.argv[2]
hint = sys.argv[3] if len(sys.argv) > 3 else ""
os.makedirs("/tmp/mut", exist_ok=True)
prop = None
for l in open("/verif/properties.jsonl"):
    p = json.loads(l)
    if p["id"] == pid:
        prop = p
assert prop, pid
with open(f"/tmp/mut/{pid}.prop.txt", "w") as f:
    f.write(f"{prop['id']}: {prop['title']}\n\n{prop['statement']}\n\nQuantifier: {prop['quantifier']['text']}\n")
wt = f"/tmp/mut/{pid}{suf}"
if not os.path.exists(wt):
    subprocess.run(["git", "-C", "/repo", "worktree", "add", "--detach", wt, "HEAD"], check=True, capture_output=True)
tried = []
for m in sorted(glob.glob(f"/verif/seeded/{pid}-*/meta.json")):
    tried.append(json.load(open(m)).get("summary", "")[:170].replace("\n", " "))
files = ", ".join(prop["anchors"]["files"])
idea = ("anything realistic that breaks the property as stated - choose yourself after reading the code; prefer code paths and "
        "configurations that the already-tried ideas below did not touch (other proxy types, other options, other termination "
        "or error paths). Prefer a bug that needs a particular interleaving of two goroutines or of two peers' messages, a "
        "connection loss / timeout / error at a particular point, a multi-step sequence of operations, or two cooperating "
        "sites that each look fine alone. Do not put the bug into KCP-specific code.")
if hint:
    idea += " " + hint
prompt = f"""You are helping to evaluate a verification system for the Go project fatedier/frp (a reverse proxy/tunnel: frps server, frpc client). Your job is to play the role of a developer who introduces a realistic, subtle BUG.

Work ONLY inside the git worktree {wt} (a checkout of frp). Do NOT read, list or touch /verif or /repo or any other directory under /tmp/mut except your own worktree and the file /tmp/mut/{pid}.prop.txt. The sandbox has no network. For every shell command use: `export GOFLAGS=-mod=mod GOPROXY=off GOSUMDB=off` and the default `go` (1.23). All dependencies are in the module cache; change only files inside the worktree (never the module cache). IMPORTANT: never use `git stash` (the stash is shared with other worktrees); to test the unmodified code use `git diff -- . ':!demo' > {wt}/my.diff && git apply -R {wt}/my.diff` and later `git apply {wt}/my.diff`.

1. Read /tmp/mut/{pid}.prop.txt: it states one semantic property of frp that must hold.
2. Read the relevant frp source in your worktree ({files}) and devise ONE small source change (a few lines, non-test files) that BREAKS this property, while
   - the project still compiles (`go build ./...`),
   - the existing unit tests still pass (`go test -vet=off -count=1 ./pkg/... ./server/... ./client/...`),
   - the breakage is NOT exposed by the most ordinary use; it must need something specific to manifest (a particular configuration, timing, fault, order of events, or input). Ideas of the kind wanted: {idea} Do NOT use these ideas (already tried): {' || '.join(tried)}
3. Write a DEMONSTRATION: a Go test file (in a new directory `demo/` inside the worktree, package demo) that FAILS with your change and PASSES on the unmodified code. It may drive real in-process frps/frpc services (server.NewService / client.NewService on loopback ports), or the relevant package directly. Keep it reasonably fast (< 2 min) and deterministic enough to fail reliably with the change. Run it both ways and make sure of both outcomes.
4. Leave the worktree with your change applied (uncommitted) and write into {wt}/: `patch.diff` (git diff of non-demo source files only), the demonstration file(s) under demo/, and `meta.json` with keys: property ("{pid}"), summary, needs, demo_cmd (exact command from the worktree root, including the GOFLAGS/GOPROXY/GOSUMDB variables), files_changed.

Report back: summary, needs, demo command, and the outputs observed with and without the change. Keep the change minimal and realistic (something that could pass code review as a refactor/optimisation/fix); no debug prints; do not change frp's own test files.
"""
open(f"/tmp/mut/{pid}{suf}.prompt", "w").write(prompt)
print(prompt)
