#!/usr/bin/env python3
"""detcheck.py <world> <i1,i2,..> [reps] [knob=val ...]: runs selftest points (batch seed 1, index i) several times in parallel and prints the distinct log hashes."""
import json,sys,subprocess,os,tempfile,concurrent.futures as cf
world=sys.argv[1]; idx=[int(x) for x in sys.argv[2].split(',')]; reps=int(sys.argv[3]) if len(sys.argv)>3 else 6
knobs={k:int(v) for k,v in (a.split('=') for a in sys.argv[4:])}
M=(1<<64)-1
def splitmix(seed,i):
    z=(seed+ (i+1)*0x9E3779B97F4A7C15)&M
    z=((z^(z>>30))*0xBF58476D1CE4E5B9)&M
    z=((z^(z>>27))*0x94D049BB133111EB)&M
    return (z^(z>>31))>>1
bdir=subprocess.run(['/verif/bin/simrun','-build-only'],capture_output=True,text=True,cwd='/verif').stdout.strip().splitlines()[-1]
def one(args):
    i,r=args
    d=tempfile.mkdtemp(prefix='verif-det-')
    inp={'world':world,'seed':int(os.environ.get('SEEDOF_%d'%i, 0)) or None,'tier':'quick','faults':i%3==2,'out':d+'/out.json','cert_dir':'/verif/certs','keep_log':bool(os.environ.get('KEEP'))}
    inp['seed']=seeds[i]
    if i%2==1: inp['yield']={'park_prob':0.01,'gosched_prob':0.02}
    if knobs: inp['knobs']=knobs
    json.dump(inp,open(d+'/in.json','w'))
    env={'VERIF_RUN':d+'/in.json','GOMAXPROCS':'1','GOGC':'off','GOMEMLIMIT':'3GiB','GODEBUG':'asyncpreemptoff=1,randautoseed=0','PATH':'/usr/bin:/bin','HOME':'/tmp'}
    subprocess.run([bdir+'/harness.test','-test.run','^TestRun$','-test.timeout','0'],env=env,capture_output=True,cwd=d,timeout=600)
    try:
        o=json.load(open(d+'/out.json'))
    except Exception as e:
        return i,'ERR'
    if os.environ.get('KEEP'):
        json.dump(o.get('log',[]),open('/tmp/det-%d-%d.json'%(i,r),'w'))
    import shutil; shutil.rmtree(d)
    return i,'%s/%s/%s'%(o['log_hash'],o['steps'],o['verdict'])
# seeds: ask simrun? replicate: splitmix(seed=1,i) as in simrun (must match its definition)
seeds={i:splitmix(int(os.environ.get('VERIF_SEED','1')),i) for i in idx}
with cf.ThreadPoolExecutor(16) as ex:
    res={}
    for i,h in ex.map(one,[(i,r) for i in idx for r in range(reps)]):
        res.setdefault(i,{}).setdefault(h,0); res[i][h]+=1
for i in idx: print(i, seeds[i], res[i])
