#!/usr/bin/env python3
"""hunt.py <knobs-json> <nruns> <base-seed> <world> <property> [park_prob]
Focused search: runs one world with the given knob overrides and L2 yields over many seeds (12 processes),
prints the first violations of <property> and stores their inputs as /tmp/hunt-<seed>.json (replay with
tools/dbgrun.py). Used to obtain replays of rare interleavings on the unchanged tree (DESIGN section 18)."""
import json,sys,subprocess,os,tempfile,concurrent.futures,shutil
knobs=json.loads(sys.argv[1]); n=int(sys.argv[2]); base=int(sys.argv[3]); world=sys.argv[4]; prop=sys.argv[5]
park=float(sys.argv[6]) if len(sys.argv)>6 else 0.06
bdir=subprocess.run(['/verif/bin/simrun','-build-only']+(['-repo',__import__('os').environ['HUNT_REPO']] if __import__('os').environ.get('HUNT_REPO') else []),capture_output=True,text=True,cwd='/verif').stdout.strip().splitlines()[-1]
env={'GOMAXPROCS':'1','GOGC':'off','GODEBUG':'asyncpreemptoff=1,randautoseed=0','PATH':'/usr/bin:/bin','HOME':'/tmp'}
def one(i):
    seed=(base*1000003+i*7919+12345)&0x7fffffffffffffff
    d=tempfile.mkdtemp(prefix='verif-hunt-')
    inp={'world':world,'seed':seed,'tier':'quick','property':prop,'faults':False,'knobs':knobs,'yield':{'park_prob':park,'gosched_prob':0.1},'out':d+'/out.json','cert_dir':'/verif/certs'}
    json.dump(inp,open(d+'/in.json','w'))
    e=dict(env,VERIF_RUN=d+'/in.json')
    try:
        subprocess.run([bdir+'/harness.test','-test.run','^TestRun$','-test.timeout','0'],env=e,capture_output=True,cwd=d,timeout=120)
        r=json.load(open(d+'/out.json'))
    except Exception as ex:
        shutil.rmtree(d,ignore_errors=True); return (seed,'err',str(ex)[:100])
    shutil.rmtree(d,ignore_errors=True)
    v=[x for x in r.get('violations',[]) if x['property']==prop]
    return (seed,r['verdict'],[ (x['oracle'],x['sig'],x['detail'][:200]) for x in v], inp if v else None)
hits=0
with concurrent.futures.ThreadPoolExecutor(12) as ex:
    for res in ex.map(one, range(n)):
        if res[1]!='ok':
            hits+=1
            if hits<=3:
                print(res[0],res[1],res[2])
                if len(res)>3 and res[3]: json.dump(res[3],open(f'/tmp/hunt-{res[0]}.json','w'))
print('done',n,'hits',hits)
