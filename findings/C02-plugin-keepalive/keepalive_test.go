package demo

import (
	"bufio"
	"context"
	"fmt"
	"net"
	"net/http"
	"testing"
	"time"

	"github.com/fatedier/frp/client"
	v1 "github.com/fatedier/frp/pkg/config/v1"
	"github.com/fatedier/frp/server"
)

func freePort(t *testing.T) int {
	l, err := net.Listen("tcp", "127.0.0.1:0")
	if err != nil {
		t.Fatal(err)
	}
	defer l.Close()
	return l.Addr().(*net.TCPAddr).Port
}

func run(t *testing.T, enc bool) {
	bind, remote := freePort(t), freePort(t)
	be, _ := net.Listen("tcp", "127.0.0.1:0")
	go http.Serve(be, http.HandlerFunc(func(w http.ResponseWriter, r *http.Request) { fmt.Fprint(w, "ok") }))
	sc := &v1.ServerConfig{}
	sc.BindAddr, sc.BindPort = "127.0.0.1", bind
	sc.Complete()
	svr, err := server.NewService(sc)
	if err != nil {
		t.Fatal(err)
	}
	ctx, cancel := context.WithCancel(context.Background())
	defer cancel()
	go svr.Run(ctx)
	defer svr.Close()
	time.Sleep(200 * time.Millisecond)
	cc := &v1.ClientCommonConfig{}
	cc.ServerAddr, cc.ServerPort = "127.0.0.1", bind
	cc.Complete()
	px := &v1.TCPProxyConfig{}
	px.Name, px.Type, px.RemotePort = "p", "tcp", remote
	px.Transport.UseEncryption = enc
	px.Plugin.Type = "http2http"
	px.Plugin.ClientPluginOptions = &v1.HTTP2HTTPPluginOptions{Type: "http2http", LocalAddr: be.Addr().String()}
	px.Complete("")
	cli, err := client.NewService(client.ServiceOptions{Common: cc, ProxyCfgs: []v1.ProxyConfigurer{px}})
	if err != nil {
		t.Fatal(err)
	}
	go cli.Run(ctx)
	defer cli.Close()
	var conn net.Conn
	for i := 0; i < 50; i++ {
		conn, err = net.Dial("tcp", fmt.Sprintf("127.0.0.1:%d", remote))
		if err == nil {
			break
		}
		time.Sleep(100 * time.Millisecond)
	}
	if err != nil {
		t.Fatal(err)
	}
	defer conn.Close()
	time.Sleep(300 * time.Millisecond)
	br := bufio.NewReader(conn)
	for i := 1; i <= 3; i++ {
		fmt.Fprintf(conn, "GET /%d HTTP/1.1\r\nHost: x\r\n\r\n", i)
		conn.SetReadDeadline(time.Now().Add(5 * time.Second))
		resp, err := http.ReadResponse(br, nil)
		if err != nil {
			t.Fatalf("encryption=%v: request %d on the keep-alive connection: %v", enc, i, err)
		}
		resp.Body.Close()
		time.Sleep(100 * time.Millisecond)
	}
}

func TestKeepAlivePlain(t *testing.T)     { run(t, false) }
func TestKeepAliveEncrypted(t *testing.T) { run(t, true) }
